"""Sidecar contract for C18: DynamicNumpyArray refines a Python list of rows (P-HIST).

Pure Python, no imports.  `view` and `wf` read the real object's fields; the m_* functions are the
list model.  The same text is interpreted symbolically by pyvc and run natively by the replay."""

CLASS = 'jesse.libs.dynamic_numpy_array.DynamicNumpyArray'


def view(a):
    """abstraction function: the rows in use, as a list"""
    return list(a.array[0:a.index + 1])


def wf(a):
    """representation invariant (holds after __init__, preserved by every public operation)"""
    return (-1 <= a.index and a.index + 1 <= len(a.array) and len(a.array) >= 1 and a.bucket_size == a.shape[0] and a.bucket_size >= 1
            and (a.drop_at is None or a.drop_at >= 2))


# ---- list model -------------------------------------------------------------------------
def m_append(L, item, drop_at):
    L = L + [item]
    # drop-oldest option: when the length reaches a multiple of drop_at the oldest half of drop_at goes
    if drop_at is not None and len(L) != 1 and len(L) % drop_at == 0:
        L = L[int(drop_at / 2):]
    return L


def m_append_multiple(L, items, drop_at):
    L = L + list(items)
    if drop_at is not None and len(L) != 1 and len(L) % drop_at == 0:
        L = L[int(drop_at / 2):]
    return L


def m_delete(L, i):
    if i < 0:
        i = len(L) + i
    return L[:i] + L[i + 1:]


def m_getitem(L, i):
    return L[i]


def m_getslice(L, start, stop):
    return L[start:stop]


def m_setitem(L, i, item):
    L = list(L)
    L[i] = item
    return L


def m_setslice(L, start, stop, items):
    L = list(L)
    L[start:stop] = list(items)
    return L


def m_last(L):
    return L[-1]


def m_past(L, k):
    return L[len(L) - 1 - k]
