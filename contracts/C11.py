"""Sidecar contract for C11 (research.backtest is a pure, repeatable function of its arguments). Pure Python."""


def lookup(config, keys, default):
    """the value a dotted key denotes in the configuration"""
    d = config
    for k in keys.split('.'):
        if isinstance(d, dict):
            d = d.get(k, default)
        else:
            d = default
    return d


# the order in which the isolated backtest must establish the session state (prologue) and clean up (epilogue)
PROLOGUE = ['set_config', 'router.initiate', 'validate_routes', 'init_storage']
EPILOGUE = ['reset_config', 'store.reset']

STORE_STATE = ['app', 'orders', 'completed_trades', 'logs', 'exchanges', 'candles', 'positions', 'tickers', 'trades', 'orderbooks', 'vars']


# module-level mutable objects on the session path that are known and accounted for (how each is kept from leaking between sessions)
MODULE_STATE = {
    'jesse.modes.backtest_mode.timeframe_to_one_minutes': 'constant table, never written',
    'jesse.helpers.CACHED_CONFIG': 'memo of get_config: cleared by set_config / reset_config (get_config.*, set_config.*)',
    'jesse.config.config': 'installed from the arguments by set_config, restored by reset_config (set_config.*, prologue.*)',
    'jesse.config.backup_config': 'copy used by reset_config',
    'jesse.routes.router': 'router.initiate resets and installs the routes (router.*)',
    'jesse.store.store': 'store.reset replaces every state object (store-reset.*)',
    'jesse.services.api.api': 'exchange-driver table: recorded finding C11-drivers-frozen',
    'jesse.services.cache.cache': 'file cache, not used by the isolated backtest',
    'jesse.services.color._generated_colors': 'chart colours, not part of the result',
    'jesse.services.db.database': 'not opened by the isolated backtest',
    'jesse.services.env.ENV_VALUES': 'read-only environment values',
    'jesse.services.logger.LOGGERS': 'file loggers, not part of the result',
    'jesse.services.multiprocessing.process_manager': 'dashboard only',
    'jesse.services.notifier.MSG_QUEUE': 'live mode only',
    'jesse.services.redis.async_redis': 'dashboard only',
    'jesse.services.redis.sync_redis': 'dashboard only',
    'jesse.services.web.fastapi_app': 'dashboard only',
    'jesse.services.web.origins': 'dashboard only',
}
MUTATORS = ('append', 'extend', 'add', 'update', 'clear', 'pop', 'popitem', 'setdefault', 'insert', 'remove', 'discard', 'appendleft')

# functions on the session path that are wrapped by a memoising decorator (the engine treats decorators as transparent, so these are
# accounted for here): their results do not depend on anything a session configures
MEMOISED = {
    'jesse.helpers.app_mode': 'process-wide mode', 'jesse.helpers.is_live': 'process-wide mode', 'jesse.helpers.is_livetrading': 'process-wide mode',
    'jesse.helpers.is_optimizing': 'process-wide mode', 'jesse.helpers.is_paper_trading': 'process-wide mode',
    'jesse.helpers.opposite_side': 'pure function of its argument', 'jesse.helpers.opposite_type': 'pure function of its argument',
    'jesse.helpers.side_to_type': 'pure function of its argument', 'jesse.helpers.type_to_side': 'pure function of its argument',
    'jesse.models.FuturesExchange.find_order_index': 'numba compile cache, not a result memo',
    'jesse.models.Position._min_qty': 'live mode only (exchange precision table)',
}
