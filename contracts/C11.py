"""Sidecar contract for C11 (research.backtest is a pure, repeatable function of its arguments). Pure Python."""


def lookup(config, keys, default):
    """the value a dotted key denotes in the configuration"""
    d = config
    for k in keys.split('.'):
        if isinstance(d, dict):
            d = d.get(k, default)
        else:
            d = default
    return d


# the order in which the isolated backtest must establish the session state (prologue) and clean up (epilogue)
PROLOGUE = ['set_config', 'router.initiate', 'validate_routes', 'init_storage']
EPILOGUE = ['reset_config', 'store.reset']

STORE_STATE = ['app', 'orders', 'completed_trades', 'logs', 'exchanges', 'candles', 'positions', 'tickers', 'trades', 'orderbooks', 'vars']
