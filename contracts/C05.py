"""Sidecar contract for C05 (order lifecycle). Pure Python, no imports."""

FINAL = ('EXECUTED', 'CANCELED')
# every function in jesse/ that assigns `.status` of an order; only cancel and execute are reachable in backtests
STATUS_WRITERS = {
    'jesse.models.Order.Order.queue': 'live only (no caller in jesse/)',
    'jesse.models.Order.Order.resubmit': 'live only (no caller in jesse/)',
    'jesse.models.Order.Order.cancel': 'ACTIVE -> CANCELED',
    'jesse.models.Order.Order.execute': 'ACTIVE -> EXECUTED',
    'jesse.models.Order.Order.execute_partially': 'live only (no caller in jesse/)',
}
LIVE_ONLY_METHODS = ('queue', 'resubmit', 'execute_partially')


def active_count(statuses):
    n = 0
    for s in statuses:
        if s == 'ACTIVE':
            n += 1
    return n
