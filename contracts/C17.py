"""Sidecar contracts for C17 (sizing and numeric helpers). Pure Python, no imports.
Clause texts are compiled to SMT by pyvc and evaluated natively by the replay driver."""

TIMEFRAMES = ['1m', '3m', '5m', '15m', '30m', '45m', '1h', '2h', '3h', '4h', '6h', '8h', '12h', '1D', '3D', '1W', '1M']


def label_minutes(label):
    """length of a timeframe label in minutes, from the label itself"""
    unit = label[-1]
    n = int(label[:-1])
    if unit == 'm':
        return n
    if unit == 'h':
        return n * 60
    if unit == 'D':
        return n * 60 * 24
    if unit == 'W':
        return n * 60 * 24 * 7
    if unit == 'M':
        return n * 60 * 24 * 30
    raise ValueError(label)


def step(p):
    return 1 / 10 ** p


CONTRACTS = {
    'jesse.helpers.floor_with_precision': {
        'args': ['num', 'precision'],
        'requires': [],
        'ensures': {'never-rounds-up': "r <= num", 'within-one-step': "num - r < step(precision)"},
    },
    'jesse.utils.size_to_qty': {
        'args': ['position_size', 'entry_price', 'precision', 'fee_rate'],
        'requires': ["position_size >= 0", "entry_price > 0", "fee_rate >= 0", "fee_rate * 3 < 1"],
        'ensures': {
            'cost-with-fee-within-capital': "r * entry_price * (1 + fee_rate) <= position_size",
            'accepted-by-fresh-account': "r * entry_price <= position_size",
            'within-one-step-of-quotient': "position_size * (1 - 3 * fee_rate) / entry_price - r < step(precision)",
            'non-negative': "r >= 0",
        },
    },
    'jesse.utils.risk_to_qty': {
        'args': ['capital', 'risk_per_capital', 'entry_price', 'stop_loss_price', 'precision', 'fee_rate'],
        'requires': ["capital >= 0", "risk_per_capital >= 0", "risk_per_capital <= 100", "entry_price > 0",
                     "stop_loss_price > 0", "entry_price != stop_loss_price", "fee_rate >= 0", "fee_rate * 3 < 1"],
        'ensures': {
            'cost-with-fee-within-capital': "r * entry_price * (1 + fee_rate) <= capital",
            'accepted-by-fresh-account': "r * entry_price <= capital",
            'risk-within-request': "r * abs(entry_price - stop_loss_price) <= capital * risk_per_capital / 100",
            'non-negative': "r >= 0",
        },
    },
    'jesse.utils.risk_to_size': {
        'args': ['capital_size', 'risk_percentage', 'risk_per_qty', 'entry_price'],
        'requires': ["capital_size >= 0", "risk_percentage >= 0", "risk_per_qty > 0", "entry_price > 0"],
        'ensures': {'never-more-than-capital': "r <= capital_size",
                    'risk-within-request': "r / entry_price * risk_per_qty <= capital_size * risk_percentage / 100"},
    },
    'jesse.utils.estimate_risk': {
        'args': ['entry_price', 'stop_price'], 'requires': [],
        'ensures': {'is-distance': "r == abs(entry_price - stop_price)"},
    },
    'jesse.utils.qty_to_size': {
        'args': ['qty', 'price'], 'requires': [],
        'ensures': {'is-product': "r == qty * price"},
    },
    'jesse.utils.limit_stop_loss': {
        'args': ['entry_price', 'stop_price', 'trade_type', 'max_allowed_risk_percentage'],
        'requires': ["entry_price > 0", "max_allowed_risk_percentage >= 0",
                     "(trade_type == 'long' and stop_price <= entry_price) or (trade_type == 'short' and stop_price >= entry_price)"],
        'ensures': {
            'never-widens-risk': "abs(entry_price - r) <= abs(entry_price - stop_price)",
            'within-allowed-risk': "abs(entry_price - r) <= entry_price * max_allowed_risk_percentage / 100",
            'same-side-as-stop': "(trade_type == 'long' and r <= entry_price) or (trade_type == 'short' and r >= entry_price)",
        },
    },
    'jesse.helpers.round_decimals_down': {
        'args': ['number', 'decimals'], 'requires': [],
        'ensures': {'never-rounds-up': "r <= number"},
    },
    'jesse.helpers.round_qty_for_live_mode': {
        'args': ['roundable_qty', 'precision'], 'requires': ["roundable_qty >= 0"],
        'ensures': {'never-rounds-up-except-to-minimum-unit':
                    "r <= roundable_qty or (roundable_qty < step(precision) and r == step(precision))",
                    'within-one-step': "roundable_qty - r < step(precision)"},
    },
    'jesse.utils.sum_floats': {
        'args': ['float1', 'float2'], 'requires': [],
        'ensures': {'is-decimal-sum': "r == float1 + float2"},
    },
    'jesse.utils.subtract_floats': {
        'args': ['float1', 'float2'], 'requires': [],
        'ensures': {'is-decimal-difference': "r == float1 - float2"},
    },
}

# exact decimal arithmetic (assumption A-2): both operands go through Decimal(str(.)), one decimal
# operation, one conversion back
DECIMAL_TRACE = [('Decimal', 'str'), ('Decimal', 'str'), ('float',)]

MUSTFAIL = ('jesse.helpers.floor_with_precision', "r == num")
