"""Sidecar contract for C15: textbook definitions of the core indicators. Pure Python over plain lists; `nan` marks warm-up.
x = source series, p = period; every function returns a list with one entry per input value."""

MATYPES = {0: 'sma', 1: 'ema', 2: 'wma', 3: 'dema', 4: 'tema', 5: 'trima', 6: 'kama', 9: 'fwma', 10: 'hma', 11: 'linearreg',
           12: 'wilders', 13: 'sinwma', 14: 'supersmoother', 15: 'supersmoother_3_pole', 16: 'gauss', 17: 'high_pass',
           18: 'high_pass_2_pole', 20: 'jma', 21: 'reflex', 22: 'trendflex', 23: 'smma', 24: 'vwma', 25: 'pwma', 26: 'swma',
           27: 'alma', 28: 'hwma', 29: 'vwap', 30: 'nma', 31: 'edcf', 32: 'mwdx', 33: 'maaq', 34: 'srwma', 35: 'sqwma', 36: 'vpwma',
           37: 'cwma', 38: 'jsa', 39: 'epma'}
INVALID_MATYPES = (7, 8, 19)
NO_PERIOD = ('hwma', 'vwap', 'mwdx')          # averages that take no period


def sma(x, p):
    out = []
    for j in range(len(x)):
        if j < p - 1:
            out.append(nan)
        else:
            s = 0
            for k in range(j - p + 1, j + 1):
                s = s + x[k]
            out.append(s / p)
    return out


def wma(x, p):
    out = []
    den = p * (p + 1) / 2
    for j in range(len(x)):
        if j < p - 1:
            out.append(nan)
        else:
            s = 0
            for k in range(p):
                s = s + (k + 1) * x[j - p + 1 + k]
            out.append(s / den)
    return out


def ema_alpha(p):
    return 2 / (p + 1)


def roc(x, p):
    return [nan if j < p else (x[j] / x[j - p] - 1) * 100 for j in range(len(x))]


def mom(x, p):
    return [nan if j < p else x[j] - x[j - p] for j in range(len(x))]


def obv(close, volume):
    out = [volume[0]]
    for j in range(1, len(close)):
        d = volume[j] if close[j] > close[j - 1] else (-volume[j] if close[j] < close[j - 1] else 0)
        out.append(out[j - 1] + d)
    return out


def true_range(h, l, c, j):
    return max(h[j] - l[j], abs(h[j] - c[j - 1]), abs(l[j] - c[j - 1]))


def rsi_wilder(x, p):
    """Wilder's RSI: average gain / loss over the first p changes, then smoothed with factor 1/p;
    RSI = 100 when the average loss is 0, else 100 - 100 / (1 + avg_gain / avg_loss); undefined before index p"""
    n = len(x)
    out = [nan for _ in range(n)]
    if n < p + 1:
        return out
    ag = 0
    al = 0
    for i in range(p):
        ch = x[i + 1] - x[i]
        ag = ag + (ch if ch > 0 else 0)
        al = al + (-ch if ch < 0 else 0)
    ag = ag / p
    al = al / p
    out[p] = 100 if al == 0 else 100 - 100 / (1 + ag / al)
    for i in range(p, n - 1):
        ch = x[i + 1] - x[i]
        ag = (ag * (p - 1) + (ch if ch > 0 else 0)) / p
        al = (al * (p - 1) + (-ch if ch < 0 else 0)) / p
        out[i + 1] = 100 if al == 0 else 100 - 100 / (1 + ag / al)
    return out
