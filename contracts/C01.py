"""Sidecar contract for C01 (no look-ahead): the feed frame. Pure Python, no imports."""

BM = 'jesse.modes.backtest_mode'
CS = 'jesse.store.state_candles.CandlesState'

# functions below the feed: they may reach market data only through their arguments and the store.  The names they may load
# from their module (anything else, e.g. a module-level cache of the input candles, fails the obligation)
FREE_NAMES = {
    f'{BM}._simulate_price_change_effect': {'_get_executing_orders', '_sort_execution_orders', 'enumerate', 'len', 'candle_includes_price',
                                            'split_candle', '_update_all_routes_a_partial_candle', 'selectors', 'store',
                                            '_check_for_liquidations'},
    f'{BM}._simulate_price_change_effect_multiple_candles': {'np', '_get_executing_orders', '_sort_execution_orders', 'range', 'len', 'max',
                                                             'min', 'enumerate', 'candle_includes_price', 'split_candle',
                                                             '_update_all_routes_a_partial_candle', 'selectors', 'store',
                                                             '_check_for_liquidations'},
    f'{BM}._update_all_routes_a_partial_candle': {'store', 'router', 'timeframe_to_one_minutes', 'int', 'generate_candle_from_one_minutes'},
    f'{BM}._get_executing_orders': {'store', 'candle_includes_price'},
    f'{BM}._sort_execution_orders': {'range', 'len', 'candle_includes_price', 'sorted'},
    f'{BM}._check_for_liquidations': {'selectors', 'candle_includes_price', 'jh', 'Order', 'order_types', 'store', 'logger', 'Position'},
    f'{BM}._get_fixed_jumped_candle': {'min', 'max'},
    f'{BM}._execute_routes': {'router', 'timeframe_to_one_minutes', 'timeframes', 'jh', 'print_candle', 'store'},
    f'{BM}._execute_market_orders': {'store'},
    f'{CS}.get_candles': {'DynamicNumpyArray', 'len', 'np', 'jh', 'generate_candle_from_one_minutes'},
    f'{CS}.get_current_candle': {'DynamicNumpyArray', 'len', 'np', 'generate_candle_from_one_minutes'},
    f'{CS}.forming_estimation': {'jh', 'len'},
    f'{CS}.get_storage': {'jh', 'RouteNotFound', 'KeyError'},
    'jesse.services.candle.generate_candle_from_one_minutes': {'len', 'ValueError', 'jh', 'np'},
    'jesse.services.candle.split_candle': {'is_bullish', 'is_bearish', 'np'},
}
