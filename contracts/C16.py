"""Sidecar contract for C16 (metrics consistent with trades and equity). Pure Python, no imports."""


def futures_equity(wallet, positions):
    """wallet plus unrealised PnL of every open position; positions: list of (qty, entry, price)"""
    r = wallet
    for p in positions:
        if p[0] != 0:
            r = r + p[0] * (p[2] - p[1])
    return r


def spot_equity(free_quote, resting_buys, holdings):
    """free quote + quote reserved by every resting buy (any route) + market value of the base held
    resting_buys: list of (qty, price); holdings: list of (base qty, price)"""
    r = free_quote
    for b in resting_buys:
        r = r + abs(b[0]) * b[1]
    for hd in holdings:
        r = r + abs(hd[0] * hd[1])
    return r


# ------------------------------------------------------------------------------------------------ trade-list metrics
# pnls / fees / holds: lists of numbers, types: list of 'long' | 'short' (one entry per closed trade, in closing order)

def count_pos(xs):
    n = 0
    for x in xs:
        n = n + (1 if x > 0 else 0)
    return n


def count_neg(xs):
    n = 0
    for x in xs:
        n = n + (1 if x < 0 else 0)
    return n


def count_zero(xs):
    n = 0
    for x in xs:
        n = n + (1 if x == 0 else 0)
    return n


def count_eq(xs, v):
    n = 0
    for x in xs:
        n = n + (1 if x == v else 0)
    return n


def total(xs):
    r = 0
    for x in xs:
        r = r + x
    return r


def sum_pos(xs):
    r = 0
    for x in xs:
        r = r + (x if x > 0 else 0)
    return r


def sum_neg(xs):
    r = 0
    for x in xs:
        r = r + (x if x < 0 else 0)
    return r


def largest_win(xs):
    r = 0
    for x in xs:
        r = x if x > r else r
    return r


def largest_loss(xs):
    r = 0
    for x in xs:
        r = x if x < r else r
    return r


def win_rate(xs):
    w = count_pos(xs)
    l = count_neg(xs)
    return w / (w + l) if w > 0 else 0


def streaks(xs):
    """(longest winning run, longest losing run, signed run at the end): a run of consecutive PnL > 0 counts up, a run of
    consecutive PnL < 0 counts down, a zero-PnL trade ends either run"""
    cur = 0
    best = 0
    worst = 0
    for x in xs:
        up = (cur + 1 if cur > 0 else 1)
        down = (cur - 1 if cur < 0 else -1)
        cur = up if x > 0 else (down if x < 0 else 0)
        best = cur if cur > best else best
        worst = cur if cur < worst else worst
    return best, -worst, cur


def expectancy(xs):
    w = count_pos(xs)
    l = count_neg(xs)
    wr = win_rate(xs)
    aw = sum_pos(xs) / w if w > 0 else 0
    al = abs(sum_neg(xs) / l) if l > 0 else 0
    return aw * wr - al * (1 - wr)


# ------------------------------------------------------------------------------------------------ equity-series ratios
# balances: daily equity samples b[0..d-1] (b[0] = starting balance), all > 0, d >= 2; returns r[t] = b[t]/b[t-1] - 1

def returns_of(balances):
    return [balances[t] / balances[t - 1] - 1 for t in range(1, len(balances))]


def mean_of(xs):
    return total(xs) / len(xs)


def sample_std(xs):
    m = mean_of(xs)
    s = 0
    for x in xs:
        s = s + (x - m) * (x - m)
    return pow(s / (len(xs) - 1), 0.5)


def max_drawdown_of(balances):
    """most negative relative distance of the compounded daily-return curve from its running peak; the curve starts at 1
    (the starting balance), which is the first peak"""
    curve = 1
    peak = 1
    worst = 0
    for x in returns_of(balances):
        curve = curve * (1 + x)
        peak = curve if curve > peak else peak
        dd = curve / peak - 1
        worst = dd if dd < worst else worst
    return worst


def growth_of(balances):
    g = 1
    for r in returns_of(balances):
        g = g * (1 + r)
    return g


def cagr_of(balances):
    """compound annual growth over the d-1 days the series spans, 365-day year"""
    days = len(balances) - 1
    return pow(growth_of(balances), 365 / days) - 1


def sharpe_of(balances):
    r = returns_of(balances)
    return mean_of(r) / sample_std(r) * pow(365, 0.5)


def downside_of(balances):
    r = returns_of(balances)
    s = 0
    for x in r:
        s = s + (x * x if x < 0 else 0)
    return pow(s / len(r), 0.5)


def sortino_of(balances):
    return mean_of(returns_of(balances)) / downside_of(balances) * pow(365, 0.5)


def omega_of(balances):
    r = returns_of(balances)
    return sum_pos(r) / -sum_neg(r)


def calmar_of(balances):
    return cagr_of(balances) / abs(max_drawdown_of(balances))


# metric key -> defining expression over (pnls, types, fees, holds, start, finish); evaluated symbolically by the proof
# harness and natively by the replay (same text)
TRADE_METRICS = {
    'total': 'len(pnls)',
    'total_winning_trades': 'count_pos(pnls)',
    'total_losing_trades': 'count_neg(pnls)',
    'win_rate': 'win_rate(pnls)',
    'longs_count': "count_eq(types, 'long')",
    'shorts_count': "count_eq(types, 'short')",
    'longs_percentage': "count_eq(types, 'long') / len(types) * 100",
    'shorts_percentage': "100 - count_eq(types, 'long') / len(types) * 100",
    'fee': 'total(fees)',
    'net_profit': 'total(pnls)',
    'net_profit_percentage': 'total(pnls) / start * 100',
    'gross_profit': 'sum_pos(pnls)',
    'gross_loss': 'sum_neg(pnls)',
    'largest_winning_trade': 'largest_win(pnls)',
    'largest_losing_trade': 'largest_loss(pnls)',
    'average_win': 'sum_pos(pnls) / count_pos(pnls) if count_pos(pnls) > 0 else nan',
    'average_loss': 'abs(sum_neg(pnls) / count_neg(pnls)) if count_neg(pnls) > 0 else nan',
    'expectancy': 'expectancy(pnls)',
    'expectancy_percentage': 'expectancy(pnls) / start * 100',
    'winning_streak': 'streaks(pnls)[0]',
    'losing_streak': 'streaks(pnls)[1]',
    'current_streak': 'streaks(pnls)[2]',
    'average_holding_period': 'total(holds) / len(holds)',
    'starting_balance': 'start',
    'finishing_balance': 'finish',
}

# identities between the reported numbers themselves (m = the reported dict)
TRADE_IDENTITIES = [
    ('total-is-winners-plus-losers-plus-breakeven', "m['total'] == m['total_winning_trades'] + m['total_losing_trades'] + count_zero(pnls)"),
    ('net-profit-is-gross-profit-plus-gross-loss', "m['net_profit'] == m['gross_profit'] + m['gross_loss']"),
    ('longs-and-shorts-sum-to-total', "m['longs_count'] + m['shorts_count'] == m['total']"),
    ('long-and-short-percentages-sum-to-100', "m['longs_percentage'] + m['shorts_percentage'] == 100"),
]

# ratio key -> standard definition on the daily equity series `balances` (d >= 2 samples, all > 0)
RATIO_METRICS = {
    'max_drawdown': 'max_drawdown_of(balances) * 100',
    'annual_return': 'cagr_of(balances) * 100',
    'sharpe_ratio': 'sharpe_of(balances)',
    'sortino_ratio': 'sortino_of(balances)',
    'omega_ratio': 'omega_of(balances) if sum_neg(returns_of(balances)) < 0 else nan',
    'calmar_ratio': 'calmar_of(balances) if max_drawdown_of(balances) != 0 else 0',
}
