"""Sidecar contract for C16 (metrics consistent with trades and equity). Pure Python, no imports."""


def futures_equity(wallet, positions):
    """wallet plus unrealised PnL of every open position; positions: list of (qty, entry, price)"""
    r = wallet
    for p in positions:
        if p[0] != 0:
            r = r + p[0] * (p[2] - p[1])
    return r


def spot_equity(free_quote, resting_buys, holdings):
    """free quote + quote reserved by every resting buy (any route) + market value of the base held
    resting_buys: list of (qty, price); holdings: list of (base qty, price)"""
    r = free_quote
    for b in resting_buys:
        r = r + abs(b[0]) * b[1]
    for hd in holdings:
        r = r + abs(hd[0] * hd[1])
    return r
