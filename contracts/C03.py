"""Sidecar contract for C03: the futures account refines an average-cost margin account. Pure Python, no imports.

Abstract state: W wallet, L leverage, f fee rate; per symbol Q signed size, E average entry (meaningful while Q != 0),
P mark price, Sb / Ss = sum of qty*price over the resting non-reduce-only buy / sell orders (sells carry negative qty)."""


class InsufficientMargin(Exception):
    pass


def table_sum(t):
    """sum of qty*price over the rows in use of an order table"""
    rows = t[:]
    return (rows[:, 0] * rows[:, 1]).sum()


def position_margin(Q, E, P, L):
    """margin tied up by an open position: cost / leverage minus unrealised PnL"""
    if Q == 0:
        return 0
    return abs(Q) * E / L - Q * (P - E)


def unrealised(Q, E, P):
    if Q == 0:
        return 0
    return Q * (P - E)


def avail(W, L, symbols):
    """symbols: list of (Q, E, P, Sb, Ss)"""
    r = W
    for s in symbols:
        r = r - position_margin(s[0], s[1], s[2], L) - max(abs(s[3]), abs(s[4])) / L
    return r


def m_execute(W, Q, E, q, p, ro, f):
    """one fill of signed qty q at price p on the average-cost account -> (W', Q', E')"""
    W = W - abs(q * p) * f                       # fee on every fill
    if Q == 0:
        return (W, q, p)                         # open
    if Q + q == 0:
        return (W + Q * (p - E), 0, None)        # close
    if Q * q > 0:
        if ro:
            return (W, Q, E)                     # reduce-only never increases
        return (W, Q + q, (abs(q) * p + abs(Q) * E) / (abs(q) + abs(Q)))      # increase: average cost
    if abs(q) > abs(Q):
        if ro:
            return (W + Q * (p - E), 0, None)    # oversize reduce-only only closes
        return (W + Q * (p - E), Q + q, p)       # flip: realise everything, open the remainder at p
    return (W + (-q) * (p - E), Q + q, E)        # reduce: realise the reduced part


MUSTFAIL = "a == W"
