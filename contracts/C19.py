"""Sidecar contract for C19 (DNA decoding and hyperparameter precedence). Pure Python, no imports."""

FIRST, LAST = 40, 119          # code points of the first and last letter of the optimizer alphabet


def decode_float(lo, hi, code):
    """linear map of the gene's position in the alphabet onto [lo, hi]"""
    return lo + (code - FIRST) * (hi - lo) / (LAST - FIRST)


def round_half_even(x):
    return round(x)


def decode(h, code):
    if h['type'] is int:
        return int(round_half_even(decode_float(h['min'], h['max'], code)))
    return decode_float(h['min'], h['max'], code)


FLOAT_ENSURES = {
    'in-range': "lo <= v and v <= hi",
    'is-linear-map': "v == decode_float(lo, hi, g)",
    'first-letter-is-min': "g != FIRST or v == lo",
    'last-letter-is-max': "g != LAST or v == hi",
}
FLOAT_MONOTONE = "g2 >= g or v2 < v"          # for a second gene g2 < g the value is strictly smaller

INT_ENSURES = {
    'in-range': "lo <= v and v <= hi",
    'is-rounded-linear-map': "v == round_half_even(decode_float(lo, hi, g))",
    'first-letter-is-min': "g != FIRST or v == lo",
    'last-letter-is-max': "g != LAST or v == hi",
}
INT_MONOTONE = "g2 >= g or v2 <= v"

MUSTFAIL = "v == lo"


def expected_hp(explicit, dna, decl):
    """explicit hyperparameters > dna() > declared defaults > None"""
    if explicit is not None:
        return explicit
    if len(dna) > 0:
        out = {}
        k = 0
        for h in decl:
            if k < len(dna):
                out[h["name"]] = decode(h, ord(dna[k]))
            k += 1
        return out
    if len(decl) > 0:
        out = {}
        for h in decl:
            out[h['name']] = h['default']
        return out
    return None
