"""Sidecar contract for C09 (isolated-margin liquidation). Pure Python, no imports.
liq / bankr are the values of the real Position.liquidation_price / bankruptcy_price properties."""

ORDERING = {
    'long': "bankr < liq and liq < entry",
    'short': "entry < liq and liq < bankr",
}
# closing the whole position at the bankruptcy price loses exactly the initial margin
LOSS = "pnl == -(abs(qty) * entry / L)"

# the liquidation order (fields of the dict handed to Order(...))
ORDER_FIELDS = {
    'type-is-market': "o['type'] == 'MARKET'",
    'reduce-only': "o['reduce_only'] == True",
    'closing-side': "(qty > 0 and o['side'] == 'sell') or (qty < 0 and o['side'] == 'buy')",
    'closes-whole-position': "o['qty'] == -qty",
    'fills-at-bankruptcy-price': "o['price'] == bankr",
    'same-symbol-exchange': "o['symbol'] == symbol and o['exchange'] == exchange",
}
MUSTFAIL = "liq == entry"

# the liquidation price is a function of the CURRENT average entry price (also after the entry was averaged)
LIQ_FORMULA = {
    'long': "liq == entry * (1 - 1 / L + 0.004)",
    'short': "liq == entry * (1 + 1 / L - 0.004)",
}
BANKR_FORMULA = {
    'long': "bankr == entry * (1 - 1 / L)",
    'short': "bankr == entry * (1 + 1 / L)",
}
