"""Sidecar contract for C02 (resting orders fill exactly when and where the price reaches them). Pure Python."""


def includes(c, p):
    """the price lies in the candle's range"""
    return c[4] <= p and p <= c[3]


MUSTFAIL = "r == (p >= c[4])"
