"""Sidecar contract for C08 (one continuous price path inside a minute).

Pure Python, no imports: the clause texts are compiled to SMT by pyvc (python3-vt) and evaluated
natively on the real objects by the replay driver (/venv/bin/python).  c = input candle
[ts, open, close, high, low, volume], p = split price, r = result, e/l = earlier/later part.
"""

SPLIT_FUNCTION = 'jesse.services.candle.split_candle'

# the statement: "splitting a candle at any price inside its range"
SPLIT_REQUIRES = [
    "c[4] <= c[1]", "c[4] <= c[2]", "c[1] <= c[3]", "c[2] <= c[3]",      # a valid candle
    "c[4] <= p", "p <= c[3]",                                             # price inside its range
]

SPLIT_ENSURES = {
    'valid-earlier': "e[4] <= e[1] and e[4] <= e[2] and e[1] <= e[3] and e[2] <= e[3]",
    'valid-later': "l[4] <= l[1] and l[4] <= l[2] and l[1] <= l[3] and l[2] <= l[3]",
    'keeps-open': "e[1] == c[1]",
    'keeps-close': "l[2] == c[2]",
    'keeps-high': "max(e[3], l[3]) == c[3]",
    'keeps-low': "min(e[4], l[4]) == c[4]",
    'meets-at-price': "p == c[1] or (e[2] == p and l[1] == p)",
    'copies-timestamp-volume': "e[0] == c[0] and l[0] == c[0] and e[5] == c[5] and l[5] == c[5]",
}

SPLIT_MUSTFAIL = "e[2] == c[2]"      # deliberately false: must be refuted on every run

SORT_FUNCTION = 'jesse.modes.backtest_mode._sort_execution_orders'

# candidates handed to the sort are the active orders whose price lies inside the candle
SORT_REQUIRES = ["c[4] <= c[1]", "c[4] <= c[2]", "c[1] <= c[3]", "c[2] <= c[3]"]
SORT_ORDER_REQUIRES = "c[4] <= q and q <= c[3]"


def path_time(c, q):
    """Moment at which the path O-L-H-C (rising/doji) resp. O-H-L-C (falling) first reaches price q,
    measured as distance travelled."""
    o = c[1]
    if c[1] > c[2]:                      # falling: open, high, low, close
        if q >= o:
            return q - o
        return (c[3] - o) + (c[3] - q)
    if q <= o:                           # rising: open, low, high, close
        return o - q
    return (o - c[4]) + (q - c[4])
