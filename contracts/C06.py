"""Sidecar contract for C06 (position events and the trade log). Pure Python, no imports."""


def effect(before, after):
    """what a fill did to the position, from the size before and after it"""
    if abs(before) == 0 and abs(after) > 0:
        return 'open'
    if abs(before) > 0 and abs(after) == 0:
        return 'close'
    if abs(after) > abs(before):
        return 'increase'
    return 'reduce'


HOOK = {'open': '_on_open_position', 'close': '_on_close_position', 'increase': '_on_increased_position',
        'reduce': '_on_reduced_position'}


def col_sum(t, c):
    rows = t[:]
    return rows[:, c].sum()


def notional(t):
    rows = t[:]
    return (rows[:, 0] * rows[:, 1]).sum()


def entry_table(trade):
    return trade.buy_orders if trade.type == 'long' else trade.sell_orders


def exit_table(trade):
    return trade.sell_orders if trade.type == 'long' else trade.buy_orders


def sign(trade_type):
    return 1 if trade_type == 'long' else -1


# ledger invariant of an open cycle (futures): wallet change since the cycle started
#   = - fees on all fills + proceeds of the exit fills - cost of the entry fills + cost basis of what is still held
def ledger(W, W0, fee, C, X, Q, E, s):
    return W - W0 == -fee * (C + X) + s * (X - C) + abs(Q) * E * s


def size_consistent(Q, entry_qty, exit_qty, s):
    return Q == s * (entry_qty - exit_qty)


# recorded findings: the cases excluded from the ledger obligation
def oversize_reduce_only(Q, q, ro):
    return ro and Q * q < 0 and abs(q) > abs(Q)


def flip(Q, q, ro):
    return (not ro) and Q * q < 0 and abs(q) > abs(Q)
