"""Sidecar contract for C10 (smart order routing, declarative exits). Pure Python, no imports."""

THRESHOLD = 0.00015          # 0.015 percent


def near(p, cur):
    return abs(1 - p / cur) <= THRESHOLD


def entry_kind(side, p, cur):
    """order type for an entry of `side` at price p when the current price is cur"""
    if near(p, cur):
        return 'MARKET'
    if side == 'buy':
        return 'STOP' if p > cur else 'LIMIT'          # worse price: stop, better price: limit
    return 'STOP' if p < cur else 'LIMIT'


def exit_kind(position_type, p, cur):
    """order type for an exit at price p of a position of the given type"""
    if near(p, cur):
        return 'MARKET'
    if position_type == 'long':
        return 'LIMIT' if p > cur else 'STOP'          # profit side: limit, loss side: stop
    return 'LIMIT' if p < cur else 'STOP'


def closing_side(position_type):
    return 'sell' if position_type == 'long' else 'buy'


MUSTFAIL = "kind == 'LIMIT'"
