"""Sidecar contract for C04: spot balances refine a cash account. Pure Python, no imports.

view = (quote, base, stop_sum, limit_sum): free quote balance, base held, base committed to resting
STOP sells, base committed to resting LIMIT sells.  q = |order qty| > 0, p = order price > 0, f = fee rate."""


class InsufficientBalance(Exception):
    pass


def view(ex, symbol, base_asset):
    return (ex.assets[ex.settlement_currency], ex.assets[base_asset], ex.stop_orders_sum.get(symbol, 0),
            ex.limit_orders_sum.get(symbol, 0))


def wf(v):
    """cash-account invariant: no balance is negative"""
    return v[0] >= 0 and v[1] >= 0 and v[2] >= 0 and v[3] >= 0


def m_submit(v, side, kind, q, p):
    quote, base, stop_sum, limit_sum = v
    if side == 'buy':
        if q * p > quote:
            raise InsufficientBalance()
        return (quote - q * p, base, stop_sum, limit_sum)          # reserve qty x price
    if kind == 'MARKET':
        if q + limit_sum > base:
            raise InsufficientBalance()
        return (quote, base, stop_sum, limit_sum)
    if kind == 'STOP':
        if stop_sum + q > base:
            raise InsufficientBalance()
        return (quote, base, stop_sum + q, limit_sum)
    if limit_sum + q > base:
        raise InsufficientBalance()
    return (quote, base, stop_sum, limit_sum + q)


def m_cancel(v, side, kind, q, p):
    quote, base, stop_sum, limit_sum = v
    if side == 'buy':
        return (quote + q * p, base, stop_sum, limit_sum)          # release exactly what was reserved
    if kind == 'STOP':
        return (quote, base, stop_sum - q, limit_sum)
    if kind == 'LIMIT':
        return (quote, base, stop_sum, limit_sum - q)
    return (quote, base, stop_sum, limit_sum)


def m_execute(v, side, kind, q, p, f):
    quote, base, stop_sum, limit_sum = v
    if side == 'buy':
        return (quote, base + q * (1 - f), stop_sum, limit_sum)
    if kind == 'STOP':
        stop_sum = stop_sum - q
    if kind == 'LIMIT':
        limit_sum = limit_sum - q
    x = min(q, base)                                                # never sells more than is held
    return (quote + x * p * (1 - f), base - x, stop_sum, limit_sum)


# known finding C04-spot-oversell-goes-short: the excluded case (a sell executes for more than the base held)
def oversell(v, side, q):
    return side == 'sell' and q > v[1]
