"""Sidecar contract for C07 (every timeframe is the exact aggregation of the one-minute candles). Pure Python."""

MINUTES = {'1m': 1, '3m': 3, '5m': 5, '15m': 15, '30m': 30, '45m': 45, '1h': 60, '2h': 120, '3h': 180, '4h': 240, '6h': 360,
           '8h': 480, '12h': 720, '1D': 1440, '3D': 4320, '1W': 10080, '1M': 43200}


def agg(w):
    """aggregation of the 1m candles w of one window: [start timestamp, first open, last close, max high, min low, volume sum]"""
    return [w[0][0], w[0][1], w[len(w) - 1][2], w[:, 3].max(), w[:, 4].min(), w[:, 5].sum()]


def same_candle(a, b):
    return a[0] == b[0] and a[1] == b[1] and a[2] == b[2] and a[3] == b[3] and a[4] == b[4] and a[5] == b[5]


# documented normalisation of a gapping open (c = stored candle, r = raw candle, pc = previous close)
FIXED_JUMP = {
    'open-is-previous-close-when-gapping': "r[1] == pc or c[1] == pc",
    'no-gap-no-change': "r[1] != pc or same_candle(c, r)",
    'range-extended-to-previous-close': "c[4] <= pc and pc <= c[3] or r[1] == pc",
    'only-the-matching-bound-moves': "c[3] >= r[3] and c[4] <= r[4] and (c[3] == r[3] or c[3] == pc) and (c[4] == r[4] or c[4] == pc)",
    'close-volume-timestamp-untouched': "c[0] == r[0] and c[2] == r[2] and c[5] == r[5]",
}
MUSTFAIL = "c[1] == r[1]"
