"""Sidecar contract for C20 (gapless, ordered candle series). Pure Python, no imports."""

FILL = 'jesse.modes.import_candles_mode._fill_absent_candles'


def present(temp_candles, t):
    """a candle with timestamp t was provided"""
    return exists(lambda i: temp_candles[i]['timestamp'] == t, 0, len(temp_candles))


def provided(temp_candles, c):
    """c is (field-wise) one of the provided candles"""
    return exists(lambda i: temp_candles[i]['timestamp'] == c['timestamp'] and temp_candles[i]['open'] == c['open']
                  and temp_candles[i]['close'] == c['close'] and temp_candles[i]['high'] == c['high']
                  and temp_candles[i]['low'] == c['low'] and temp_candles[i]['volume'] == c['volume'], 0, len(temp_candles))


def flat_at(c, price):
    return c['open'] == price and c['high'] == price and c['low'] == price and c['close'] == price and c['volume'] == 0


def minute(start0, j):
    return start0 + 60000 * j


# loop invariant of the filling loop; `_` counts the minutes done, F is the ghost "first provided minute"
# (F >= 0, no minute before F is provided, minute F is provided if F lies inside the interval)
FILL_INV = [
    "len(candles) == _",
    "start_timestamp == minute(start0, _)",
    "started == (F < _)",
    "forall(lambda j: candles[j]['timestamp'] == minute(start0, j), 0, _)",
    "forall(lambda j: not present(temp_candles, minute(start0, j)) or provided(temp_candles, candles[j]), 0, _)",
    "forall(lambda j: present(temp_candles, minute(start0, j)) or (j < F and flat_at(candles[j], temp_candles[0]['open']))"
    " or (j > F and flat_at(candles[j], candles[j - 1]['close'])), 0, _)",
]

FILL_ENSURES = {
    'one-candle-per-minute': "len(r) == n_minutes",
    'timestamps-are-the-minutes-in-order': "forall(lambda j: r[j]['timestamp'] == minute(start0, j), 0, n_minutes)",
    'provided-candles-kept': "forall(lambda j: not present(temp_candles, minute(start0, j)) or provided(temp_candles, r[j]), 0, n_minutes)",
    'missing-minutes-flat-at-previous-close-or-first-open':
        "forall(lambda j: present(temp_candles, minute(start0, j)) or (j < F and flat_at(r[j], temp_candles[0]['open']))"
        " or (j > F and flat_at(r[j], r[j - 1]['close'])), 0, n_minutes)",
}
MUSTFAIL = "len(r) == n_minutes + 1"


# ---- candle store ---------------------------------------------------------------------------
def ts_view(arr):
    """timestamps of the stored rows"""
    return [row[0] for row in arr[:]]


def strictly_increasing(rows, n):
    """timestamps strictly increasing (stated pairwise, i.e. transitively closed)"""
    return forall(lambda a: forall(lambda b: rows[a][0] < rows[b][0], a + 1, n), 0, n)


def row_from_end(arr, j):
    """arr[-j] of the store's array (Python: arr[-0] is arr[0])"""
    return arr.array[0] if j == 0 else arr.array[arr.index + 1 - j]


# search loop of add_candle for an older candle: no row visited so far has the candle's timestamp
ADD_INV = [
    "forall(lambda j: row_from_end(arr, j)[0] != candle[0], 1, i)",
]
