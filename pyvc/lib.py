"""libspec: axiomatic models of builtins / stdlib / numpy used by the functions under contract
(trusted base, DESIGN.md 3.3).  Every model that a run touches is recorded in `USED`."""
import ast
import math
from fractions import Fraction
import z3
from .values import (Sym, NAN, Vec, Arr, Obj, Opaque, OutOfSubset, is_sym, z3num, z3real, z3bool, mk_bool, mk_num,
                     kind_of, is_conc_num, nan_of, str_code, PvObject)
from .engine import PathEnd, NotPure, RaiseSignal
from . import ops

USED = set()


def used(name):
    USED.add(name)


# ---------------------------------------------------------------------------- helpers
class EnumVal:
    def __init__(self, seq, start=0):
        self.seq = seq
        self.start = start


class ZipVal:
    def __init__(self, seqs):
        self.seqs = seqs


def symbolic_iter(v):
    """(n, elem(k)) when v is a sequence whose length may be symbolic, else None."""
    from .interp import RangeVal
    if isinstance(v, Arr):
        return v.n, v.fn
    if isinstance(v, RangeVal) and v.step == 1:
        if isinstance(v.lo, int) and isinstance(v.hi, int):
            return None
        n = ops.vmax(ops.arith('-', v.hi, v.lo), 0)
        return n, (lambda k, lo=v.lo: ops.arith('+', lo, k))
    return None


def enum_items(interp, ev):
    return [(ev.start + i, x) for i, x in enumerate(interp.iterate(ev.seq))]


def snapshot(v):
    if isinstance(v, Arr):
        return Arr(v.n, v.fn, np=v.np, cols=v.cols, tag=v.tag)
    if isinstance(v, Vec):
        return Vec(list(v.e))
    if isinstance(v, list):
        return list(v)
    if isinstance(v, dict):
        return dict(v)
    return v


def norm_index(i, n):
    """Python index normalisation (negative counts from the end)."""
    if isinstance(i, int) and not isinstance(i, bool):
        if i >= 0:
            return i
        return ops.arith('+', n, i)
    if isinstance(i, bool):
        return int(i)
    if isinstance(i, Sym) and i.k == 'int':
        return ops.ite(i.t < 0, ops.arith('+', n, i), i)
    if isinstance(i, Fraction) or (isinstance(i, Sym) and i.k == 'real'):
        raise RaiseSignal('IndexError', 'float index')
    raise OutOfSubset(f'index of kind {kind_of(i)}')


def slice_bounds(s, n):
    """(start, stop) of a step-1 slice applied to a sequence of length n (Python's slice.indices)."""
    if s.step is not None and not (isinstance(s.step, int) and s.step == 1):
        raise OutOfSubset('slice with a step')

    def clampv(x, default):
        if x is None:
            return default
        if isinstance(x, Fraction) or (isinstance(x, Sym) and x.k != 'int'):
            raise RaiseSignal('TypeError', 'slice indices must be integers')
        if isinstance(x, int) and isinstance(n, int):
            if x < 0:
                return max(x + n, 0)
            return min(x, n)
        neg = ops.compare('<', x, 0)
        a = ops.vmax(ops.arith('+', x, n), 0)
        b = ops.vmin(x, n)
        if isinstance(neg, bool):
            return a if neg else b
        return ops.ite(neg.t, a, b)
    start = clampv(s.start, 0)
    stop = clampv(s.stop, n)
    return start, stop


def slice_len(start, stop):
    return ops.vmax(ops.arith('-', stop, start), 0)


def as_arr(v, np=True):
    if isinstance(v, Arr):
        return v
    if isinstance(v, Vec):
        return Arr(len(v.e), (lambda k, e=list(v.e): ops.pick(e, k)), np=True)
    if isinstance(v, (list, tuple)):
        return Arr(len(v), (lambda k, e=list(v): ops.pick(e, k)), np=np)
    raise OutOfSubset(f'array expected, got {kind_of(v)}')


def in_range(k, lo, hi):
    return ops.land(ops.compare('<=', lo, k), ops.compare('<', k, hi))


# ---------------------------------------------------------------------------- indexing
def getitem(interp, v, idx, numba=False, node=None):
    from .interp import SliceVal, RangeVal
    ctx = interp.ctx
    if isinstance(v, PvObject):
        return v.pv_getitem(interp, idx)
    if isinstance(v, dict):
        if isinstance(idx, Sym):
            return dict_lookup(interp, v, idx)
        try:
            if idx in v:
                return v[idx]
        except TypeError:
            raise OutOfSubset('unhashable dict key')
        raise RaiseSignal('KeyError', repr(idx))
    if isinstance(v, (list, tuple, str)):
        if isinstance(idx, SliceVal):
            if all(x is None or isinstance(x, int) for x in (idx.start, idx.stop, idx.step)):
                return v[slice(idx.start, idx.stop, idx.step)]
            if isinstance(v, str):
                raise OutOfSubset('symbolic slice of str')
            return getitem(interp, as_arr(list(v), np=False), idx, numba, node)
        if isinstance(idx, int):
            try:
                return v[idx]
            except IndexError:
                raise RaiseSignal('IndexError', 'list index out of range')
        if isinstance(idx, Sym) and idx.k == 'int':
            if isinstance(v, str):
                raise OutOfSubset('symbolic index into str')
            n = len(v)
            i = norm_index(idx, n)
            if not ctx.branch(in_range(i, 0, n)):
                raise RaiseSignal('IndexError', 'list index out of range')
            if n == 0:
                raise PathEnd()
            return ops.pick(list(v), i)
        raise OutOfSubset(f'list index {kind_of(idx)}')
    if isinstance(v, Vec):
        if isinstance(idx, SliceVal):
            if all(x is None or isinstance(x, int) for x in (idx.start, idx.stop, idx.step)):
                return Vec(v.e[slice(idx.start, idx.stop, idx.step)], view=True)
            return getitem(interp, as_arr(v), idx, numba, node)
        if isinstance(idx, int):
            try:
                return v.e[idx]
            except IndexError:
                raise RaiseSignal('IndexError', 'index out of bounds')
        if isinstance(idx, Sym) and idx.k == 'int':
            n = len(v.e)
            i = norm_index(idx, n)
            if not ctx.branch(in_range(i, 0, n)):
                raise RaiseSignal('IndexError', 'index out of bounds')
            return ops.pick(v.e, i)
        if isinstance(idx, tuple) and len(idx) == 1:
            return getitem(interp, v, idx[0], numba, node)
        if isinstance(idx, Vec) and all(isinstance(x, int) and not isinstance(x, bool) for x in idx.e):
            try:
                return Vec([v.e[x] for x in idx.e])
            except IndexError:
                raise RaiseSignal('IndexError', 'index out of bounds')
        if isinstance(idx, tuple) and len(idx) == 2 and idx[0] is None and isinstance(idx[1], SliceVal) \
                and idx[1].start is None and idx[1].stop is None and idx[1].step is None:
            return Arr(1, (lambda k, v=v: Vec(list(v.e), view=True)), np=True, cols=len(v.e), view=True)   # v[None, :]
        raise OutOfSubset(f'Vec index {kind_of(idx)}')
    if isinstance(v, Arr):
        return arr_getitem(interp, v, idx, numba, node)
    if isinstance(v, Obj) and v.cls is not None:
        c, m = interp.find_member(v.cls, '__getitem__')
        if m is not None:
            return interp.call_repo(m, [v, idx], {}, self_obj=v)
    if isinstance(v, RangeVal):
        raise OutOfSubset('range indexing')
    raise OutOfSubset(f'subscript of {kind_of(v)}')


def _subs_id(interp, node):
    return f'L{getattr(node, "lineno", 0)}c{getattr(node, "col_offset", 0)}' if node is not None else '?'


def check_index(interp, v, raw, numba, node):
    """Normalised index after the bounds check (IndexError path, or obligation in numba mode)."""
    ctx = interp.ctx
    n = v.n
    if numba:
        # A-4: numba does no bounds checking and wraps negative indices; both are obligations
        qual = interp_cur_qual(interp)
        if ctx.cfg.extra.get('numba_split'):
            # two separate obligations: a negative index wraps to the END of the array (a read of later elements: causality),
            # an index >= len is out of bounds (undefined behaviour, not a causality matter)
            ctx.prove(ops.compare('>=', raw, 0), f'{qual}.subscript.never-negative', {'at': _subs_id(interp, node)})
            ctx.prove(ops.compare('<', raw, n), f'{qual}.subscript.below-length', {'at': _subs_id(interp, node)})
            return raw
        ok = in_range(raw, 0, n)
        ctx.prove(ok, f'{qual}.subscript.in-bounds', {'at': _subs_id(interp, node)})
        return raw
    if ctx.pure:
        # contract clauses are total: an index outside the array denotes an unspecified element (the quantifier's
        # range guard is in scope while its body is evaluated, so the sign of the index is usually decided here,
        # which keeps the select terms free of if-then-else and the quantifier triggers usable)
        if isinstance(raw, Sym) and raw.k == 'int':
            if not ctx.feasible(raw.t < 0):
                return raw
            if not ctx.feasible(raw.t >= 0):
                return ops.arith('+', n, raw)
        return norm_index(raw, n)
    i = norm_index(raw, n)
    if not ctx.branch(in_range(i, 0, n)):
        raise RaiseSignal('IndexError', 'index out of bounds')
    return i


def interp_cur_qual(interp):
    return getattr(interp, 'cur_qual', None) or 'fn'


def arr_getitem(interp, v, idx, numba, node):
    from .interp import SliceVal
    if isinstance(idx, SliceVal):
        start, stop = slice_bounds(idx, v.n)
        ln = slice_len(start, stop)
        if v.np:
            return Arr(ln, (lambda k, v=v, start=start: v.fn(ops.arith('+', k, start))), np=True, cols=v.cols,
                       view=True, vbase=v, voff=start)
        return Arr(ln, (lambda k, fn=v.fn, start=start: fn(ops.arith('+', k, start))), np=v.np, cols=v.cols,
                   view=v.np, prov=('slice', v.snap(), start))
    if isinstance(idx, tuple):
        if v.cols is None:
            raise RaiseSignal('IndexError', 'too many indices')
        if len(idx) != 2:
            raise OutOfSubset('nd index')
        r, c = idx
        if isinstance(c, int):
            if not (-v.cols <= c < v.cols):
                raise RaiseSignal('IndexError', 'column out of range')
            c = c % v.cols
            if isinstance(r, SliceVal):
                start, stop = slice_bounds(r, v.n)
                ln = slice_len(start, stop)
                base = Arr(ln, (lambda k, v=v, start=start: v.fn(ops.arith('+', k, start))), np=True, cols=v.cols,
                           view=True, vbase=v, voff=start)
                if NPVEC[0] is not None and isinstance(ln, int) and isinstance(start, int) and ln <= 4096:
                    return Vec([v.fn(start + kk).e[c] for kk in range(ln)])
                return Arr(ln, (lambda k, fn=v.fn, start=start, c=c: fn(ops.arith('+', k, start)).e[c]), np=True,
                           view=True, prov=('rowmap', (lambda row, c=c: row.e[c]), base))
            i = check_index(interp, v, r, numba, node)
            return v.fn(i).e[c]
        if isinstance(c, SliceVal) and c.start is None and c.stop is None and c.step is None:
            return arr_getitem(interp, v, r, numba, node)
        raise OutOfSubset('2-D index form')
    if isinstance(idx, (int, Sym)) and not isinstance(idx, bool):
        i = check_index(interp, v, idx, numba, node)
        x = v.fn(i)
        if isinstance(x, Vec):
            x = Vec(x.e, view=True, base=(v, i) if v.np else None)
        return x
    if isinstance(idx, Arr):
        raise OutOfSubset('fancy / mask indexing')
    raise OutOfSubset(f'array index {kind_of(idx)}')


def dict_lookup(interp, d, key):
    ctx = interp.ctx
    keys = list(d.keys())
    present = False
    for k in keys:
        present = ops.lor(present, ops.equal(key, k))
    if not ctx.branch(present):
        raise RaiseSignal('KeyError', 'symbolic key')
    r = None
    for k in reversed(keys):
        if r is None:
            r = d[k]
        else:
            e = ops.equal(key, k)
            r = d[k] if e is True else (r if e is False else ops.ite(e.t, d[k], r))
    return r


def setitem(interp, v, idx, val, numba=False, node=None):
    from .interp import SliceVal
    ctx = interp.ctx
    if ctx.pure and not (getattr(ctx, 'merge', 0) and isinstance(v, Vec) and isinstance(idx, int)):
        raise NotPure()
    if isinstance(v, dict):
        if isinstance(idx, Sym):
            raise OutOfSubset('dict store with a symbolic key')
        v[idx] = val
        return
    if isinstance(v, list):
        if isinstance(idx, int):
            try:
                v[idx] = val
            except IndexError:
                raise RaiseSignal('IndexError', 'list assignment index out of range')
            return
        if isinstance(idx, SliceVal) and all(x is None or isinstance(x, int) for x in (idx.start, idx.stop, idx.step)):
            v[slice(idx.start, idx.stop, idx.step)] = interp.iterate(val)
            return
        if isinstance(idx, Sym):
            n = len(v)
            i = norm_index(idx, n)
            if not ctx.branch(in_range(i, 0, n)):
                raise RaiseSignal('IndexError', 'list assignment index out of range')
            for j in range(n):
                v[j] = ops.ite(z3num(i) == j, val, v[j])
            return
        raise OutOfSubset('list store')
    if isinstance(v, Vec):
        if v.view and v.base is not None and isinstance(idx, int):
            # row view of a 2-D array: write through
            arr, r = v.base
            try:
                v.e[idx] = val
            except IndexError:
                raise RaiseSignal('IndexError', 'index out of bounds')
            arr_setitem(interp, _root(arr), (_root_index(arr, r), idx % len(v.e)), val, numba, node)
            return
        if v.view:
            raise OutOfSubset('store through a numpy view (row or slice of another array)')
        if isinstance(idx, int):
            try:
                v.e[idx] = val
            except IndexError:
                raise RaiseSignal('IndexError', 'index out of bounds')
            return
        if isinstance(idx, SliceVal) and all(x is None or isinstance(x, int) for x in (idx.start, idx.stop, idx.step)):
            rng = range(*slice(idx.start, idx.stop, idx.step).indices(len(v.e)))
            if isinstance(val, (Vec, list, tuple)):
                src = val.e if isinstance(val, Vec) else list(val)
                if len(src) != len(rng):
                    raise RaiseSignal('ValueError', 'could not broadcast')
                for j, x in zip(rng, src):
                    v.e[j] = x
            else:
                for j in rng:
                    v.e[j] = val
            return
        if isinstance(idx, Sym):
            n = len(v.e)
            i = norm_index(idx, n)
            if not ctx.branch(in_range(i, 0, n)):
                raise RaiseSignal('IndexError', 'index out of bounds')
            for j in range(n):
                v.e[j] = ops.ite(z3num(i) == j, val, v.e[j])
            return
        raise OutOfSubset('Vec store')
    if isinstance(v, Arr):
        if v.view:
            if v.vbase is not None and isinstance(idx, (int, Sym)) and not isinstance(idx, bool):
                i = check_index(interp, v, idx, numba, node)
                return arr_setitem(interp, _root(v), _root_index(v, i), val, numba, node)
            if (v.vbase is not None and isinstance(idx, tuple) and len(idx) == 2 and isinstance(idx[0], SliceVal)
                    and idx[0].step in (None, 1) and isinstance(idx[1], int)):
                # column store over a row range of the view: write through to the root array
                start, stop = slice_bounds(idx[0], v.n)
                rs = SliceVal(_root_index(v, start), _root_index(v, stop), None)
                return arr_setitem(interp, _root(v), (rs, idx[1]), val, numba, node)
            raise OutOfSubset('store through a numpy view (slice of another array)')
        return arr_setitem(interp, v, idx, val, numba, node)
    if isinstance(v, Obj) and v.cls is not None:
        c, m = interp.find_member(v.cls, '__setitem__')
        if m is not None:
            interp.call_repo(m, [v, idx, val], {}, self_obj=v)
            return
    raise OutOfSubset(f'subscript store on {kind_of(v)}')


def _root(a):
    while getattr(a, 'vbase', None) is not None:
        a = a.vbase
    return a


def _live_root(a):
    """the mutable array whose current content `a` reads when evaluated (views and column slices of views)"""
    while True:
        if getattr(a, 'vbase', None) is not None:
            a = a.vbase
        elif getattr(a, 'view', False) and a.prov and a.prov[0] == 'rowmap' and isinstance(a.prov[2], Arr) and a.prov[2] is not a:
            a = a.prov[2]
        else:
            return a


def _root_index(a, i):
    while getattr(a, 'vbase', None) is not None:
        i = ops.arith('+', i, a.voff)
        a = a.vbase
    return i


def _frozen_source(v, val):
    """numpy copies the right-hand side at assignment time: a source that is a live view of the array being stored into
    must keep reading the array as it was before the store"""
    if not isinstance(val, Arr) or _live_root(val) is not v or val is v:
        return val
    before = v.fn
    sf = val.fn

    def fn(k):
        cur = v.fn
        v.fn = before
        try:
            return sf(k)
        finally:
            v.fn = cur
    return Arr(val.n, fn, np=val.np, cols=val.cols)


def arr_setitem(interp, v, idx, val, numba, node):
    from .interp import SliceVal
    ctx = interp.ctx
    val = _frozen_source(v, val)
    old = v.fn
    prov0 = v.prov
    v.prov = None       # re-established below for the single-row store
    if isinstance(idx, SliceVal):
        start, stop = slice_bounds(idx, v.n)
        ln = slice_len(start, stop)
        if isinstance(val, (Arr, Vec, list, tuple)) and not (v.cols is not None and isinstance(val, Vec) and len(val.e) == v.cols):
            src = as_arr(val)
            same = ops.equal(src.n, ln)
            if v.np:
                # numpy: shapes must match (a length-1 source broadcasts)
                one = ops.equal(src.n, 1)
                if not ctx.branch(ops.lor(same, one)):
                    raise RaiseSignal('ValueError', 'could not broadcast input array')
                def pickv(k, sf=src.fn, start=start, one=one):
                    if one is True:
                        return sf(0)
                    if one is False:
                        return sf(ops.arith('-', k, start))
                    return ops.ite(one.t, sf(0), sf(ops.arith('-', k, start)))
                v.fn = lambda k, old=old, start=start, stop=stop, pickv=pickv: _sel(in_range(k, start, stop),
                                                                                    lambda: pickv(k), old(k))
                return
            # Python list slice assignment may change the length
            tail_shift = ops.arith('-', src.n, ln)
            newn = ops.arith('+', v.n, tail_shift)
            end_src = ops.arith('+', start, src.n)

            def fn(k, old=old, start=start, sf=src.fn, end_src=end_src, tail_shift=tail_shift):
                return _sel(ops.compare('<', k, start), old(k),
                            lambda: _sel(ops.compare('<', k, end_src), lambda: sf(ops.arith('-', k, start)),
                                         lambda: old(ops.arith('-', k, tail_shift))))
            v.fn = fn
            v.n = newn
            return
        v.fn = lambda k, old=old, start=start, stop=stop, val=val: _sel(in_range(k, start, stop), val, old(k))
        return
    if isinstance(idx, tuple) and v.cols is not None and len(idx) == 2 and isinstance(idx[1], int):
        r, c = idx
        c = c % v.cols
        if isinstance(r, SliceVal):
            start, stop = slice_bounds(r, v.n)
            if isinstance(val, (Arr, Vec, list, tuple)):
                src = as_arr(val)
                if not ctx.branch(ops.equal(src.n, slice_len(start, stop))):
                    raise RaiseSignal('ValueError', 'could not broadcast input array')

                def fn(k, old=old, start=start, stop=stop, sf=src.fn, c=c):
                    row = old(k)
                    x = _sel(in_range(k, start, stop), lambda: sf(ops.arith('-', k, start)), row.e[c])
                    return Vec(row.e[:c] + [x] + row.e[c + 1:])
            else:
                def fn(k, old=old, start=start, stop=stop, val=val, c=c):
                    row = old(k)
                    x = _sel(in_range(k, start, stop), val, row.e[c])
                    return Vec(row.e[:c] + [x] + row.e[c + 1:])
            v.fn = fn
            return
        i = check_index(interp, v, r, numba, node)

        def fn(k, old=old, i=i, val=val, c=c):
            row = old(k)
            x = _sel(ops.equal(k, i), val, row.e[c])
            return Vec(row.e[:c] + [x] + row.e[c + 1:])
        v.fn = fn
        return
    if isinstance(idx, (int, Sym)) and not isinstance(idx, bool):
        i = check_index(interp, v, idx, numba, node)
        if v.cols is not None:
            if isinstance(val, (list, tuple)):
                val = Vec(list(val))
            if isinstance(val, Vec):
                if len(val.e) != v.cols:
                    raise RaiseSignal('ValueError', 'could not broadcast row')
            elif isinstance(val, Arr):
                if not ctx.branch(ops.equal(val.n, v.cols)):
                    raise RaiseSignal('ValueError', 'could not broadcast row')
                val = Vec([val.fn(c) for c in range(v.cols)])
            else:
                val = Vec([val] * v.cols)
        elif isinstance(val, (Vec, Arr, list, tuple)) and v.np:
            if isinstance(val, Vec) and len(val.e) == 1:
                val = val.e[0]
            else:
                raise RaiseSignal('ValueError', 'setting an array element with a sequence')
        before = v.snap()
        before.prov = prov0
        v.fn = lambda k, old=old, i=i, val=val: _sel(ops.equal(k, i), val, old(k))
        v.prov = ('store', before, i, val)
        return
    raise OutOfSubset(f'array store index {kind_of(idx)}')


GUARDS = []      # conditions of the lazily evaluated selections being evaluated (used by read-recording inputs)


def _sel(c, a, b):
    """ite on a bool|Sym condition with lazily evaluated arms (callables)."""
    if isinstance(c, bool):
        x = a if c else b
        return x() if callable(x) else x
    if callable(a):
        GUARDS.append(c.t)
        try:
            a = a()
        finally:
            GUARDS.pop()
    if callable(b):
        GUARDS.append(z3.Not(c.t))
        try:
            b = b()
        finally:
            GUARDS.pop()
    return ops.ite(c.t, a, b)


# ---------------------------------------------------------------------------- elementwise
def frozen_fn(a):
    """element function of `a` as of now: a derived numpy array holds values, so a later store into the array `a` is a
    view of must not show through"""
    r = _live_root(a)
    if r is a:
        return a.fn          # closures over the current fn are snapshots already
    before, sf = r.fn, a.fn

    def fn(k):
        cur = r.fn
        r.fn = before
        try:
            return sf(k)
        finally:
            r.fn = cur
    return fn


def elementwise1(interp, f, a):
    if isinstance(a, Vec):
        return Vec([f(x) for x in a.e])
    if isinstance(a, Arr):
        if a.cols is not None:
            return Arr(a.n, (lambda k, fn=frozen_fn(a): Vec([f(x) for x in fn(k).e])), np=True, cols=a.cols)
        return Arr(a.n, (lambda k, fn=frozen_fn(a): f(fn(k))), np=True)
    return f(a)


def elementwise2(interp, f, a, b):
    ctx = interp.ctx
    if isinstance(a, (list, tuple)) and isinstance(b, (Vec, Arr)):
        a = Vec(list(a))
    if isinstance(b, (list, tuple)) and isinstance(a, (Vec, Arr)):
        b = Vec(list(b))
    if isinstance(a, Vec) and isinstance(b, Vec):
        if len(a.e) == len(b.e):
            return Vec([f(x, y) for x, y in zip(a.e, b.e)])
        if len(a.e) == 1:
            return Vec([f(a.e[0], y) for y in b.e])
        if len(b.e) == 1:
            return Vec([f(x, b.e[0]) for x in a.e])
        raise RaiseSignal('ValueError', 'operands could not be broadcast together')
    if isinstance(a, Vec) and not isinstance(b, Arr):
        return Vec([f(x, b) for x in a.e])
    if isinstance(b, Vec) and not isinstance(a, Arr):
        return Vec([f(a, y) for y in b.e])
    if isinstance(a, Arr) and isinstance(b, Arr):
        if a.cols != b.cols:
            raise OutOfSubset('broadcast between 1-D and 2-D arrays')
        same = ops.equal(a.n, b.n)
        if same is not True:
            if not ctx.branch(same):
                # numpy broadcasts length-1 operands; anything else raises
                if ctx.branch(ops.lor(ops.equal(a.n, 1), ops.equal(b.n, 1))):
                    raise OutOfSubset('length-1 broadcast between arrays')
                raise RaiseSignal('ValueError', 'operands could not be broadcast together')
        if a.cols is None:
            prov = None
            if a.prov and b.prov and a.prov[0] == 'rowmap' and b.prov[0] == 'rowmap' and same_base(a.prov[2], b.prov[2]):
                prov = ('rowmap', (lambda row, g1=a.prov[1], g2=b.prov[1]: f(g1(row), g2(row))), a.prov[2])
            return Arr(a.n, (lambda k, fa=frozen_fn(a), fb=frozen_fn(b): f(fa(k), fb(k))), np=True, prov=prov)
        return Arr(a.n, (lambda k, fa=frozen_fn(a), fb=frozen_fn(b): Vec([f(x, y) for x, y in zip(fa(k).e, fb(k).e)])), np=True,
                   cols=a.cols)
    if isinstance(a, Arr) and isinstance(b, Vec) or isinstance(b, Arr) and isinstance(a, Vec):
        arr, vec, flip = (a, b, False) if isinstance(a, Arr) else (b, a, True)
        if arr.cols is not None and len(vec.e) == arr.cols:
            g = (lambda x, y: f(y, x)) if flip else f
            return Arr(arr.n, (lambda k, fn=frozen_fn(arr): Vec([g(x, y) for x, y in zip(fn(k).e, vec.e)])), np=True,
                       cols=arr.cols)
        if len(vec.e) == 1:
            return elementwise2(interp, f, a if not flip else vec.e[0], b if flip else vec.e[0])
        return elementwise2(interp, f, as_arr(a), as_arr(b))
    if isinstance(a, Arr):
        if a.cols is not None:
            return Arr(a.n, (lambda k, fn=frozen_fn(a): Vec([f(x, b) for x in fn(k).e])), np=True, cols=a.cols)
        prov = ('rowmap', (lambda row, g=a.prov[1]: f(g(row), b)), a.prov[2]) if a.prov and a.prov[0] == 'rowmap' else None
        return Arr(a.n, (lambda k, fn=frozen_fn(a): f(fn(k), b)), np=True, prov=prov)
    if isinstance(b, Arr):
        if b.cols is not None:
            return Arr(b.n, (lambda k, fn=frozen_fn(b): Vec([f(a, y) for y in fn(k).e])), np=True, cols=b.cols)
        prov = ('rowmap', (lambda row, g=b.prov[1]: f(a, g(row))), b.prov[2]) if b.prov and b.prov[0] == 'rowmap' else None
        return Arr(b.n, (lambda k, fn=frozen_fn(b): f(a, fn(k))), np=True, prov=prov)
    return f(a, b)


def list_concat(interp, a, b):
    a = as_arr(a, np=False)
    b = as_arr(b, np=False)
    n = ops.arith('+', a.n, b.n)
    return Arr(n, (lambda k, fa=a.fn, fb=b.fn, na=a.n: _sel(ops.compare('<', k, na), lambda: fa(k),
                                                            lambda: fb(ops.arith('-', k, na)))), np=False)


def contains(interp, container, x):
    if isinstance(container, dict):
        if isinstance(x, Sym):
            r = False
            for k in container:
                r = ops.lor(r, ops.equal(x, k))
            return r
        return x in container
    if isinstance(container, (list, tuple, set, Vec)):
        items = container.e if isinstance(container, Vec) else list(container)
        r = False
        for it in items:
            r = ops.lor(r, ops.identical(x, it) if isinstance(x, (Obj,)) else ops.equal(x, it))
            if r is True:
                return True
        return r
    if isinstance(container, str) and isinstance(x, str):
        return x in container
    if isinstance(container, Arr):
        q = ops.fresh_qvar('m')
        body = ops.elem_equal(container.fn(Sym(q, 'int')), x)
        return Sym(z3.Exists([q], z3.And(q >= 0, q < z3num(container.n), z3bool(body))), 'bool')
    raise OutOfSubset(f'in {kind_of(container)}')


# ---------------------------------------------------------------------------- reductions
_CANON = z3.Int('K!canon')


def _reduction(interp, kind, a, lo=None, hi=None):
    """sum / max / min over a[lo:hi] of symbolic length: an uninterpreted result constrained by its
    defining property (max/min) and shared between syntactically equal operands (congruence)."""
    ctx = interp.ctx
    lo = 0 if lo is None else lo
    hi = a.n if hi is None else hi
    probe = a.fn(Sym(_CANON, 'int'))
    key = (kind, z3.simplify(z3real(probe)).sexpr(), str(nan_of(probe)), z3.simplify(z3num(lo) + 0).sexpr(),
           z3.simplify(z3num(hi) + 0).sexpr())
    cache = ctx.globals.setdefault('__reductions__', {})
    if key in cache:
        return cache[key]
    r = ctx.fresh_real(kind)
    if kind in ('max', 'min'):
        q = ops.fresh_qvar('r')
        e = a.fn(Sym(q, 'int'))
        rng = z3.And(q >= z3num(lo), q < z3num(hi))
        cmp_ = z3real(e) <= r.t if kind == 'max' else z3real(e) >= r.t
        ctx.s.add(z3.ForAll([q], z3.Implies(rng, cmp_)))
        w = ctx.fresh_int(kind + '.at')
        ctx.s.add(z3.And(w.t >= z3num(lo), w.t < z3num(hi), z3real(a.fn(w)) == r.t))
    cache[key] = r
    return r


def same_base(x, y):
    """two array snapshots denote the same array (same closure, same length, same offset chain)"""
    if x is y:
        return True
    if x.fn is y.fn and ops.equal(x.n, y.n) is True:
        return True
    if x.prov and y.prov and x.prov[0] == 'slice' and y.prov[0] == 'slice':
        return same_base(x.prov[1], y.prov[1]) and ops.equal(x.prov[2], y.prov[2]) is True and ops.equal(x.n, y.n) is True
    xb, yb = getattr(x, 'vbase', None), getattr(y, 'vbase', None)
    if xb is not None and yb is not None:
        return same_base(xb, yb) and ops.equal(x.voff, y.voff) is True and ops.equal(x.n, y.n) is True
    return False


def _prefix_uf(interp, A, g):
    """prefix-sum function P of the summand g(A[k]): P(hi) - P(lo) = sum over [lo, hi).  One uninterpreted function per
    syntactically distinct summand (congruence); step axioms are instantiated where a rewrite splits a range."""
    ctx = interp.ctx
    probe = g(A.fn(Sym(_CANON, 'int')))
    key = ('prefix', z3.simplify(z3real(probe)).sexpr())
    cache = ctx.globals.setdefault('__reductions__', {})
    if key not in cache:
        cache[key] = z3.Function(f'P!{len(cache)}', z3.IntSort(), z3.RealSort())
    return cache[key]


def _step_axiom(interp, A, g, j, depth=0):
    """instantiate P(j+1) = P(j) + g(A[j]) for the prefix-sum functions of the base arrays under A (the recurrence is
    consistent for every integer j, so instances are added unconditionally)"""
    if getattr(A, 'vbase', None) is not None:
        return _step_axiom(interp, A.vbase, g, ops.arith('+', j, A.voff), depth + 1)
    prov = A.prov
    if depth > 8:
        return
    if prov is None or prov[0] not in ('slice', 'rowmap', 'concat', 'delete', 'store', 'const'):
        P = _prefix_uf(interp, A, g)
        jt = z3num(j)
        interp.ctx.s.add(P(jt + 1) == P(jt) + z3real(g(A.fn(j))))
        return
    k = prov[0]
    if k == 'slice':
        _step_axiom(interp, prov[1], g, ops.arith('+', j, prov[2]), depth + 1)
    elif k == 'rowmap':
        _step_axiom(interp, prov[2], (lambda row, g=g, g2=prov[1]: g(g2(row))), j, depth + 1)
    elif k == 'concat':
        _step_axiom(interp, prov[1], g, j, depth + 1)
        _step_axiom(interp, prov[2], g, ops.arith('-', j, prov[1].n), depth + 1)
    elif k == 'delete':
        _step_axiom(interp, prov[1], g, j, depth + 1)
        _step_axiom(interp, prov[1], g, ops.arith('+', j, 1), depth + 1)
    elif k == 'store':
        _step_axiom(interp, prov[1], g, j, depth + 1)


def sum_range(interp, A, g, lo, hi):
    """sum of g(A[k]) for lo <= k < hi (hi >= lo is the caller's duty), rewritten along A's provenance; the axioms used are
    those of finite sums: empty range, split of a range, one-element range."""
    used('numpy.sum (finite-sum axioms: split, single element, congruence)')
    if getattr(A, 'vbase', None) is not None:
        return sum_range(interp, A.vbase, g, ops.arith('+', lo, A.voff), ops.arith('+', hi, A.voff))
    prov = A.prov
    mn, mx = ops.vmin, ops.vmax
    if isinstance(lo, int) and isinstance(hi, int) and hi - lo <= 32:
        r = Fraction(0) if True else 0
        for k in range(lo, hi):
            r = ops.arith('+', r, g(A.fn(k)))
        return r
    if prov is None:
        P = _prefix_uf(interp, A, g)
        return mk_num(P(z3num(hi)) - P(z3num(lo)))
    kind = prov[0]
    if kind == 'const':
        return ops.arith('*', g(prov[1]), ops.arith('-', hi, lo))
    if kind == 'slice':
        off = prov[2]
        return sum_range(interp, prov[1], g, ops.arith('+', lo, off), ops.arith('+', hi, off))
    if kind == 'rowmap':
        g2 = prov[1]
        return sum_range(interp, prov[2], (lambda row, g=g, g2=g2: g(g2(row))), lo, hi)
    if kind == 'concat':
        A1, A2 = prov[1], prov[2]
        na = A1.n
        s1 = sum_range(interp, A1, g, mn(lo, na), mn(hi, na))
        s2 = sum_range(interp, A2, g, mx(ops.arith('-', lo, na), 0), mx(ops.arith('-', hi, na), 0))
        return ops.arith('+', s1, s2)
    if kind == 'delete':
        A1, j = prov[1], prov[2]
        _step_axiom(interp, A1, g, j)
        s1 = sum_range(interp, A1, g, mn(lo, j), mn(hi, j))
        s2 = sum_range(interp, A1, g, ops.arith('+', mx(lo, j), 1), ops.arith('+', mx(hi, j), 1))
        if A1.prov is not None:
            # general identity: sum(delete(A, j))[lo,hi) = sum(A)[lo, hi+1) - g(A[j]) when lo <= j <= hi
            inside = ops.land(ops.compare('<=', lo, j), ops.compare('<=', j, hi))
            whole = sum_range(interp, A1, g, lo, ops.arith('+', hi, 1))
            alt = ops.arith('-', whole, g(A1.fn(j)))
            both = ops.arith('+', s1, s2)
            return both if inside is False else (alt if inside is True else ops.ite(inside.t, alt, both))
        return ops.arith('+', s1, s2)
    if kind == 'store':
        A1, i, val = prov[1], prov[2], prov[3]
        _step_axiom(interp, A1, g, i)
        base = sum_range(interp, A1, g, lo, hi)
        inside = ops.land(ops.compare('<=', lo, i), ops.compare('<', i, hi))
        delta = ops.arith('-', g(val), g(A1.fn(i)))
        if inside is True:
            return ops.arith('+', base, delta)
        if inside is False:
            return base
        return ops.arith('+', base, ops.ite(inside.t, delta, Fraction(0)))
    P = _prefix_uf(interp, A, g)
    return mk_num(P(z3num(hi)) - P(z3num(lo)))


def reduce_arr(interp, kind, a):
    used(f'numpy.{kind} (reduction)')
    if isinstance(a, Vec):
        if not a.e:
            if kind == 'sum':
                return Fraction(0)
            raise RaiseSignal('ValueError', 'zero-size array to reduction')
        r = a.e[0]
        for x in a.e[1:]:
            r = ops.arith('+', r, x) if kind == 'sum' else (ops.np_max2(r, x) if kind == 'max' else ops.np_min2(r, x))
        return r
    if isinstance(a, Arr):
        if a.cols is not None:
            raise OutOfSubset('reduction over a 2-D array')
        if isinstance(a.n, int):
            return reduce_arr(interp, kind, Vec([a.fn(k) for k in range(a.n)]))
        if kind == 'sum':
            return sum_range(interp, a, (lambda x: x), 0, a.n)
        empty = ops.equal(a.n, 0)
        if interp.ctx.branch(empty):
            raise RaiseSignal('ValueError', 'zero-size array to reduction')
        return _reduction(interp, kind, a)
    if isinstance(a, (list, tuple)):
        return reduce_arr(interp, kind, Vec(list(a)))
    raise OutOfSubset(f'{kind} of {kind_of(a)}')


# ---------------------------------------------------------------------------- methods of values
NPVEC = [None]


def method_of(interp, v, name):
    from .interp import Builtin, TypeRef
    if NPVEC[0] is not None and isinstance(v, (Vec, Arr)):
        r = NPVEC[0].vec_methods(interp, v, name)
        if r is not None:
            return r
    if isinstance(v, (Vec, Arr)) and (not isinstance(v, Arr) or v.np):
        if name == 'shape':
            if isinstance(v, Vec):
                return (len(v.e),)
            return (v.n,) if v.cols is None else (v.n, v.cols)
        if name == 'size':
            if isinstance(v, Vec):
                return len(v.e)
            return v.n if v.cols is None else ops.arith('*', v.n, v.cols)
        if name == 'ndim':
            return 1 if isinstance(v, Vec) or v.cols is None else 2
        if name in ('max', 'min', 'sum'):
            return Builtin(name, lambda i, a, k, v=v, name=name: reduce_arr(i, name, v))
        if name == 'copy':
            return Builtin('copy', lambda i, a, k, v=v: np_copy(v))
        if name == 'astype':
            return Builtin('astype', lambda i, a, k, v=v: np_astype(i, v, a[0]))
        if name == 'tolist':
            return Builtin('tolist', lambda i, a, k, v=v: list(v.e) if isinstance(v, Vec) else Arr(v.n, v.fn, np=False))
        if name == 'mean':
            return Builtin('mean', lambda i, a, k, v=v: i.binop('/', reduce_arr(i, 'sum', v),
                                                                len(v.e) if isinstance(v, Vec) else v.n))
        if name == 'T':
            raise OutOfSubset('transpose')
    if isinstance(v, Arr) and not v.np:
        if name == 'append':
            def app(i, a, k, v=v):
                if i.ctx.pure:
                    raise NotPure()
                old, n = v.fn, v.n
                x = a[0]
                v.fn = lambda kk, old=old, n=n, x=x: _sel(ops.equal(kk, n), x, lambda: old(kk))
                v.n = ops.arith('+', n, 1)
            return Builtin('list.append', app)
        if name == 'copy':
            return Builtin('copy', lambda i, a, k, v=v: Arr(v.n, v.fn, np=False))
    if isinstance(v, list):
        if name == 'append':
            def app(i, a, k, v=v):
                if i.ctx.pure:
                    raise NotPure()
                v.append(a[0])
            return Builtin('list.append', app)
        if name == 'extend':
            def ext(i, a, k, v=v):
                if i.ctx.pure:
                    raise NotPure()
                v.extend(i.iterate(a[0]))
            return Builtin('list.extend', ext)
        if name == 'copy':
            return Builtin('list.copy', lambda i, a, k, v=v: list(v))
        if name == 'clear':
            def clr(i, a, k, v=v):
                if i.ctx.pure:
                    raise NotPure()
                v.clear()
            return Builtin('list.clear', clr)
        if name == 'pop':
            def pop(i, a, k, v=v):
                if i.ctx.pure:
                    raise NotPure()
                try:
                    return v.pop(*a)
                except IndexError:
                    raise RaiseSignal('IndexError', 'pop from empty list')
            return Builtin('list.pop', pop)
        if name == 'insert':
            def ins(i, a, k, v=v):
                if i.ctx.pure:
                    raise NotPure()
                if not isinstance(a[0], int):
                    raise OutOfSubset('insert at symbolic index')
                v.insert(a[0], a[1])
            return Builtin('list.insert', ins)
        if name == 'remove':
            def rem(i, a, k, v=v):
                if i.ctx.pure:
                    raise NotPure()
                for j, x in enumerate(v):
                    e = ops.identical(x, a[0]) if isinstance(a[0], Obj) else ops.equal(x, a[0])
                    if i.ctx.branch(e):
                        del v[j]
                        return
                raise RaiseSignal('ValueError', 'list.remove(x): x not in list')
            return Builtin('list.remove', rem)
        if name == 'index':
            def idx(i, a, k, v=v):
                for j, x in enumerate(v):
                    e = ops.identical(x, a[0]) if isinstance(a[0], Obj) else ops.equal(x, a[0])
                    if i.ctx.branch(e):
                        return j
                raise RaiseSignal('ValueError', 'not in list')
            return Builtin('list.index', idx)
    if isinstance(v, NTuple) and name in v._fields:
        return v[v._fields.index(name)]
    if isinstance(v, tuple):
        if name == 'index':
            return method_of(interp, list(v), name)
    if isinstance(v, dict):
        if name == 'get':
            def get(i, a, k, v=v):
                key = a[0]
                d = a[1] if len(a) > 1 else k.get('default')
                if isinstance(key, Sym):
                    r = d
                    for kk in reversed(list(v.keys())):
                        e = ops.equal(key, kk)
                        r = v[kk] if e is True else (r if e is False else ops.ite(e.t, v[kk], r))
                    return r
                return v.get(key, d)
            return Builtin('dict.get', get)
        if name == 'items':
            return Builtin('dict.items', lambda i, a, k, v=v: [(x, y) for x, y in v.items()])
        if name == 'keys':
            return Builtin('dict.keys', lambda i, a, k, v=v: list(v.keys()))
        if name == 'values':
            return Builtin('dict.values', lambda i, a, k, v=v: list(v.values()))
        if name == 'copy':
            return Builtin('dict.copy', lambda i, a, k, v=v: dict(v))
        if name == 'pop':
            def dpop(i, a, k, v=v):
                if i.ctx.pure:
                    raise NotPure()
                if a[0] in v:
                    return v.pop(a[0])
                if len(a) > 1:
                    return a[1]
                raise RaiseSignal('KeyError', repr(a[0]))
            return Builtin('dict.pop', dpop)
        if name == 'update':
            def upd(i, a, k, v=v):
                if i.ctx.pure:
                    raise NotPure()
                v.update(a[0] if a else {})
                v.update(k)
            return Builtin('dict.update', upd)
        if name == 'setdefault':
            def sd(i, a, k, v=v):
                if a[0] not in v:
                    if i.ctx.pure:
                        raise NotPure()
                    v[a[0]] = a[1] if len(a) > 1 else None
                return v[a[0]]
            return Builtin('dict.setdefault', sd)
        if name == 'clear':
            def dclr(i, a, k, v=v):
                if i.ctx.pure:
                    raise NotPure()
                v.clear()
            return Builtin('dict.clear', dclr)
    if isinstance(v, str):
        if name in ('lower', 'upper', 'strip', 'split', 'startswith', 'endswith', 'replace', 'join', 'format',
                    'isdigit', 'count', 'find', 'rstrip', 'lstrip', 'title', 'capitalize'):
            def sm(i, a, k, v=v, name=name):
                if any(isinstance(x, (Sym, Opaque)) for x in a):
                    return Opaque('str.' + name)
                try:
                    return getattr(v, name)(*a, **k)
                except Exception:
                    return Opaque('str.' + name)
            return Builtin('str.' + name, sm)
    if isinstance(v, Opaque):
        return Builtin('opaque.' + name, lambda i, a, k: Opaque('opaque.' + name))
    if isinstance(v, set):
        if name == 'add':
            def sadd(i, a, k, v=v):
                if isinstance(a[0], Sym):
                    raise OutOfSubset('set.add symbolic')
                v.add(a[0])
            return Builtin('set.add', sadd)
    if isinstance(v, (int, Fraction)) and name == 'is_integer':
        return Builtin('is_integer', lambda i, a, k, v=v: Fraction(v).denominator == 1)
    raise OutOfSubset(f'attribute {name} of {kind_of(v)}')


def np_copy(v):
    if isinstance(v, Vec):
        return Vec(list(v.e))
    if isinstance(v, Arr):
        return Arr(v.n, v.fn, np=v.np, cols=v.cols)
    raise OutOfSubset('copy of ' + kind_of(v))


def np_astype(interp, v, t):
    from .interp import TypeRef
    if isinstance(t, TypeRef) and t.name in ('float', 'np.float64'):
        return np_copy(v)
    if isinstance(t, TypeRef) and t.name == 'bool':
        return elementwise1(interp, lambda x: ops.truthy(x), v)
    if isinstance(t, TypeRef) and t.name == 'int':
        return elementwise1(interp, ops.to_int, v)
    raise OutOfSubset('astype')


# ---------------------------------------------------------------------------- builtins
def _b_len(i, a, k):
    v = a[0]
    if isinstance(v, PvObject):
        return v.pv_len(i)
    if isinstance(v, (list, tuple, dict, str, set)):
        return len(v)
    if isinstance(v, Vec):
        return len(v.e)
    if isinstance(v, Arr):
        return v.n
    if isinstance(v, Obj) and v.cls is not None:
        c, m = i.find_member(v.cls, '__len__')
        if m is not None:
            return i.call_repo(m, [v], {}, self_obj=v)
    raise RaiseSignal('TypeError', f'object of type {kind_of(v)} has no len()')


def _b_range(i, a, k):
    from .interp import RangeVal
    if len(a) == 1:
        return RangeVal(0, a[0], 1)
    if len(a) == 2:
        return RangeVal(a[0], a[1], 1)
    return RangeVal(a[0], a[1], a[2])


def _b_abs(i, a, k):
    return elementwise1(i, ops.absval, a[0])


def _fold(i, a, k, f):
    if len(a) == 1:
        items = i.iterate(a[0])
    else:
        items = list(a)
    if not items:
        if 'default' in k:
            return k['default']
        raise RaiseSignal('ValueError', 'arg is an empty sequence')
    keyf = k.get('key')
    if keyf is not None:
        raise OutOfSubset('min/max with key')
    r = items[0]
    for x in items[1:]:
        if isinstance(r, tuple) or isinstance(x, tuple):
            raise OutOfSubset('min/max of tuples')
        r = f(r, x)
    return r


def _b_min(i, a, k):
    return _fold(i, a, k, ops.vmin)


def _b_max(i, a, k):
    return _fold(i, a, k, ops.vmax)


def _b_sum(i, a, k):
    v = a[0]
    if isinstance(v, Arr) and not isinstance(v.n, int):
        return reduce_arr(i, 'sum', Arr(v.n, v.fn, np=True))
    items = i.iterate(v)
    r = a[1] if len(a) > 1 else 0
    for x in items:
        r = i.binop('+', r, x)
    return r


def _b_round(i, a, k):
    nd = a[1] if len(a) > 1 else k.get('ndigits')
    if nd is None:
        return ops.round_half_even(a[0])
    if isinstance(nd, int) and is_conc_num(a[0]):
        return Fraction(round(Fraction(a[0]), nd))
    if isinstance(nd, int):
        # round(x, nd) = round_half_even(x * 10^nd) / 10^nd   (A-1: on reals)
        p = 10 ** nd if nd >= 0 else Fraction(1, 10 ** (-nd))
        return i.binop('/', ops.to_float(ops.round_half_even(ops.to_float(i.binop('*', a[0], p)))), p)
    raise OutOfSubset('round with symbolic digits')


def _b_int(i, a, k):
    if not a:
        return 0
    return ops.to_int(a[0])


def _b_float(i, a, k):
    if not a:
        return Fraction(0)
    i.ctx.trace.append(('float',))
    return ops.to_float(a[0])


def _b_bool(i, a, k):
    return ops.truthy(a[0]) if a else False


def _b_str(i, a, k):
    return _str_of_number(i, a, k)


def _b_isinstance(i, a, k):
    from .interp import TypeRef, SliceVal, RepoClass, ExtRef
    v, t = a
    ts = list(t) if isinstance(t, tuple) else [t]
    for t in ts:
        if isinstance(t, RepoClass):
            if isinstance(v, Obj) and v.cls is not None and t in i.mro(v.cls):
                return True
            continue
        name = t.name if isinstance(t, (TypeRef, ExtRef)) else None
        if name is None:
            raise OutOfSubset(f'isinstance against {t!r}')
        hooked = [r for r in (hk(v, name) for hk in ISINSTANCE_HOOKS) if r is not None]
        if hooked:
            if any(hooked):
                return True
            continue
        if name == 'slice' and isinstance(v, SliceVal):
            return True
        if name == 'int' and (isinstance(v, int) or isinstance(v, Sym) and v.k in ('int', 'bool')):
            return True
        if name == 'bool' and (isinstance(v, bool) or isinstance(v, Sym) and v.k == 'bool'):
            return True
        if name in ('float', 'numpy.float64', 'numpy.floating') and (isinstance(v, Fraction) or v is NAN or isinstance(v, Sym) and v.k == 'real'):
            return True
        if name == 'str' and (isinstance(v, str) or isinstance(v, Sym) and v.k == 'str'):
            return True
        if name == 'dict' and isinstance(v, dict):
            return True
        if name == 'list' and (isinstance(v, list) or isinstance(v, Arr) and not v.np):
            return True
        if name == 'tuple' and isinstance(v, tuple):
            return True
        if name == 'numpy.ndarray' and (isinstance(v, Vec) or isinstance(v, Arr) and v.np):
            return True
    return False


def _b_type(i, a, k):
    from .interp import TypeRef
    v = a[0]
    if isinstance(v, bool) or isinstance(v, Sym) and v.k == 'bool':
        return TypeRef('bool')
    if isinstance(v, int) or isinstance(v, Sym) and v.k == 'int':
        return TypeRef('int')
    if isinstance(v, Fraction) or v is NAN or isinstance(v, Sym) and v.k == 'real':
        return TypeRef('float')
    if isinstance(v, str) or isinstance(v, Sym) and v.k == 'str':
        return TypeRef('str')
    if isinstance(v, Vec) or isinstance(v, Arr) and v.np:
        return TypeRef('numpy.ndarray')
    if isinstance(v, list) or isinstance(v, Arr):
        return TypeRef('list')
    if isinstance(v, dict):
        return TypeRef('dict')
    if isinstance(v, tuple):
        return TypeRef('tuple')
    if v is None:
        return TypeRef('NoneType')
    if isinstance(v, Obj) and v.cls is not None:
        return v.cls
    raise OutOfSubset('type() of ' + kind_of(v))


def _b_enumerate(i, a, k):
    start = a[1] if len(a) > 1 else k.get('start', 0)
    if symbolic_iter(a[0]) is not None and not isinstance(symbolic_iter(a[0])[0], int):
        return EnumVal(a[0], start)
    return [(start + j, x) for j, x in enumerate(i.iterate(a[0]))]


def _b_zip(i, a, k):
    seqs = [i.iterate(x) for x in a]
    return [tuple(t) for t in zip(*seqs)]


def _b_list(i, a, k):
    if not a:
        return []
    v = a[0]
    if isinstance(v, Arr):
        if isinstance(v.n, int):
            return [v.fn(j) for j in range(v.n)]
        return Arr(v.n, v.fn, np=False)
    return list(i.iterate(v))


def _b_tuple(i, a, k):
    return tuple(i.iterate(a[0])) if a else ()


def _b_dict(i, a, k):
    d = {}
    if a:
        if isinstance(a[0], dict):
            d.update(a[0])
        else:
            for kk, vv in i.iterate(a[0]):
                d[kk] = vv
    d.update(k)
    return d


def _b_set(i, a, k):
    if not a:
        return set()
    items = i.iterate(a[0])
    if any(isinstance(x, Sym) for x in items):
        raise OutOfSubset('set of symbolic values')
    return set(items)


def _b_sorted(i, a, k):
    items = i.iterate(a[0])
    keyf = k.get('key')
    keys = [i.call(keyf, [x]) for x in items] if keyf is not None else items
    if all(is_conc_num(x) or isinstance(x, str) for x in keys):
        order = sorted(range(len(items)), key=lambda j: keys[j], reverse=bool(k.get('reverse', False)))
        return [items[j] for j in order]
    # symbolic keys: insertion sort with branching (stable), exact but exponential; small lists only
    used('sorted (stable, branching on symbolic keys)')
    rev = bool(k.get('reverse', False))
    out = []
    for j, x in enumerate(items):
        pos = len(out)
        for p in range(len(out)):
            kj, kp = keys[j], out[p][0]
            c = ops.compare('<', kj, kp) if not rev else ops.compare('>', kj, kp)
            if i.ctx.branch(c):
                pos = p
                break
        out.insert(pos, (keys[j], x))
    return [x for _, x in out]


class LazyFilter:
    """filter(f, seq): a lazy iterator - the underlying sequence is read when the iteration happens, not when filter() is called
    (a list emptied in between yields nothing)"""

    def __init__(self, f, seq):
        self.f, self.seq = f, seq

    def items(self, i):
        out = []
        for x in i.iterate(self.seq):
            keep = ops.truthy(i.call(self.f, [x])) if self.f is not None else ops.truthy(x)
            if i.ctx.branch(keep):
                out.append(x)
        return out


def _b_filter(i, a, k):
    f, seq = a
    return LazyFilter(f, seq)


def _b_reversed(i, a, k):
    return list(reversed(i.iterate(a[0])))


def _b_any(i, a, k):
    r = False
    v = a[0]
    if isinstance(v, Arr) and not isinstance(v.n, int):
        return np_any(i, [v], {})
    for x in i.iterate(v):
        r = ops.lor(r, ops.truthy(x))
    return r


def _b_all(i, a, k):
    r = True
    v = a[0]
    if isinstance(v, Arr) and not isinstance(v.n, int):
        return np_all(i, [v], {})
    for x in i.iterate(v):
        r = ops.land(r, ops.truthy(x))
    return r


def _b_ord(i, a, k):
    if isinstance(a[0], str):
        return ord(a[0])
    if isinstance(a[0], Sym) and a[0].k == 'int':
        return a[0]         # symbolic characters are represented by their code point
    raise OutOfSubset('ord')


def _b_hasattr(i, a, k):
    v, name = a
    if isinstance(v, Obj):
        if name in v.f:
            return True
        if v.cls is not None:
            c, m = i.find_member(v.cls, name)
            return m is not None
        return False
    raise OutOfSubset('hasattr on ' + kind_of(v))


def _b_getattr(i, a, k):
    try:
        return i.get_attr(a[0], a[1])
    except RaiseSignal as e:
        if e.exc == 'AttributeError' and len(a) > 2:
            return a[2]
        raise


def _b_setattr(i, a, k):
    i.set_attr(a[0], a[1], a[2])


def _b_forall(i, a, k):
    """forall(lambda j: body, lo, hi): contract-language quantifier over lo <= j < hi."""
    f, lo, hi = a
    if isinstance(lo, int) and isinstance(hi, int) and hi - lo <= 64:
        r = True
        for j in range(lo, hi):
            r = ops.land(r, ops.truthy(i.call(f, [j])))
        return r
    q = ops.fresh_qvar('j')
    rng = z3.And(q >= z3num(lo), q < z3num(hi))
    i.ctx.s.push()
    i.ctx.s.add(rng)
    try:
        body = ops.truthy(i.call(f, [Sym(q, 'int')]))
    finally:
        i.ctx.s.pop()
    return mk_bool(z3.ForAll([q], z3.Implies(rng, z3bool(body))))


def _b_exists(i, a, k):
    f, lo, hi = a
    q = ops.fresh_qvar('j')
    rng = z3.And(q >= z3num(lo), q < z3num(hi))
    i.ctx.s.push()
    i.ctx.s.add(rng)
    try:
        body = ops.truthy(i.call(f, [Sym(q, 'int')]))
    finally:
        i.ctx.s.pop()
    return mk_bool(z3.Exists([q], z3.And(rng, z3bool(body))))


def _b_implies(i, a, k):
    return ops.implies(ops.truthy(a[0]), ops.truthy(a[1]))


def _b_same(i, a, k):
    x, y = a
    if isinstance(x, (Vec, Arr, list, tuple)) or isinstance(y, (Vec, Arr, list, tuple)):
        if isinstance(x, Vec) and isinstance(y, Vec):
            return ops.elem_equal(x, y)
        xa, ya = as_arr(x, np=False), as_arr(y, np=False)
        return ops.seq_equal(Arr(xa.n, xa.fn, np=False), Arr(ya.n, ya.fn, np=False))
    return ops.same_value(x, y)


def _b_isnan(i, a, k):
    def f(x):
        n = nan_of(x)
        return False if n is None else mk_bool(n)
    return elementwise1(i, f, a[0])


def _b_print(i, a, k):
    return None


def _mk(name, fn):
    from .interp import Builtin
    return Builtin(name, fn)


_BUILTINS = None


def builtin(name):
    global _BUILTINS
    from .interp import Builtin, TypeRef, ExcRef, BUILTIN_EXC
    if _BUILTINS is None:
        _BUILTINS = {
            'len': _mk('len', _b_len), 'range': _mk('range', _b_range), 'abs': _mk('abs', _b_abs),
            'min': _mk('min', _b_min), 'max': _mk('max', _b_max), 'sum': _mk('sum', _b_sum),
            'round': _mk('round', _b_round), 'isinstance': _mk('isinstance', _b_isinstance),
            'type': _mk('type', _b_type), 'enumerate': _mk('enumerate', _b_enumerate), 'zip': _mk('zip', _b_zip),
            'pow': _mk('pow', lambda i, a, k: ops.arith('**', a[0], a[1])),
            'sorted': _mk('sorted', _b_sorted), 'filter': _mk('filter', _b_filter), 'reversed': _mk('reversed', _b_reversed), 'any': _mk('any', _b_any), 'all': _mk('all', _b_all),
            'ord': _mk('ord', _b_ord), 'hasattr': _mk('hasattr', _b_hasattr), 'getattr': _mk('getattr', _b_getattr),
            'setattr': _mk('setattr', _b_setattr), 'print': _mk('print', _b_print),
            'forall': _mk('forall', _b_forall), 'exists': _mk('exists', _b_exists),
            'implies': _mk('implies', _b_implies), 'same': _mk('same', _b_same), 'isnan': _mk('isnan', _b_isnan),
            'int': TypeRef('int'), 'float': TypeRef('float'), 'bool': TypeRef('bool'), 'str': TypeRef('str'),
            'list': TypeRef('list'), 'tuple': TypeRef('tuple'), 'dict': TypeRef('dict'), 'set': TypeRef('set'),
            'slice': TypeRef('slice'), 'object': TypeRef('object'),
            'True': True, 'False': False, 'None': None, 'nan': NAN,
        }
        for e in BUILTIN_EXC:
            _BUILTINS[e] = ExcRef(e)
    return _BUILTINS.get(name)


def construct_type(interp, t, args, kwargs):
    from .interp import SliceVal
    n = t.name
    f = {'int': _b_int, 'float': _b_float, 'bool': _b_bool, 'str': _b_str, 'list': _b_list, 'tuple': _b_tuple,
         'dict': _b_dict, 'set': _b_set}.get(n)
    if f is not None:
        return f(interp, args, kwargs)
    if n == 'slice':
        a = list(args) + [None] * (3 - len(args))
        if len(args) == 1:
            return SliceVal(None, args[0], None)
        return SliceVal(a[0], a[1], a[2])
    if n in ('numpy.float64', 'numpy.float32'):
        return _b_float(interp, args, kwargs)
    if n in ('numpy.int64',):
        return _b_int(interp, args, kwargs)
    raise OutOfSubset(f'constructor {n}')


# ---------------------------------------------------------------------------- externals
SILENT_PREFIX = ('logger.', 'jesse.services.logger.', 'print', 'notify', 'notifier.', 'sync_publish', 'warnings.',
                 'jh.debug', 'jh.dump', 'click.', 'sys.stdout')


def is_silent_call(name):
    return any(name == p.rstrip('.') or name.startswith(p) for p in SILENT_PREFIX)


def normalize_ext(name):
    if name.startswith('np.'):
        name = 'numpy.' + name[3:]
    return name


EXTRA_CONSTS = {}


def ext_const(name):
    from .interp import TypeRef, ExcRef
    table = {
        'numpy.nan': NAN, 'numpy.NaN': NAN, 'math.nan': NAN, 'math.pi': Fraction(math.pi), 'numpy.pi': Fraction(math.pi),
        'numpy.ndarray': TypeRef('numpy.ndarray'), 'numpy.float64': TypeRef('numpy.float64'),
        'numpy.float32': TypeRef('numpy.float32'), 'numpy.int64': TypeRef('numpy.int64'),
        'numpy.floating': TypeRef('numpy.floating'),
        'numpy.newaxis': None,
    }
    if name in EXTRA_CONSTS:
        return (EXTRA_CONSTS[name],)
    if name in table:
        return (table[name],)
    return None


def _np_array(i, a, k):
    v = a[0]
    if isinstance(v, (Vec, Arr)):
        return np_copy(v)
    if isinstance(v, (list, tuple)):
        items = list(v)
        if items and all(isinstance(x, (list, tuple, Vec)) for x in items):
            rows = [Vec(list(x.e) if isinstance(x, Vec) else list(x)) for x in items]
            cols = len(rows[0].e)
            if any(len(r.e) != cols for r in rows):
                raise OutOfSubset('ragged array')
            return Arr(len(rows), (lambda kk, rows=rows: ops.pick(rows, kk)), np=True, cols=cols)
        if any(isinstance(x, (Arr, Opaque, Obj, dict)) for x in items):
            raise OutOfSubset('np.array of non-scalars')
        return Vec([ops.to_float(x) if isinstance(x, (bool, int)) and False else x for x in items])
    if is_conc_num(v) or isinstance(v, Sym):
        return Vec([v])
    raise OutOfSubset('np.array of ' + kind_of(v))


def _np_asarray(i, a, k):
    """np.asarray of an array of the requested dtype is THE SAME object (candle arrays are float64): no copy is made, a store
    into the result writes into the argument"""
    v = a[0]
    if isinstance(v, (Vec, Arr)):
        return v
    return _np_array(i, a, k)


def _shape_arg(shape):
    if isinstance(shape, (tuple, list)):
        if len(shape) == 1:
            return shape[0], None
        if len(shape) == 2 and isinstance(shape[1], int):
            return shape[0], shape[1]
        raise OutOfSubset('array shape')
    return shape, None


def _np_full_like_shape(n, cols, val):
    if cols is None:
        if isinstance(n, int) and n <= 16:
            return Vec([val] * n)
        return Arr(n, (lambda kk, val=val: val), np=True)
    return Arr(n, (lambda kk, val=val, cols=cols: Vec([val] * cols)), np=True, cols=cols)


def _np_zeros(i, a, k):
    n, cols = _shape_arg(a[0])
    return _np_filled(i, n, cols, Fraction(0))


def _np_filled(i, n, cols, val):
    neg = ops.compare('<', n, 0)
    if i.ctx.branch(neg):
        raise RaiseSignal('ValueError', 'negative dimensions are not allowed')
    if cols is None:
        return Arr(n, (lambda kk, val=val: val), np=True, prov=('const', val))
    return Arr(n, (lambda kk, val=val, cols=cols: Vec([val] * cols)), np=True, cols=cols, prov=('const', Vec([val] * cols)))


def _np_full(i, a, k):
    n, cols = _shape_arg(a[0])
    return _np_filled(i, n, cols, a[1] if len(a) > 1 else k['fill_value'])


def _np_like(i, a, k, val):
    v = a[0]
    if isinstance(v, Vec):
        return Vec([val] * len(v.e))
    if isinstance(v, Arr):
        if v.cols is None:
            return Arr(v.n, (lambda kk, val=val: val), np=True)
        return Arr(v.n, (lambda kk, val=val, cols=v.cols: Vec([val] * cols)), np=True, cols=v.cols)
    raise OutOfSubset('*_like of ' + kind_of(v))


def _np_concatenate(i, a, k):
    parts = i.iterate(a[0])
    axis = k.get('axis', a[1] if len(a) > 1 else 0)
    if axis != 0:
        raise OutOfSubset('concatenate axis != 0')
    if all(isinstance(p, Vec) for p in parts):
        out = []
        for p in parts:
            out.extend(p.e)
        return Vec(out)
    arrs = [as_arr(p) for p in parts]
    cols = arrs[0].cols
    if any(x.cols != cols for x in arrs):
        raise RaiseSignal('ValueError', 'all the input array dimensions except for the concatenation axis must match')
    r = arrs[0]
    for b in arrs[1:]:
        n = ops.arith('+', r.n, b.n)
        r = Arr(n, (lambda kk, fa=r.fn, fb=b.fn, na=r.n: _sel(ops.compare('<', kk, na), lambda: fa(kk),
                                                              lambda: fb(ops.arith('-', kk, na)))), np=True, cols=cols,
                prov=('concat', r.snap(), b.snap()))
    return r


def _np_delete(i, a, k):
    arr, idx = a[0], a[1]
    axis = k.get('axis', a[2] if len(a) > 2 else None)
    arr = as_arr(arr)
    if axis is None and arr.cols is not None:
        raise OutOfSubset('np.delete(axis=None) flattens a 2-D array')
    if axis not in (None, 0):
        raise OutOfSubset('np.delete axis')
    used('numpy.delete')
    if isinstance(idx, Arr) and isinstance(idx.tag, tuple) and idx.tag[:1] == ('where',):
        # deletion of every index returned by np.where(mask): exact for no match and for a single match; with two or more
        # matches only the length of the result is known (its rows are unconstrained: an over-approximation that can only
        # make obligations about the result undecidable or refuted on states with >= 2 matching rows)
        _, mask, cnt, first = idx.tag
        if ops.equal(mask.n, arr.n) is not True:
            raise OutOfSubset('np.delete with the indices of a mask over another array')
        if i.ctx.branch(ops.equal(cnt, 0)):
            return Arr(arr.n, arr.fn, np=True, cols=arr.cols, prov=arr.prov)
        if i.ctx.branch(ops.equal(cnt, 1)):
            idx = first
        else:
            rest = i.ctx.fresh_arr('delete.many', n=ops.arith('-', arr.n, cnt), np=True, cols=arr.cols)
            return rest
    j = norm_index(idx, arr.n)
    if not i.ctx.branch(in_range(j, 0, arr.n)):
        raise RaiseSignal('IndexError', 'index out of bounds for np.delete')
    n = ops.arith('-', arr.n, 1)
    return Arr(n, (lambda kk, fn=arr.fn, j=j: _sel(ops.compare('<', kk, j), lambda: fn(kk),
                                                   lambda: fn(ops.arith('+', kk, 1)))), np=True, cols=arr.cols,
               prov=('delete', arr.snap(), j))


def _np_floor(i, a, k):
    return elementwise1(i, lambda x: ops.to_float(ops.floor_val(x)), a[0])


def _np_ceil(i, a, k):
    return elementwise1(i, lambda x: ops.to_float(ops.ceil_val(x)), a[0])


def np_all(i, a, k):
    v = a[0]
    if k.get('axis', a[1] if len(a) > 1 else None) is not None:
        axis = k.get('axis', a[1] if len(a) > 1 else None)
        if axis == 1 and isinstance(v, Arr) and v.cols is not None:
            def rowall(kk, fn=v.fn):
                r = True
                for x in fn(kk).e:
                    r = ops.land(r, ops.truthy(x))
                return r
            return Arr(v.n, rowall, np=True)
        raise OutOfSubset('np.all axis')
    if isinstance(v, (bool, Sym)):
        return ops.truthy(v)
    if isinstance(v, Vec):
        r = True
        for x in v.e:
            r = ops.land(r, ops.truthy(x))
        return r
    if isinstance(v, Arr):
        if isinstance(v.n, int):
            return np_all(i, [Vec([v.fn(j) for j in range(v.n)])], {})
        q = ops.fresh_qvar('a')
        e = v.fn(Sym(q, 'int'))
        body = ops.truthy(e) if not isinstance(e, Vec) else np_all(i, [e], {})
        return mk_bool(z3.ForAll([q], z3.Implies(z3.And(q >= 0, q < z3num(v.n)), z3bool(body))))
    raise OutOfSubset('np.all of ' + kind_of(v))


def np_any(i, a, k):
    v = a[0]
    if isinstance(v, (bool, Sym)):
        return ops.truthy(v)
    if isinstance(v, Vec):
        r = False
        for x in v.e:
            r = ops.lor(r, ops.truthy(x))
        return r
    if isinstance(v, Arr):
        if isinstance(v.n, int):
            return np_any(i, [Vec([v.fn(j) for j in range(v.n)])], {})
        q = ops.fresh_qvar('a')
        body = ops.truthy(v.fn(Sym(q, 'int')))
        return mk_bool(z3.Exists([q], z3.And(q >= 0, q < z3num(v.n), z3bool(body))))
    raise OutOfSubset('np.any of ' + kind_of(v))


def _np_where(i, a, k):
    if len(a) == 3:
        c, x, y = a
        return elementwise2(i, lambda cc, xy: xy, c, elementwise2(i, lambda p, q: (p, q), x, y)) if False else \
            _where3(i, c, x, y)
    if len(a) == 1 and isinstance(a[0], Arr) and a[0].cols is None:
        # np.where(mask) -> (indices of the true entries, ascending,). Axiomatised by its length being positive iff a
        # true entry exists, and its first element being the first such index.
        used('numpy.where(mask) (first-match axioms)')
        c = a[0]
        ctx = i.ctx
        cnt = ctx.fresh_int('where.count')
        j = ctx.fresh_int('where.first')
        q = ops.fresh_qvar('w')
        n = z3num(c.n)
        cj = z3bool(ops.truthy(c.fn(j)))
        cq = z3bool(ops.truthy(c.fn(Sym(q, 'int'))))
        ctx.s.add(cnt.t >= 0, cnt.t <= n)
        ctx.s.add(z3.Implies(cnt.t > 0, z3.And(j.t >= 0, j.t < n, cj,
                                               z3.ForAll([q], z3.Implies(z3.And(q >= 0, q < j.t), z3.Not(cq))))))
        ctx.s.add(z3.Implies(cnt.t == 0, z3.ForAll([q], z3.Implies(z3.And(q >= 0, q < n), z3.Not(cq)))))
        rest = ctx.fresh_arr('where.rest', n=cnt, kind='int')
        idx = Arr(cnt, (lambda kk, j=j, rest=rest: _sel(ops.equal(kk, 0), j, lambda: rest.fn(kk))), np=True)
        idx.tag = ('where', c, cnt, j)
        return (idx,)
    raise OutOfSubset('np.where with one argument')


def _where3(i, c, x, y):
    def f3(cc, xx, yy):
        t = ops.truthy(cc)
        if isinstance(t, bool):
            return xx if t else yy
        return ops.ite(t.t, xx, yy)
    if isinstance(c, Vec):
        n = len(c.e)
        xs = x.e if isinstance(x, Vec) else [x] * n
        ys = y.e if isinstance(y, Vec) else [y] * n
        return Vec([f3(cc, xx, yy) for cc, xx, yy in zip(c.e, xs, ys)])
    if isinstance(c, Arr):
        fx = x.fn if isinstance(x, Arr) else (lambda kk, x=x: x)
        fy = y.fn if isinstance(y, Arr) else (lambda kk, y=y: y)
        return Arr(c.n, (lambda kk, fc=c.fn, fx=fx, fy=fy: f3(fc(kk), fx(kk), fy(kk))), np=True)
    return f3(c, x, y)


def _np_roll(i, a, k):
    """numpy.roll of a 1-D array by a concrete non-negative shift: out[k] = a[(k - s) mod n] - the first s entries wrap to the END"""
    arr = a[0]
    s_ = a[1] if len(a) > 1 else k.get('shift')
    if not isinstance(s_, int) or isinstance(s_, bool) or s_ < 0 or 'axis' in k or len(a) > 2:
        raise OutOfSubset('numpy.roll with a symbolic / negative shift or an axis')
    if isinstance(arr, Vec):
        e = list(arr.e)
        if not e:
            return Vec(e)
        s2 = s_ % len(e)
        return Vec(e[-s2:] + e[:-s2]) if s2 else Vec(e)
    if isinstance(arr, Arr) and arr.cols is None:
        n, fn = arr.n, arr.fn

        def f(kk):
            c = ops.compare('<', kk, s_)
            lo = ops.arith('+', ops.arith('-', kk, s_), n)
            hi = ops.arith('-', kk, s_)
            if isinstance(c, bool):
                return fn(lo if c else hi)
            return ops.ite(c.t, fn(lo), fn(hi))
        return Arr(n, f, np=True)
    raise OutOfSubset('numpy.roll of ' + type(arr).__name__)


def _np_maximum(i, a, k):
    return elementwise2(i, ops.np_max2, a[0], a[1])


def _np_minimum(i, a, k):
    return elementwise2(i, ops.np_min2, a[0], a[1])


def _axis1(i, kind, a, k):
    """reduction along axis 1 of a 2-D array with a concrete number of columns (sliding windows): one value per row"""
    arr = a[0]
    axis = k.get('axis', a[1] if len(a) > 1 else None)
    if axis in (1, -1) and isinstance(arr, Arr) and arr.cols is not None:
        used(f'numpy.{kind} (axis=1, row-wise over {arr.cols} columns)')
        fn = arr.fn

        def row(kk):
            r_ = fn(kk)
            out = reduce_arr(i, 'sum' if kind == 'mean' else kind, Vec(list(r_.e)))
            return ops.arith('/', out, len(r_.e)) if kind == 'mean' else out
        return Arr(arr.n, row, np=True)
    return None


def _np_max(i, a, k):
    r = _axis1(i, 'max', a, k)
    return r if r is not None else reduce_arr(i, 'max', a[0])


def _np_min(i, a, k):
    r = _axis1(i, 'min', a, k)
    return r if r is not None else reduce_arr(i, 'min', a[0])


def _np_sum(i, a, k):
    r = _axis1(i, 'sum', a, k)
    return r if r is not None else reduce_arr(i, 'sum', a[0])


def _as_vec(v):
    if isinstance(v, Vec):
        return v
    if isinstance(v, Arr) and isinstance(v.n, int) and v.cols is None:
        return Vec([v.fn(t) for t in range(v.n)])
    if isinstance(v, (list, tuple)):
        return Vec(list(v))
    return None


def _np_dot(i, a, k):
    """numpy.dot: (rows x w) . (w,) -> one weighted sum per row ; (w,) . (w,) -> scalar (concrete widths)"""
    x, w = a[0], a[1]
    wv = _as_vec(w)
    if isinstance(x, Arr) and x.cols is not None and wv is not None and len(wv.e) == x.cols:
        used('numpy.dot (row-wise weighted sum over a concrete number of columns)')
        fn = x.fn

        def row(kk):
            r_ = fn(kk)
            t = 0
            for u, v in zip(r_.e, wv.e):
                t = ops.arith('+', t, ops.arith('*', u, v))
            return t
        return Arr(x.n, row, np=True)
    xv = _as_vec(x)
    if xv is not None and wv is not None and len(xv.e) == len(wv.e):
        t = 0
        for u, v in zip(xv.e, wv.e):
            t = ops.arith('+', t, ops.arith('*', u, v))
        return t
    raise OutOfSubset('numpy.dot of these shapes')


def _np_arange(i, a, k):
    if all(isinstance(x, int) and not isinstance(x, bool) for x in a) and 1 <= len(a) <= 3:
        return Vec(list(range(*a)))
    raise OutOfSubset('numpy.arange with symbolic bounds')


def _np_ones(i, a, k):
    n, cols = _shape_arg(a[0])
    if isinstance(n, int) and cols is None:
        return Vec([1] * n)
    return _np_filled(i, n, cols, 1)


def _np_convolve(i, a, k):
    """numpy.convolve(x, v, mode='valid') for a series of symbolic length and a kernel of concrete length w <= len(x):
    out[j] = sum_t x[j + t] * v[w - 1 - t], len(x) - w + 1 entries"""
    x, v = a[0], a[1]
    mode = a[2] if len(a) > 2 else k.get('mode', 'full')
    vv = _as_vec(v)
    arr = as_arr(x)
    if mode != 'valid' or vv is None or arr.cols is not None:
        raise OutOfSubset('numpy.convolve form')
    w = len(vv.e)
    if i.ctx.branch(ops.compare('<', arr.n, w)):
        raise OutOfSubset('numpy.convolve with a kernel longer than the series')
    used('numpy.convolve (valid mode, concrete kernel)')
    fn = arr.fn

    def at(kk):
        t = 0
        for j in range(w):
            t = ops.arith('+', t, ops.arith('*', fn(ops.arith('+', kk, j)), vv.e[w - 1 - j]))
        return t
    return Arr(ops.arith('+', ops.arith('-', arr.n, w), 1), at, np=True)


def _np_sliding_window_view(i, a, k):
    """numpy.lib.stride_tricks.sliding_window_view(x, w) for a 1-D array of symbolic length and a concrete window width:
    row j is (x[j], ..., x[j + w - 1]); n - w + 1 rows (ValueError when the window is longer than the array)"""
    x = a[0]
    w = a[1] if len(a) > 1 else k.get('window_shape')
    if isinstance(w, (tuple, list)) and len(w) == 1:
        w = w[0]
    if not isinstance(w, int) or isinstance(w, bool) or w < 1:
        raise OutOfSubset('sliding window of symbolic width')
    arr = as_arr(x)
    if arr.cols is not None:
        raise OutOfSubset('sliding window over a 2-D array')
    used('numpy.lib.stride_tricks.sliding_window_view (rows are the w consecutive elements)')
    if i.ctx.branch(ops.compare('<', arr.n, w)):
        raise RaiseSignal('ValueError', 'window shape cannot be larger than input array shape')
    fn = arr.fn
    return Arr(ops.arith('+', ops.arith('-', arr.n, w), 1), (lambda kk: Vec([fn(ops.arith('+', kk, t)) for t in range(w)])), np=True, cols=w)


def _np_mean(i, a, k):
    """numpy.mean of a 1-D array: sum / length (the sum by the axioms of finite sums)"""
    v = a[0]
    if isinstance(v, Vec):
        t = 0
        for x in v.e:
            t = ops.arith('+', t, x)
        return ops.arith('/', t, len(v.e))
    arr = as_arr(v)
    return ops.arith('/', reduce_arr(i, 'sum', v), arr.n)


def _np_array_equal(i, a, k):
    x, y = a[0], a[1]
    if x is None or y is None:
        return x is None and y is None
    if isinstance(x, (list, tuple)) and len(x) == 0 and isinstance(y, (list, tuple)) and len(y) == 0:
        return True
    if isinstance(x, Vec) and isinstance(y, Vec):
        if len(x.e) != len(y.e):
            return False
        r = True
        for p, q in zip(x.e, y.e):
            r = ops.land(r, ops.equal(p, q))
        return r
    xa, ya = as_arr(x), as_arr(y)
    return ops.seq_equal(Arr(xa.n, xa.fn, np=False), Arr(ya.n, ya.fn, np=False))


def _np_array_equiv(i, a, k):
    """numpy.array_equiv: shapes broadcastable (here: equal row counts, or one operand has a single row) and all equal"""
    x, y = a[0], a[1]
    if x is None or y is None:
        return x is None and y is None
    xa, ya = as_arr(x), as_arr(y)
    if xa.cols != ya.cols:
        raise OutOfSubset('array_equiv between arrays of different rank')
    if not (isinstance(xa.n, int) and isinstance(ya.n, int)):
        raise OutOfSubset('array_equiv of symbolic-length arrays')
    if xa.n == ya.n:
        return _np_array_equal(i, a, k)
    if xa.n != 1 and ya.n != 1:
        return False
    one, many = (xa, ya) if xa.n == 1 else (ya, xa)

    def row_eq(p, q):
        if isinstance(p, Vec) and isinstance(q, Vec):
            r = True
            for u, w in zip(p.e, q.e):
                r = ops.land(r, ops.equal(u, w))
            return r
        return ops.equal(p, q)
    r = True
    first = one.fn(0)
    for j in range(many.n):
        r = ops.land(r, row_eq(first, many.fn(j)))
    return r


def _np_gcd_reduce(i, a, k):
    import math as _m
    xs = i.iterate(a[0])
    if not all(isinstance(x, int) and not isinstance(x, bool) for x in xs):
        raise OutOfSubset('gcd of symbolic values')
    used('numpy.gcd.reduce = greatest common divisor (trusted)')
    r = 0
    for x in xs:
        r = _m.gcd(r, x)
    return r


def _np_lcm_reduce(i, a, k):
    import math as _m
    xs = i.iterate(a[0])
    if not all(isinstance(x, int) and not isinstance(x, bool) for x in xs):
        raise OutOfSubset('lcm of symbolic values')
    used('numpy.lcm.reduce = least common multiple (trusted)')
    r = 1
    for x in xs:
        r = r * x // _m.gcd(r, x) if x else 0
    return r


ISINSTANCE_HOOKS = []


def _np_isnan(i, a, k):
    return _b_isnan(i, a, k)


def _np_round(i, a, k):
    nd = a[1] if len(a) > 1 else k.get('decimals', 0)
    return elementwise1(i, lambda x: _b_round(i, [x, nd], {}), a[0])


def _math_isnan(i, a, k):
    n = nan_of(a[0])
    if a[0] is None or isinstance(a[0], (str, Obj, list, dict)):
        raise RaiseSignal('TypeError', 'must be real number')
    return False if n is None else mk_bool(n)


def _math_floor(i, a, k):
    n = nan_of(a[0])
    if n is not None:
        if i.ctx.branch(mk_bool(n)):
            raise RaiseSignal('ValueError', 'cannot convert float NaN to integer')
    return ops.floor_val(a[0])


def _math_ceil(i, a, k):
    return ops.ceil_val(a[0])


def _math_sqrt(i, a, k):
    return np_sqrt_scalar(i, a[0])


def np_sqrt_scalar(i, x):
    if is_conc_num(x):
        if x < 0:
            raise RaiseSignal('ValueError', 'math domain error')
        r = Fraction(math.isqrt(Fraction(x).numerator * Fraction(x).denominator), Fraction(x).denominator)
        if r * r == x:
            return r
    used('sqrt (axiom: r >= 0, r*r == x)')
    r = i.ctx.fresh_real('sqrt')
    cache = i.ctx.globals.setdefault('__sqrt__', {})
    key = z3.simplify(z3real(x)).sexpr()
    if key in cache:
        return cache[key]
    i.ctx.s.add(z3.Implies(z3real(x) >= 0, z3.And(r.t >= 0, r.t * r.t == z3real(x))))
    res = Sym(r.t, 'real', nan_of(x))
    cache[key] = res
    return res


def _decimal(i, a, k):
    """Decimal(str(x)) and float(Decimal): identity on the real model (assumption A-2)."""
    used('decimal.Decimal (A-2: exact decimal arithmetic, identity on the real model)')
    v = a[0]
    if isinstance(v, Opaque) and v.what.startswith('strof:'):
        i.ctx.trace.append(('Decimal', 'str'))
        return v.payload
    if isinstance(v, str):
        i.ctx.trace.append(('Decimal', 'literal'))
        return Fraction(v)
    if is_conc_num(v) or isinstance(v, Sym):
        i.ctx.trace.append(('Decimal', 'raw-float'))      # binary expansion of the float, not its repr
        return ops.to_float(v)
    raise OutOfSubset('Decimal of ' + kind_of(v))


def _copy_deepcopy(i, a, k):
    used('copy.deepcopy (fresh, equal, disjoint)')
    return deep_copy(a[0], {})


def deep_copy(v, memo):
    if id(v) in memo:
        return memo[id(v)]
    if isinstance(v, list):
        r = []
        memo[id(v)] = r
        r.extend(deep_copy(x, memo) for x in v)
        return r
    if isinstance(v, dict):
        r = {}
        memo[id(v)] = r
        for kk, x in v.items():
            r[kk] = deep_copy(x, memo)
        return r
    if isinstance(v, tuple):
        return tuple(deep_copy(x, memo) for x in v)
    if isinstance(v, Vec):
        r = Vec(list(v.e))
        memo[id(v)] = r
        return r
    if isinstance(v, Arr):
        r = Arr(v.n, v.fn, np=v.np, cols=v.cols)
        memo[id(v)] = r
        return r
    if isinstance(v, Obj):
        r = Obj(v.cls, name=v.name)
        memo[id(v)] = r
        for kk, x in v.f.items():
            r.f[kk] = deep_copy(x, memo)
        return r
    return v


class StrOf(Opaque):
    """str(x) of a number: opaque text that Decimal() can read back (A-2)."""
    __slots__ = ('payload',)

    def __init__(self, payload):
        super().__init__('strof:')
        self.payload = payload


def formatted_number(interp, v, digits, kind):
    """text of format(v, '.{digits}{kind}') as a StrOf payload (read back by Decimal / float)"""
    used(f"format(x, '.{digits}{kind}') (rounding to {digits} {'decimals' if kind == 'f' else 'significant digits'}: error bound only)")
    if kind in ('g', 'e') and digits + (1 if kind == 'e' else 0) >= 17:
        return StrOf(v)
    ctx = interp.ctx
    r = ctx.fresh_real('formatted')
    x = z3real(v)
    if kind == 'f':
        bound = z3.RealVal(Fraction(1, 2 * 10 ** digits))
    else:
        sig = digits + (1 if kind == 'e' else 0)
        bound = z3.If(x >= 0, x, -x) * z3.RealVal(Fraction(5, 10 ** sig))
    ctx.s.add(r.t - x <= bound, x - r.t <= bound)
    return StrOf(r)


def _str_of_number(i, a, k):
    v = a[0] if a else ''
    if isinstance(v, str):
        return v
    if isinstance(v, int) and not isinstance(v, bool):
        return str(v)
    if is_conc_num(v) or isinstance(v, Sym) and v.k in ('int', 'real'):
        return StrOf(v)
    return Opaque('str()')


def _pydash_find(i, a, k):
    """pydash.find(collection, predicate): the first element satisfying the predicate, else None"""
    used('pydash.find (first element satisfying the predicate, else None)')
    coll, pred = a[0], a[1]
    if isinstance(coll, (list, tuple)):
        for x in coll:
            if i.ctx.branch(ops.truthy(i.call(pred, [x]))):
                return x
        return None
    if not isinstance(coll, Arr):
        raise OutOfSubset('pydash.find over ' + kind_of(coll))
    ctx = i.ctx
    q = ops.fresh_qvar('pf')
    n = z3num(coll.n)
    ctx.pure += 1
    try:
        ctx.s.push()
        ctx.s.add(z3.And(q >= 0, q < n))
        try:
            pq = z3bool(ops.truthy(i.call(pred, [coll.fn(Sym(q, 'int'))])))
        finally:
            ctx.s.pop()
    finally:
        ctx.pure -= 1
    exists = mk_bool(z3.Exists([q], z3.And(q >= 0, q < n, pq)))
    if ctx.branch(exists):
        j = ctx.fresh_int('found')
        ctx.s.add(j.t >= 0, j.t < n)
        ctx.pure += 1
        try:
            pj = z3bool(ops.truthy(i.call(pred, [coll.fn(j)])))
        finally:
            ctx.pure -= 1
        ctx.s.add(pj)
        ctx.s.add(z3.ForAll([q], z3.Implies(z3.And(q >= 0, q < j.t), z3.Not(pq))))
        return coll.fn(j)
    ctx.s.add(z3.ForAll([q], z3.Implies(z3.And(q >= 0, q < n), z3.Not(pq))))
    return None


class NTuple(tuple):
    """collections.namedtuple instance"""
    _fields = ()


def _namedtuple(i, a, k):
    from .interp import Builtin
    tname, fields = a[0], a[1]
    if isinstance(fields, str):
        fields = fields.replace(',', ' ').split()
    fields = tuple(fields)

    def make(i2, a2, k2, fields=fields):
        vals = list(a2) + [None] * (len(fields) - len(a2))
        for kk, vv in k2.items():
            vals[fields.index(kk)] = vv
        t = NTuple(vals)
        t._fields = fields
        return t
    return Builtin('namedtuple ' + str(tname), make)


_EXT = None


def ext_call(name):
    global _EXT
    if _EXT is None:
        _EXT = {
            'numpy.array': _np_array, 'numpy.asarray': _np_asarray, 'numpy.zeros': _np_zeros, 'numpy.full': _np_full,
            'numpy.empty': _np_zeros,
            'numpy.zeros_like': lambda i, a, k: _np_like(i, a, k, Fraction(0)),
            'numpy.empty_like': lambda i, a, k: _np_like(i, a, k, Fraction(0)),
            'numpy.ones_like': lambda i, a, k: _np_like(i, a, k, Fraction(1)),
            'numpy.full_like': lambda i, a, k: _np_like(i, a, k, a[1] if len(a) > 1 else k['fill_value']),
            'numpy.concatenate': _np_concatenate, 'numpy.delete': _np_delete, 'numpy.floor': _np_floor,
            'numpy.ceil': _np_ceil, 'numpy.all': np_all, 'numpy.any': np_any, 'numpy.where': _np_where,
            'numpy.roll': _np_roll,
            'numpy.maximum': _np_maximum, 'numpy.minimum': _np_minimum, 'numpy.max': _np_max, 'numpy.min': _np_min,
            'numpy.amax': _np_max, 'numpy.amin': _np_min, 'numpy.nanmax': _np_max, 'numpy.nanmin': _np_min,
            'numpy.sum': _np_sum, 'numpy.mean': _np_mean, 'numpy.lib.stride_tricks.sliding_window_view': _np_sliding_window_view, 'numpy.dot': _np_dot, 'numpy.convolve': _np_convolve, 'numpy.arange': _np_arange, 'numpy.ones': _np_ones, 'numpy.abs': _b_abs, 'numpy.absolute': _b_abs, 'numpy.array_equal': _np_array_equal, 'numpy.array_equiv': _np_array_equiv, 'numpy.gcd.reduce': _np_gcd_reduce, 'numpy.lcm.reduce': _np_lcm_reduce,
            'numpy.isnan': _np_isnan, 'numpy.round': _np_round, 'numpy.copy': lambda i, a, k: np_copy(a[0]),
            'numpy.sqrt': lambda i, a, k: elementwise1(i, lambda x: np_sqrt_scalar(i, x), a[0]),
            'math.isnan': _math_isnan, 'math.floor': _math_floor, 'math.ceil': _math_ceil, 'math.sqrt': _math_sqrt,
            'math.fabs': _b_abs,
            'pydash.find': _pydash_find, 'collections.namedtuple': _namedtuple,
            'decimal.Decimal': _decimal, 'copy.deepcopy': _copy_deepcopy, 'copy.copy': lambda i, a, k: snapshot(a[0]),
        }
    f = _EXT.get(name)
    if f is None and name.endswith('Model.__init__'):
        f = _peewee_model_init
    if f is not None:
        used(name)
    return f


def _peewee_model_init(i, a, k):
    """A-7: a peewee Model instance is a record of its declared fields: XField(default=v) -> v, otherwise None"""
    o = a[0]
    from .interp import Frame
    for c in i.mro(o.cls):
        for name, m in c.members.items():
            if isinstance(m, (ast.Assign, ast.AnnAssign)) and isinstance(m.value, ast.Call):
                fn = m.value.func
                fname = fn.id if isinstance(fn, ast.Name) else getattr(fn, 'attr', '')
                if fname.endswith('Field') and name not in o.f:
                    val = None
                    for kw in m.value.keywords:
                        if kw.arg == 'default':
                            val = i.eval(kw.value, Frame(c.mod))
                            if isinstance(val, dict):
                                val = dict(val)
                    o.f[name] = val
    return None
