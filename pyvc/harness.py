"""Harness layer: tasks (one function under contract x one case of a finite enumeration), the
proof-harness helper `H`, and the parallel task runner."""
import multiprocessing as mp
import os
import time
import traceback
from fractions import Fraction

from .values import Sym, Vec, Arr, Obj, NAN, OutOfSubset
from .engine import Cfg, Ctx, explore, RaiseSignal, PathEnd
from .interp import Interp, Frame, ReturnSignal
from .source import Repo, ModInfo
from . import ops, lib
import ast

import sys as _sys
_sys.setrecursionlimit(20000)
_REPO = None


def repo():
    global _REPO
    if _REPO is None:
        _REPO = Repo()
    return _REPO


def load_spec_module(path, name=None):
    with open(path, encoding='utf-8') as f:
        src = f.read()
    return ModInfo(name or os.path.splitext(os.path.basename(path))[0], path, src, ast.parse(src, filename=path), False)


class Outcome:
    def __init__(self, kind, value=None, exc=None):
        self.kind = kind        # 'ok' | 'raise'
        self.value = value
        self.exc = exc

    @property
    def ok(self):
        return self.kind == 'ok'


class H:
    """Proof-harness helper bound to one path (Ctx)."""

    def __init__(self, ctx, spec_mod=None):
        self.ctx = ctx
        self.repo = repo()
        self.interp = Interp(self.repo, ctx)
        self.spec_mod = spec_mod or ctx.cfg.extra.get('spec_mod')
        self.fns = set()

    # symbols
    def int(self, name='i', lo=None, hi=None):
        v = self.ctx.fresh_int(name)
        if lo is not None:
            self.ctx.assume(ops.compare('>=', v, lo))
        if hi is not None:
            self.ctx.assume(ops.compare('<=', v, hi))
        return v

    def real(self, name='x', lo=None, hi=None, nan=False):
        v = self.ctx.fresh_real(name, nan=nan)
        if lo is not None:
            self.ctx.assume(ops.compare('>=', v, lo))
        if hi is not None:
            self.ctx.assume(ops.compare('<=', v, hi))
        return v

    def bool(self, name='b'):
        return self.ctx.fresh_bool(name)

    def vec(self, name, n):
        return Vec([self.ctx.fresh_real(f'{name}{i}') for i in range(n)])

    def func(self, qual):
        f = self.repo.find(qual)
        return f

    def call(self, qual, *args, **kwargs):
        """Execute the real function symbolically; exceptions propagate as RaiseSignal."""
        f = self.repo.find(qual) if isinstance(qual, str) else qual
        self.interp.cur_qual = f.qual
        return self.interp.call(f, list(args), kwargs)

    def outcome(self, qual, *args, **kwargs):
        try:
            return Outcome('ok', self.call(qual, *args, **kwargs))
        except RaiseSignal as e:
            return Outcome('raise', exc=e.exc)

    def method(self, obj, name, *args, **kwargs):
        m = self.interp.get_attr(obj, name)
        return self.interp.call(m, list(args), kwargs)

    def method_outcome(self, obj, name, *args, **kwargs):
        try:
            return Outcome('ok', self.method(obj, name, *args, **kwargs))
        except RaiseSignal as e:
            return Outcome('raise', exc=e.exc)

    def attr(self, obj, name):
        return self.interp.get_attr(obj, name)

    def spec(self, fname, *args, **kwargs):
        """Interpret a spec function of the sidecar spec module symbolically."""
        f = self.interp.resolve_global(self.spec_mod, fname)
        return self.interp.call(f, list(args), kwargs)

    def spec_outcome(self, fname, *args, **kwargs):
        try:
            return Outcome('ok', self.spec(fname, *args, **kwargs))
        except RaiseSignal as e:
            return Outcome('raise', exc=e.exc)

    def ev(self, text, **env):
        """Evaluate a contract clause (Python expression text) in env + spec module."""
        fr = Frame(self.spec_mod or ModInfo('empty', '<none>', '', ast.parse(''), False), dict(env))
        node = ast.parse(text, mode='eval').body
        self.ctx.pure += 1
        try:
            return self.interp.eval(node, fr)
        finally:
            self.ctx.pure -= 1

    def assume(self, b):
        self.ctx.assume(b if not isinstance(b, str) else self.ev(b))

    def prove(self, goal, oid, info=None):
        return self.ctx.prove(goal, oid, info)

    def branch(self, b):
        return self.ctx.branch(b)

    def cover(self, cid):
        self.ctx.cover(cid)

    def obj(self, qual, **fields):
        cls = self.repo.find(qual)
        return Obj(cls, fields, name=cls.name)


class Task:
    def __init__(self, tid, fn, functions=(), **cfg):
        self.id = tid
        self.fn = fn              # fn(h: H) -> None
        self.functions = list(functions)
        self.cfg = cfg


_TASKS = {}


def _run_task(args):
    modname, tid, tier, seed = args
    import importlib
    t0 = time.time()
    try:
        mod = importlib.import_module(modname)
        tasks = {t.id: t for t in mod.tasks(tier)}
        t = tasks[tid]
        kw = dict(t.cfg)
        kw.setdefault('prove_timeout_ms', 120000 if tier == 'quick' else 240000)      # generous: verdicts must not flip on a loaded machine
        kw['task_id'] = tid
        kw['seed'] = seed
        if os.environ.get('PYVC_FORK_ALL', '0') == '1':
            kw['extra'] = dict(kw.get('extra') or {}, fork_solver=True)
        cfg = Cfg(**kw)
        lib.USED.clear()

        def run(ctx):
            t.fn(H(ctx))
        obls, stats = explore(run, cfg)
        stats['used'] = sorted(lib.USED)
        return tid, obls, stats, None
    except Exception:
        return tid, [], {'wall_s': time.time() - t0}, traceback.format_exc()


def _child(conn, args):
    try:
        conn.send(_run_task(args))
    except BaseException:
        try:
            conn.send((args[1], [], {}, traceback.format_exc()))
        except Exception:
            pass
    finally:
        conn.close()


def run_tasks(modname, task_ids, tier, seed, jobs=None, budgets=None):
    """one forked process per task (at most `jobs` at a time); a task that exceeds its wall-clock budget is killed and
    reported as undecided (never as a violation)"""
    jobs = jobs or int(os.environ.get('PYVC_JOBS', '0')) or min(16, os.cpu_count() or 4)
    budgets = budgets or {}
    pending = [(modname, tid, tier, seed) for tid in task_ids]
    if jobs <= 1 and not budgets:
        return [_run_task(a) for a in pending]
    ctxm = mp.get_context('fork')
    running = {}
    results = {}
    while pending or running:
        while pending and len(running) < jobs:
            a = pending.pop(0)
            pc, cc = ctxm.Pipe(duplex=False)
            p = ctxm.Process(target=_child, args=(cc, a))
            p.start()
            cc.close()
            running[a[1]] = (p, pc, time.time())
        done = []
        for tid, (p, pc, t0) in running.items():
            if pc.poll(0.01):
                try:
                    results[tid] = pc.recv()
                except EOFError:
                    p.join(5)
                    results[tid] = (tid, [], {}, f'worker died without a result (exit code {p.exitcode})')
                p.join(5)
                done.append(tid)
            elif not p.is_alive():
                results[tid] = (tid, [], {}, f'worker exited with code {p.exitcode} without a result')
                done.append(tid)
            else:
                b = budgets.get(tid)
                if b and time.time() - t0 > b:
                    p.terminate()
                    p.join(5)
                    if p.is_alive():
                        p.kill()
                    results[tid] = (tid, [{'id': tid + ':in-budget', 'task': tid, 'status': 'unknown',
                                           'detail': f'task exceeded its wall-clock budget of {b}s and was stopped'}],
                                    {'paths': 0, 'solver_ms': 0.0, 'covers': {}, 'used': []}, None)
                    done.append(tid)
        for tid in done:
            running.pop(tid)
        if not done:
            time.sleep(0.02)
    return [results[tid] for tid in task_ids]
