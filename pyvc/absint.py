"""Congruence prover for wrapper-level code (C14): executes the real AST of a function over an *uninterpreted term
algebra*.  Every operation that involves an abstract value (an array, a number read from an array, a length ...) is a
hash-consed term `op(args)`; two executions that build the same term compute the same value, because every library
function and every opaque repo function is a deterministic function of its arguments (assumption A-8/A-13).  No bound on
array lengths is involved: lengths are terms, too.

Branches on abstract conditions fork the exploration; a decision is keyed by the condition *term*, so a second run of
the program on the same path takes the same decisions wherever it evaluates the same condition.

Anything outside the small subset (loops over abstract ranges, while, mutation through aliases, generators ...) raises
Unsupported: the function is then not decided by this prover (never a violation)."""
import ast

from .source import RepoFunc


class Unsupported(Exception):
    pass


class PathEnd(Exception):
    pass


class Raised(Exception):
    def __init__(self, key):
        self.key = key


class T:
    """hash-consed term"""
    __slots__ = ('op', 'args', 'key')
    table = {}

    def __repr__(self):
        return show(self)


RULES_USED = set()
VIEW_MAKERS = {'numpy.asarray', 'numpy.ascontiguousarray', 'numpy.reshape', 'numpy.ravel', 'numpy.squeeze', 'numpy.transpose',
               'numpy.lib.stride_tricks.sliding_window_view', 'numpy.lib.stride_tricks.as_strided', 'numpy.atleast_1d'}


def _k(v):
    if isinstance(v, T):
        return ('T', v.key)
    if isinstance(v, (tuple, list)):
        return (type(v).__name__,) + tuple(_k(x) for x in v)
    if isinstance(v, dict):
        return ('dict',) + tuple(sorted((repr(k), _k(x)) for k, x in v.items()))
    if isinstance(v, NT):
        return ('NT', v.t.name) + tuple(_k(x) for x in v.vals)
    if isinstance(v, slice):
        return ('slice', _k(v.start), _k(v.stop), _k(v.step))
    if isinstance(v, float) and v != v:
        return ('nan',)
    if isinstance(v, (int, float, str, bool, type(None))):
        return (type(v).__name__, v)
    if isinstance(v, (Ext, Fn, NTType, Builtin)):
        return (type(v).__name__, v.name)
    if v is Ellipsis:
        return ('...',)
    raise Unsupported(f'value of type {type(v).__name__} inside a term')


def mk(op, *args):
    if op == 'getitem' and len(args) == 2 and isinstance(args[1], int) and args[1] == -1 and isinstance(args[0], T):
        t0 = args[0]
        # last element of concatenate((padding, R)) is the last element of R (R non-empty: assumption A-14)
        if t0.op == 'ext' and t0.args[0] == 'numpy.concatenate' and len(t0.args[1]) >= 1 and isinstance(t0.args[1][0], (tuple, list)) \
                and len(t0.args[1][0]) == 2 and isinstance(t0.args[1][0][1], T):
            RULES_USED.add('last(concatenate((pad, R))) = last(R)')
            return mk('getitem', t0.args[1][0][1], -1)
    key = (op,) + tuple(_k(a) for a in args)
    t = T.table.get(key)
    if t is None:
        t = T()
        t.op, t.args, t.key = op, args, len(T.table)
        T.table[key] = t
    return t


def show(v, depth=0):
    if isinstance(v, T):
        if depth > 6:
            return '...'
        if v.op == 'sym':
            return str(v.args[0])
        return f'{v.op}(' + ', '.join(show(a, depth + 1) for a in v.args) + ')'
    if isinstance(v, slice):
        return f'{show(v.start)}:{show(v.stop)}'
    return repr(v)


def is_abs(v):
    if isinstance(v, T):
        return True
    if isinstance(v, (tuple, list)):
        return any(is_abs(x) for x in v)
    if isinstance(v, slice):
        return is_abs(v.start) or is_abs(v.stop) or is_abs(v.step)
    if isinstance(v, NT):
        return any(is_abs(x) for x in v.vals)
    return False


def is_candles(t):
    """the 2-D candle array or a row range of it (still 2-D with 6 columns)"""
    if not isinstance(t, T):
        return False
    if t.op == 'sym':
        return len(t.args) > 1 and t.args[1] == '2d'
    return t.op == 'getitem' and isinstance(t.args[1], slice) and is_candles(t.args[0])


import math as _math
EXT_CONSTS = {'numpy.pi': _math.pi, 'math.pi': _math.pi, 'numpy.nan': float('nan'), 'numpy.NaN': float('nan'), 'math.nan': float('nan'),
              'numpy.inf': float('inf'), 'math.inf': float('inf'), 'numpy.e': _math.e, 'math.e': _math.e}


class Ext:
    def __init__(self, name):
        self.name = name


class Fn:
    def __init__(self, rf):
        self.rf = rf
        self.name = rf.qual


class Builtin:
    def __init__(self, name):
        self.name = name


class NTType:
    def __init__(self, name, fields):
        self.name = name
        self.fields = fields


class NT:
    def __init__(self, t, vals):
        self.t = t
        self.vals = list(vals)


class Closure:
    def __init__(self, node, env, mod):
        self.node, self.env, self.mod = node, env, mod
        self.name = f'<lambda@{node.lineno}>'


class _Return(Exception):
    def __init__(self, v):
        self.v = v


BUILTINS = {'len', 'range', 'min', 'max', 'abs', 'int', 'float', 'round', 'isinstance', 'list', 'tuple', 'zip', 'enumerate', 'sum',
            'bool', 'str', 'any', 'all', 'sorted', 'reversed', 'print', 'type', 'ValueError', 'TypeError', 'IndexError', 'Exception',
            'ImportError', 'NotImplementedError', 'hasattr', 'getattr', 'divmod', 'pow', 'dict', 'set', 'map', 'filter'}

_PURE_PY = {'len': len, 'min': min, 'max': max, 'abs': abs, 'int': int, 'float': float, 'round': round, 'bool': bool, 'str': str,
            'sum': sum, 'divmod': divmod, 'pow': pow, 'sorted': sorted, 'any': any, 'all': all}


class Evaluator:
    def __init__(self, repo, inline_depth=3, max_steps=200000):
        self.repo = repo
        self.decisions = {}        # condition key -> bool (current path)
        self.order = []            # keys in the order they were decided on this path
        self.prefix = []
        self.alts = []
        self.inline_depth = inline_depth
        self.steps = 0
        self.max_steps = max_steps
        self.mutated = set()
        self.opaque_calls = set()
        self.inlined = set()

    # ---------------------------------------------------------------------------------------------- decisions
    def decide(self, cond):
        if not isinstance(cond, T):
            if is_abs(cond):
                raise Unsupported('truth value of an abstract container')
            return bool(cond)
        if cond.op == 'not':
            return not self.decide(cond.args[0])
        k = cond.key
        if k in self.decisions:
            return self.decisions[k]
        i = len(self.order)
        if i < len(self.prefix):
            d = self.prefix[i]
        else:
            d = True
            self.alts.append([self.decisions[x] for x in self.order] + [False])
        self.decisions[k] = d
        self.order.append(k)
        return d

    # ---------------------------------------------------------------------------------------------- names
    def resolve(self, mod, name):
        ent = mod.top.get(name)
        if ent is None:
            if name in BUILTINS:
                return Builtin(name)
            if name in ('True', 'False', 'None'):
                return {'True': True, 'False': False, 'None': None}[name]
            raise Unsupported(f'unresolved name {name} in {mod.name}')
        if isinstance(ent, (ast.FunctionDef,)):
            return Fn(RepoFunc(f'{mod.name}.{name}', ent, mod))
        if isinstance(ent, ast.ClassDef):
            raise Unsupported(f'class {name}')
        if isinstance(ent, tuple):
            if ent[0] == 'import':
                return self.modval(ent[1])
            _, m, attr = ent
            if self.repo.has_module(f'{m}.{attr}'):
                return self.modval(f'{m}.{attr}')
            if self.repo.has_module(m):
                return self.resolve(self.repo.module(m), attr)
            return Ext(f'{m}.{attr}')
        if isinstance(ent, (ast.Assign, ast.AnnAssign)):
            return self.eval(ent.value, {}, mod)
        raise Unsupported(f'module entry {name}')

    def modval(self, name):
        if self.repo.has_module(name):
            return ('module', name)
        return Ext(name)

    # ---------------------------------------------------------------------------------------------- expressions
    def eval(self, node, env, mod):
        self.steps += 1
        if self.steps > self.max_steps:
            raise Unsupported('step budget')
        m = getattr(self, 'e_' + type(node).__name__, None)
        if m is None:
            raise Unsupported(f'expression {type(node).__name__}')
        return m(node, env, mod)

    def e_Constant(self, node, env, mod):
        return node.value

    def e_Name(self, node, env, mod):
        if node.id in env:
            return env[node.id]
        return self.resolve(mod, node.id)

    def e_Tuple(self, node, env, mod):
        return tuple(self.eval(e, env, mod) for e in node.elts)

    def e_List(self, node, env, mod):
        return [self.eval(e, env, mod) for e in node.elts]

    def e_Dict(self, node, env, mod):
        return {self.eval(k, env, mod): self.eval(v, env, mod) for k, v in zip(node.keys, node.values)}

    def e_JoinedStr(self, node, env, mod):
        return mk('fstring', *[self.eval(v.value, env, mod) if isinstance(v, ast.FormattedValue) else v.value for v in node.values])

    def e_Attribute(self, node, env, mod):
        v = self.eval(node.value, env, mod)
        a = node.attr
        if isinstance(v, Ext):
            full = f'{v.name}.{a}'
            if full in EXT_CONSTS:
                return EXT_CONSTS[full]
            return Ext(full)
        if isinstance(v, tuple) and len(v) == 2 and v[0] == 'module':
            m2 = self.repo.module(v[1])
            if a in m2.top:
                return self.resolve(m2, a)
            if self.repo.has_module(f'{v[1]}.{a}'):
                return ('module', f'{v[1]}.{a}')
            raise Unsupported(f'attribute {a} of module {v[1]}')
        if isinstance(v, NT):
            if a in v.t.fields:
                return v.vals[v.t.fields.index(a)]
            raise Unsupported(f'namedtuple attribute {a}')
        if isinstance(v, T):
            if a == 'shape' and is_candles(v):
                return (mk('len', v), 6)
            if a == 'ndim' and is_candles(v):
                return 2
            return mk('attr', v, a)
        if isinstance(v, (list, tuple, dict, str)) and a in ('append', 'extend', 'get', 'keys', 'values', 'items', 'lower', 'upper', 'index', 'count', 'format', 'startswith', 'endswith'):
            return ('pymethod', v, a)
        raise Unsupported(f'attribute {a} of {type(v).__name__}')

    def e_Subscript(self, node, env, mod):
        v = self.eval(node.value, env, mod)
        i = self.eval(node.slice, env, mod)
        return self.getitem(v, i)

    def getitem(self, v, i):
        if isinstance(v, NT):
            if isinstance(i, int):
                return v.vals[i]
            raise Unsupported('namedtuple subscript')
        if isinstance(v, (list, tuple, str, dict)) and not is_abs(i):
            try:
                return v[i]
            except (IndexError, KeyError) as ex:
                raise Raised(mk('raise', type(ex).__name__))
        if is_abs(v) or is_abs(i):
            return mk('getitem', v, i)
        raise Unsupported(f'subscript of {type(v).__name__}')

    def e_Slice(self, node, env, mod):
        f = lambda x: None if x is None else self.eval(x, env, mod)
        return slice(f(node.lower), f(node.upper), f(node.step))

    def e_UnaryOp(self, node, env, mod):
        v = self.eval(node.operand, env, mod)
        if isinstance(node.op, ast.Not):
            if isinstance(v, T):
                return v.args[0] if v.op == 'not' else mk('not', v)
            if is_abs(v):
                raise Unsupported('not of an abstract container')
            return not v
        op = {ast.USub: 'neg', ast.UAdd: 'pos', ast.Invert: 'inv'}[type(node.op)]
        if is_abs(v):
            return mk(op, v)
        return -v if op == 'neg' else (+v if op == 'pos' else ~v)

    def e_BinOp(self, node, env, mod):
        a = self.eval(node.left, env, mod)
        b = self.eval(node.right, env, mod)
        return self.binop(type(node.op).__name__, a, b)

    def binop(self, op, a, b):
        if is_abs(a) or is_abs(b):
            return mk(op, a, b)
        import operator as o
        f = {'Add': o.add, 'Sub': o.sub, 'Mult': o.mul, 'Div': o.truediv, 'FloorDiv': o.floordiv, 'Mod': o.mod, 'Pow': o.pow,
             'BitAnd': o.and_, 'BitOr': o.or_, 'BitXor': o.xor, 'LShift': o.lshift, 'RShift': o.rshift, 'MatMult': o.matmul}[op]
        try:
            return f(a, b)
        except ZeroDivisionError:
            raise Raised(mk('raise', 'ZeroDivisionError'))
        except TypeError:
            raise Unsupported(f'{op} on {type(a).__name__}, {type(b).__name__}')

    def e_Compare(self, node, env, mod):
        left = self.eval(node.left, env, mod)
        res = True
        for op, c in zip(node.ops, node.comparators):
            right = self.eval(c, env, mod)
            r = self.compare(type(op).__name__, left, right)
            if isinstance(res, bool) and res is True:
                res = r
            elif isinstance(res, bool):
                return False
            else:
                res = mk('and', res, r)
            if res is False:
                return False
            left = right
        return res

    def compare(self, op, a, b):
        if op in ('Is', 'IsNot'):
            if a is None or b is None or isinstance(a, bool) or isinstance(b, bool):
                other = b if (a is None or isinstance(a, bool)) else a
                me = a if other is b else b
                if isinstance(other, T):
                    # an abstract value is an array / number, never None or a bool singleton
                    return op == 'IsNot'
                r = other is me
                return r if op == 'Is' else not r
            raise Unsupported('identity comparison')
        if is_abs(a) or is_abs(b):
            return mk(op, a, b)
        import operator as o
        f = {'Eq': o.eq, 'NotEq': o.ne, 'Lt': o.lt, 'LtE': o.le, 'Gt': o.gt, 'GtE': o.ge, 'In': lambda x, y: x in y,
             'NotIn': lambda x, y: x not in y}[op]
        try:
            return f(a, b)
        except TypeError:
            raise Unsupported(f'comparison {op}')

    def e_BoolOp(self, node, env, mod):
        is_and = isinstance(node.op, ast.And)
        v = None
        for e in node.values:
            v = self.eval(e, env, mod)
            d = self.decide(v)
            if d != is_and:
                return v
        return v

    def e_IfExp(self, node, env, mod):
        c = self.eval(node.test, env, mod)
        return self.eval(node.body if self.decide(c) else node.orelse, env, mod)

    def e_Lambda(self, node, env, mod):
        return Closure(node, dict(env), mod)

    def e_ListComp(self, node, env, mod):
        if len(node.generators) != 1 or node.generators[0].ifs and False:
            raise Unsupported('comprehension shape')
        g = node.generators[0]
        it = self.iterate(self.eval(g.iter, env, mod))
        out = []
        for x in it:
            e2 = dict(env)
            self.bind(g.target, x, e2, mod)
            if all(self.decide(self.eval(c, e2, mod)) for c in g.ifs):
                out.append(self.eval(node.elt, e2, mod))
        return out

    e_GeneratorExp = e_ListComp

    def iterate(self, v):
        if isinstance(v, (list, tuple)):
            return list(v)
        if isinstance(v, range):
            if len(v) > 512:
                raise Unsupported('long concrete loop')
            return list(v)
        if isinstance(v, dict):
            return list(v)
        if isinstance(v, NT):
            return list(v.vals)
        raise Unsupported('iteration over an abstract value')

    def e_Call(self, node, env, mod):
        f = self.eval(node.func, env, mod)
        args = []
        for a in node.args:
            if isinstance(a, ast.Starred):
                args.extend(self.iterate(self.eval(a.value, env, mod)))
            else:
                args.append(self.eval(a, env, mod))
        kwargs = {}
        for k in node.keywords:
            if k.arg is None:
                raise Unsupported('**kwargs')
            kwargs[k.arg] = self.eval(k.value, env, mod)
        return self.call(f, args, kwargs)

    # ---------------------------------------------------------------------------------------------- calls
    def call(self, f, args, kwargs, depth=0):
        if isinstance(f, Builtin):
            return self.call_builtin(f.name, args, kwargs)
        if isinstance(f, Ext):
            return self.call_ext(f.name, args, kwargs)
        if isinstance(f, NTType):
            vals = list(args) + [kwargs[n] for n in f.fields[len(args):]]
            if len(vals) != len(f.fields):
                raise Unsupported('namedtuple arity')
            return NT(f, vals)
        if isinstance(f, Closure):
            env = dict(f.env)
            a = f.node.args
            for p, v in zip(a.args, args):
                env[p.arg] = v
            return self.eval(f.node.body, env, f.mod)
        if isinstance(f, tuple) and f and f[0] == 'pymethod':
            _, obj, name = f
            if is_abs(args) or is_abs(list(kwargs.values())):
                if name in ('append', 'extend') and isinstance(obj, list):
                    getattr(obj, name)(*args)
                    return None
                raise Unsupported('python method with abstract argument')
            return getattr(obj, name)(*args, **kwargs)
        if isinstance(f, T):
            return mk('callobj', f, tuple(args), kwargs)
        if isinstance(f, Fn):
            return self.call_repo(f.rf, args, kwargs)
        raise Unsupported(f'call of {type(f).__name__}')

    def call_builtin(self, name, args, kwargs):
        if name == 'range':
            if is_abs(args):
                raise Unsupported('range over an abstract bound')
            return range(*args)
        if name == 'isinstance':
            v, t = args
            if isinstance(v, T):
                return mk('isinstance', v, t if not isinstance(t, tuple) else tuple(t))
            names = [x.name for x in (t if isinstance(t, tuple) else (t,))]
            pt = {'int': int, 'float': float, 'str': str, 'bool': bool, 'list': list, 'tuple': tuple, 'dict': dict}
            return any(isinstance(v, pt[n]) for n in names if n in pt)
        if name in ('list', 'tuple'):
            if not args:
                return [] if name == 'list' else ()
            if isinstance(args[0], T):
                return mk(name, args[0])
            return list(self.iterate(args[0])) if name == 'list' else tuple(self.iterate(args[0]))
        if name in ('zip', 'enumerate', 'reversed', 'map', 'filter'):
            if is_abs([a for a in args if isinstance(a, T)]):
                raise Unsupported(f'{name} over an abstract value')
            if name == 'zip':
                return list(zip(*[self.iterate(a) for a in args]))
            if name == 'enumerate':
                return list(enumerate(self.iterate(args[0])))
            if name == 'reversed':
                return list(reversed(self.iterate(args[0])))
            raise Unsupported(name)
        if name == 'print':
            return None
        if name in ('ValueError', 'TypeError', 'IndexError', 'Exception', 'ImportError', 'NotImplementedError'):
            return mk('exc', name)
        if name in ('hasattr', 'getattr', 'type', 'dict', 'set'):
            raise Unsupported(name)
        if is_abs(args) or is_abs(list(kwargs.values())):
            if name == 'len' and isinstance(args[0], (list, tuple)):
                return len(args[0])
            if name == 'len' and isinstance(args[0], NT):
                return len(args[0].vals)
            return mk('builtin', name, tuple(args), kwargs)
        try:
            return _PURE_PY[name](*args, **kwargs)
        except KeyError:
            raise Unsupported(f'builtin {name}')
        except (TypeError, ValueError) as ex:
            raise Unsupported(f'builtin {name}: {ex}')

    def call_ext(self, name, args, kwargs):
        if name in ('collections.namedtuple',):
            fields = args[1]
            if isinstance(fields, str):
                fields = fields.replace(',', ' ').split()
            return NTType(args[0], list(fields))
        if name in ('math.isnan', 'numpy.isnan') and args and not is_abs(args[0]) and isinstance(args[0], (int, float)):
            return args[0] != args[0]
        if not is_abs(args) and not is_abs(list(kwargs.values())):
            import math
            if name.startswith('math.') and hasattr(math, name[5:]):
                try:
                    return getattr(math, name[5:])(*args)
                except (TypeError, ValueError):
                    pass
        self.opaque_calls.add(name)
        return mk('ext', name, tuple(args), kwargs)

    def call_repo(self, rf, args, kwargs, force_inline=False):
        q = rf.qual
        njit = any('jit' in (d or '') for d in rf.decorators)
        loops = any(isinstance(n, (ast.For, ast.While)) for n in ast.walk(rf.node))
        inline = (not njit) and (q.startswith('jesse.helpers.') or q.startswith('jesse.indicators.')) and len(self.stack) < self.inline_depth
        if q == 'jesse.helpers.get_config' or q in self.never_inline:
            inline = False
        if inline or force_inline:
            saved = (dict(self.decisions), list(self.order), list(self.alts), set(self.mutated))
            try:
                self.stack.append(q)
                try:
                    r = self.run(rf, args, kwargs)
                finally:
                    self.stack.pop()
                self.inlined.add(q)
                return r
            except Unsupported:
                if force_inline:
                    raise
                # not within the subset: fall back to an opaque (deterministic) call; forget what the attempt decided
                self.decisions, self.order, self.alts, self.mutated = saved[0], saved[1], saved[2], saved[3]
                self.never_inline.add(q)       # shared by all paths of the exploration: replays must take the same route
        self.opaque_calls.add(q)
        return mk('call', q, tuple(args), kwargs)

    stack = []
    never_inline = set()

    # ---------------------------------------------------------------------------------------------- statements
    def run(self, rf, args, kwargs):
        node = rf.node
        env = {}
        a = node.args
        params = [p.arg for p in a.posonlyargs + a.args]
        defaults = [None] * (len(params) - len(a.defaults)) + list(a.defaults)
        if len(args) > len(params):
            if a.vararg is None:
                raise Unsupported('too many positional arguments')
            env[a.vararg.arg] = tuple(args[len(params):])
            args = args[:len(params)]
        elif a.vararg is not None:
            env[a.vararg.arg] = ()
        for i, p in enumerate(params):
            if i < len(args):
                env[p] = args[i]
            elif p in kwargs:
                env[p] = kwargs[p]
            elif defaults[i] is not None:
                env[p] = self.eval(defaults[i], {}, rf.mod)
            else:
                raise Unsupported(f'missing argument {p}')
        for p, d in zip(a.kwonlyargs, a.kw_defaults):
            env[p.arg] = kwargs[p.arg] if p.arg in kwargs else (self.eval(d, {}, rf.mod) if d is not None else None)
        extra = set(kwargs) - set(params) - {p.arg for p in a.kwonlyargs}
        if extra:
            if a.kwarg is None:
                raise Unsupported(f'unexpected keyword {extra}')
            env[a.kwarg.arg] = {k: kwargs[k] for k in extra}
        env['__params__'] = {p for p in list(env) if isinstance(env.get(p), T)} if self.stack and len(self.stack) > 1 else set()
        try:
            self.block(node.body, env, rf.mod)
        except _Return as r:
            return r.v
        return None

    def block(self, stmts, env, mod):
        for st in stmts:
            m = getattr(self, 's_' + type(st).__name__, None)
            if m is None:
                raise Unsupported(f'statement {type(st).__name__}')
            m(st, env, mod)

    def s_Expr(self, st, env, mod):
        if isinstance(st.value, ast.Constant):
            return
        self.eval(st.value, env, mod)

    def s_Pass(self, st, env, mod):
        pass

    def s_Return(self, st, env, mod):
        raise _Return(None if st.value is None else self.eval(st.value, env, mod))

    def s_Import(self, st, env, mod):
        for a in st.names:
            env[a.asname or a.name.split('.')[0]] = Ext(a.name if a.asname else a.name.split('.')[0])

    def s_ImportFrom(self, st, env, mod):
        for a in st.names:
            m = st.module or ''
            if self.repo.has_module(m):
                env[a.asname or a.name] = self.resolve(self.repo.module(m), a.name)
            else:
                env[a.asname or a.name] = Ext(f'{m}.{a.name}')

    def bind(self, target, v, env, mod):
        if isinstance(target, ast.Name):
            env[target.id] = v
            return
        if isinstance(target, (ast.Tuple, ast.List)):
            if isinstance(v, NT):
                v = v.vals
            if isinstance(v, T):
                for j, e in enumerate(target.elts):
                    self.bind(e, mk('getitem', v, j), env, mod)
                return
            items = self.iterate(v)
            if len(items) != len(target.elts):
                raise Unsupported('unpacking arity')
            for e, x in zip(target.elts, items):
                self.bind(e, x, env, mod)
            return
        if isinstance(target, ast.Subscript):
            base = target.value
            if not isinstance(base, ast.Name):
                raise Unsupported('store into a non-name')
            old = env.get(base.id) if base.id in env else self.resolve(mod, base.id)
            idx = self.eval(target.slice, env, mod)
            if isinstance(old, (list, dict)) and not is_abs(idx):
                old[idx] = v
                return
            if not isinstance(old, T):
                raise Unsupported('store into a concrete value with an abstract index')
            # functional update; a second name bound to the same *object* (a = b, or a parameter of an inlined callee)
            # would see the store in Python -> refuse those
            if base.id in env.get('__aliased__', ()) or base.id in env.get('__params__', ()):
                raise Unsupported('in-place store into an aliased array or into a parameter')
            if old.op in ('getitem', 'attr', 'sym') or (old.op == 'ext' and old.args[0] in VIEW_MAKERS):
                # numpy basic indexing / reshaping returns views: the store would show through another array
                raise Unsupported('in-place store into (a view of) an input array')
            env[base.id] = mk('store', old, idx, v)
            return
        raise Unsupported(f'assignment target {type(target).__name__}')

    def s_Assign(self, st, env, mod):
        v = self.eval(st.value, env, mod)
        names = [t.id for t in st.targets if isinstance(t, ast.Name)]
        if isinstance(v, T) and (isinstance(st.value, ast.Name) or len(st.targets) > 1):
            al = set(env.get('__aliased__', ()))
            al.update(names)
            if isinstance(st.value, ast.Name):
                al.add(st.value.id)
            env['__aliased__'] = al
        else:
            for n in names:
                if n in env.get('__aliased__', ()):
                    env['__aliased__'] = set(env['__aliased__']) - {n}
                if n in env.get('__params__', ()):
                    env['__params__'] = set(env['__params__']) - {n}
        for t in st.targets:
            self.bind(t, v, env, mod)

    def s_AnnAssign(self, st, env, mod):
        if st.value is not None:
            self.bind(st.target, self.eval(st.value, env, mod), env, mod)

    def s_AugAssign(self, st, env, mod):
        cur = self.eval(st.target if not isinstance(st.target, ast.Name) else ast.Name(id=st.target.id, ctx=ast.Load()), env, mod) \
            if isinstance(st.target, ast.Name) else self.eval(ast.Subscript(value=st.target.value, slice=st.target.slice, ctx=ast.Load()), env, mod)
        v = self.binop(type(st.op).__name__, cur, self.eval(st.value, env, mod))
        self.bind(st.target, v, env, mod)

    def s_If(self, st, env, mod):
        c = self.eval(st.test, env, mod)
        self.block(st.body if self.decide(c) else st.orelse, env, mod)

    def s_For(self, st, env, mod):
        items = self.iterate(self.eval(st.iter, env, mod))
        for x in items:
            self.bind(st.target, x, env, mod)
            self.block(st.body, env, mod)
        self.block(st.orelse, env, mod)

    def s_While(self, st, env, mod):
        raise Unsupported('while loop')

    def s_Raise(self, st, env, mod):
        raise Raised(mk('raise', show(self.eval(st.exc, env, mod)) if st.exc is not None else 'reraise'))

    def s_Assert(self, st, env, mod):
        if not self.decide(self.eval(st.test, env, mod)):
            raise Raised(mk('raise', 'AssertionError'))

    def s_Try(self, st, env, mod):
        # try/except ImportError around optional fast paths: the body is what runs (imports succeed here)
        names = []
        for h in st.handlers:
            if h.type is None:
                raise Unsupported('bare except')
            names.append(ast.unparse(h.type))
        if not all(n in ('ImportError', 'ModuleNotFoundError', '(ImportError, ModuleNotFoundError)') for n in names):
            raise Unsupported('try/except other than ImportError')
        self.block(st.body, env, mod)
        self.block(st.orelse, env, mod)
        self.block(st.finalbody, env, mod)

    def s_With(self, st, env, mod):
        # context managers of the wrappers are numpy error-state guards: no effect on values
        for item in st.items:
            src = ast.unparse(item.context_expr)
            if 'errstate' not in src and 'catch_warnings' not in src:
                raise Unsupported(f'with {src}')
        self.block(st.body, env, mod)

    def s_FunctionDef(self, st, env, mod):
        env[st.name] = Fn(RepoFunc(f'{mod.name}.<local>.{st.name}', st, mod))


def explore(repo, program, max_paths=512):
    """program(ev) is run once per path; returns list of (decisions, result | exception)"""
    out = []
    work = [[]]
    n = 0
    never = set()
    while work:
        prefix = work.pop()
        n += 1
        if n > max_paths:
            raise Unsupported('too many paths')
        ev = Evaluator(repo)
        ev.prefix = prefix
        ev.stack = []
        ev.never_inline = never
        try:
            r = program(ev)
            out.append((dict(ev.decisions), r, ev))
        except PathEnd:
            pass
        for a in ev.alts:
            work.append(a)
    return out


# ------------------------------------------------------------------------------------------------ C14 driver
def last_of_sequential(b):
    if isinstance(b, T):
        return mk('getitem', b, -1)
    return b


def agrees(a, b, ev, index_of=None, field=None):
    """a: result of f(c, sequential=False); b: result of f(window(c), sequential=True); a must be last(b), field by field
    (index_of(field) gives the documented entry for the one exempted indicator)"""
    if isinstance(a, tuple) and a and a[0] == 'raised':
        return isinstance(b, tuple) and bool(b) and b[0] == 'raised' and a[1] is b[1]
    if isinstance(b, tuple) and b and b[0] == 'raised':
        return False
    if isinstance(a, NT) and isinstance(b, NT):
        return a.t.name == b.t.name and len(a.vals) == len(b.vals) and all(agrees(x, y, ev, index_of, f_)
                                                                               for x, y, f_ in zip(a.vals, b.vals, a.t.fields))
    if isinstance(a, tuple) and isinstance(b, tuple) and len(a) == len(b):
        return all(agrees(x, y, ev, index_of) for x, y in zip(a, b))
    if isinstance(b, T):
        e = mk('getitem', b, index_of(field) if index_of and field else -1)
        if a is e:
            return True
        if a is None:
            # several indicators report None instead of NaN in single-value mode
            k = mk('ext', 'numpy.isnan', (e,), {})
            return ev.decisions.get(k.key) is True
        return False
    try:
        return _k(a) == _k(b)
    except Unsupported:
        return False


def prove_single_is_last_of_sequential(repo, qual, index_of=None):
    """returns (proved: bool, paths, detail).  Raises Unsupported when the wrapper leaves the subset."""
    rf = repo.find(qual)
    T.table.clear()
    c = mk('sym', 'candles', '2d')
    sc = repo.find('jesse.helpers.slice_candles')

    def program(ev):
        try:
            a = ev.call_repo(rf, [c], {'sequential': False}, force_inline=True)
        except Raised as r:
            a = ('raised', r.key)
        win = ev.call_repo(sc, [c, False], {}, force_inline=True)        # the trailing warm-up window, by the real slice_candles
        try:
            b = ev.call_repo(rf, [win], {'sequential': True}, force_inline=True)
        except Raised as r:
            b = ('raised', r.key)
        return a, b
    res = explore(repo, program)
    opaque = set()
    for dec, (a, b), ev in res:
        opaque |= ev.opaque_calls
        if not agrees(a, b, ev, index_of):
            def sh(x):
                if isinstance(x, NT):
                    return [show(v)[:300] for v in x.vals]
                return show(x)[:600] if isinstance(x, T) else repr(x)[:300]
            return False, len(res), {'single': sh(a), 'last_of_sequential_on_window': sh(last_of_sequential(b)) if isinstance(b, T) else sh(b)}
    return True, len(res), {'opaque_calls': sorted(opaque), 'rules': sorted(RULES_USED)}
