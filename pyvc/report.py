"""Verdict aggregation, native replay dispatch, known findings, evidence files, exit codes.

Exit codes: 0 all obligations discharged (known findings printed) / 1 VIOLATION / 2 undecided
(unknown, out-of-subset, stale sidecar, obligation set changed) / 3 checker error (vacuity, must-fail
proved, crash).  `unknown`, timeouts and tracebacks are never mapped to a violation.
"""
import json
import os
import subprocess
import sys
import time
from fractions import Fraction

VERIF = os.path.dirname(os.path.dirname(os.path.abspath(__file__)))
NATIVE_PY = os.environ.get('PYVC_NATIVE_PY', '/venv/bin/python')
REPO_ROOT = os.environ.get('PYVC_REPO', '/repo')


def jsonable(v):
    if isinstance(v, Fraction):
        if v.denominator == 1:
            return int(v)
        return {'frac': f'{v.numerator}/{v.denominator}', 'float': float(v)}
    if isinstance(v, dict):
        return {str(k): jsonable(x) for k, x in v.items()}
    if isinstance(v, (list, tuple)):
        return [jsonable(x) for x in v]
    if isinstance(v, (int, float, str, bool)) or v is None:
        return v
    return str(v)


def load_findings():
    p = os.path.join(VERIF, 'KNOWN_FINDINGS.json')
    if not os.path.exists(p):
        return []
    with open(p) as f:
        return json.load(f).get('entries', [])


def active_findings(prop):
    return [e for e in load_findings() if e.get('property') == prop and e.get('status') == 'finding']


def native(script_args, payload, timeout=600):
    """Run a native (CPython 3.12 + jesse) helper with JSON in/out."""
    env = dict(os.environ)
    env['PYTHONPATH'] = REPO_ROOT + os.pathsep + VERIF
    env.setdefault('PYTHONWARNINGS', 'ignore')
    env['JESSE_VERIF_NATIVE'] = '1'
    p = subprocess.run([NATIVE_PY, '-W', 'ignore'] + script_args, input=json.dumps(jsonable(payload)),
                       capture_output=True, text=True, timeout=timeout, env=env, cwd=VERIF)
    out = p.stdout.strip().splitlines()
    for line in reversed(out):
        if line.startswith('{'):
            try:
                return json.loads(line)
            except Exception:
                pass
    return {'error': f'native helper failed (rc={p.returncode})', 'stdout': p.stdout[-2000:], 'stderr': p.stderr[-4000:]}


def aggregate(results):
    """results: list of (task id, obligation records, stats, error) -> per-obligation summary."""
    by = {}
    errors = []
    stats = {'paths': 0, 'solver_ms': 0.0, 'tasks': 0, 'covers': {}, 'used': set(), 'max_ms': 0.0, 'slow': [],
             'per_backend': {}}
    for tid, obls, st, err in results:
        stats['tasks'] += 1
        if err:
            errors.append((tid, err))
            continue
        stats['paths'] += st.get('paths', 0)
        stats['solver_ms'] += st.get('solver_ms', 0.0)
        for k, v in st.get('covers', {}).items():
            stats['covers'][f'{tid}:{k}'] = v
        stats['used'].update(st.get('used', []))
        for o in obls:
            e = by.setdefault(o['id'], {'id': o['id'], 'instances': 0, 'proved': 0, 'refuted': [], 'unknown': [],
                                        'tasks': set(), 'info': o.get('info')})
            e['instances'] += 1
            e['tasks'].add(tid)
            ms = o.get('ms', 0.0)
            if ms > stats['max_ms']:
                stats['max_ms'] = ms
            if ms > 20000:
                stats['slow'].append({'id': o['id'], 'ms': round(ms)})
            if o['status'] == 'proved':
                e['proved'] += 1
                b = o.get('backend', 'z3')
                stats['per_backend'][b] = stats['per_backend'].get(b, 0) + 1
            elif o['status'] == 'refuted':
                e['refuted'].append(o)
            else:
                e['unknown'].append(o)
    return by, stats, errors


def status_of(e):
    if e['refuted']:
        return 'refuted'
    if e['unknown']:
        return 'undecided'
    return 'proved'


class Report:
    def __init__(self, prop, tier, seed, level='proof'):
        self.prop = prop
        self.tier = tier
        self.seed = seed
        self.level = level
        self.t0 = time.time()
        self.lines = []
        self.violations = []
        self.known_printed = []
        self.exit = 0

    def say(self, s):
        print(s, flush=True)
        self.lines.append(s)

    def violation(self, replay_path, confirmed):
        tail = '' if confirmed else ' no-failing-input-found'
        self.say(f'VIOLATION property={self.prop} replay={replay_path}{tail}')
        self.violations.append(replay_path)
        self.exit = max(self.exit, 1) if self.exit in (0, 1) else self.exit

    def write_replay(self, oid, content):
        d = os.path.join(VERIF, 'out', 'replays', self.prop)
        os.makedirs(d, exist_ok=True)
        safe = ''.join(ch if ch.isalnum() or ch in '._-' else '_' for ch in oid)[:150]
        p = os.path.join(d, safe + '.json')
        with open(p, 'w') as f:
            json.dump(jsonable(content), f, indent=1)
        return p

    def write_evidence(self, coverage, assumptions, extra=None):
        ev = {
            'property_id': self.prop, 'tier': self.tier, 'seed': self.seed, 'level': self.level,
            'coverage': coverage, 'assumptions': assumptions, 'wall_s': round(time.time() - self.t0, 2),
            'violations': len(self.violations),
        }
        if extra:
            ev.update(extra)
        d = os.path.join(VERIF, 'evidence')
        os.makedirs(d, exist_ok=True)
        with open(os.path.join(d, self.prop + '.json'), 'w') as f:
            json.dump(jsonable(ev), f, indent=1)
        return ev
