"""Bounded pandas model: concrete row count, symbolic cells.  Only what jesse.services.metrics uses.

A Series is a list of cells plus a per-row `present` flag (row selection by a boolean mask keeps the row list and
conjoins the flag, so a filtered frame has a symbolic length).  Reductions skip rows that are not present or whose cell
is NaN (pandas' skipna=True default).  A DataFrame is a dict of equally long columns sharing the present flags.
+-inf and NaN are one non-finite value (A-1), as everywhere in the engine.

Semantics covered (each checked against real pandas by native/pdmodel_selftest.py):
  DataFrame.from_records(list of dicts) / DataFrame(list, index=) / df[col] / df[mask] / df.loc[mask] / len(df) /
  df.columns / df.pct_change(1) / df +-*/ scalar / df / df / df.cumprod() / df.expanding(min_periods=).max() / df.min()
  Series([..]) / s.iloc[k] / s.index[k] / len(s) / s[mask] / s cmp scalar / s +-*/** scalar|s / s.sum() / s.mean() /
  s.min() / s.max() / s.std(ddof=) / s.fillna(v) / s.count() / s.prod() / s.cumprod() / s.expanding(min_periods=).max() / s.to_numpy() / s.shape
  date_range(start=, periods=) with daily frequency: index[j] - index[i] has .days == j - i
"""
from fractions import Fraction

import z3

from .values import PvObject, Sym, NAN, OutOfSubset, Vec, Opaque, nan_of, z3bool, is_conc_num
from . import ops, lib


def _np():
    return lib.NPVEC[0]


def _cond(c):
    """python bool or z3 Bool"""
    if isinstance(c, bool):
        return c
    if isinstance(c, Sym):
        return z3bool(c)
    if c is NAN:
        return False
    if is_conc_num(c):
        return bool(c)
    return c


def _ite(c, a, b):
    c = _cond(c)
    if c is True:
        return a
    if c is False:
        return b
    return ops.ite(c, a, b)


def _and(a, b):
    a, b = _cond(a), _cond(b)
    if a is False or b is False:
        return False
    if a is True:
        return b
    if b is True:
        return a
    return z3.And(a, b)


def _not(a):
    a = _cond(a)
    if isinstance(a, bool):
        return not a
    return z3.Not(a)


def _notnan(v):
    n = nan_of(v)
    if n is None:
        return True
    if z3.is_true(n):
        return False
    return z3.Not(n)


def _div(a, b):
    from . import npvec
    return npvec.np_div(a, b)


def _builtin(name, fn):
    from .interp import Builtin
    return Builtin(name, fn)


class Day(PvObject):
    def __init__(self, k):
        self.k = k

    def pv_binop(self, interp, op, other, reflected):
        if op == '-' and isinstance(other, Day):
            return Delta(other.k - self.k if reflected else self.k - other.k)
        raise OutOfSubset('date arithmetic other than the difference of two index entries')


class Delta(PvObject):
    def __init__(self, days):
        self.days = days

    def pv_getattr(self, interp, name):
        if name == 'days':
            return self.days
        raise OutOfSubset(f'Timedelta.{name}')


class DateIdx(PvObject):
    """daily DatetimeIndex of n entries"""

    def __init__(self, n):
        self.n = n

    def pv_len(self, interp):
        return self.n

    def pv_getitem(self, interp, idx):
        if isinstance(idx, int):
            if not -self.n <= idx < self.n:
                from .engine import RaiseSignal
                raise RaiseSignal('IndexError', 'index out of bounds')
            return Day(idx % self.n)
        raise OutOfSubset('DatetimeIndex subscript')


class _ILoc(PvObject):
    def __init__(self, s):
        self.s = s

    def pv_getitem(self, interp, idx):
        s = self.s
        if not all(p is True for p in s.p):
            raise OutOfSubset('iloc on a filtered series')
        if isinstance(idx, int):
            if not -len(s.v) <= idx < len(s.v):
                from .engine import RaiseSignal
                raise RaiseSignal('IndexError', 'single positional indexer is out-of-bounds')
            return s.v[idx]
        raise OutOfSubset('iloc with a non-integer')


class _Loc(PvObject):
    def __init__(self, df):
        self.df = df

    def pv_getitem(self, interp, idx):
        if isinstance(idx, Ser):
            return self.df.filter(idx)
        raise OutOfSubset('DataFrame.loc with something other than a boolean mask')


class _Expanding(PvObject):
    def __init__(self, obj, min_periods):
        self.obj = obj
        self.mp = min_periods

    def pv_getattr(self, interp, name):
        if name == 'max':
            return _builtin('expanding.max', lambda i, a, k: self.obj.map_columns(lambda s: s.expanding_max(self.mp)))
        raise OutOfSubset(f'expanding().{name}')


class Ser(PvObject):
    def __init__(self, v, p=None, index=None):
        self.v = list(v)
        self.p = list(p) if p is not None else [True] * len(self.v)
        self.index = index

    # ---- helpers
    def eff(self, j):
        """row j takes part in a reduction"""
        return _and(self.p[j], _notnan(self.v[j]))

    def map_columns(self, f):
        return f(self)

    def count_rows(self):
        n = 0
        for p in self.p:
            n = ops.arith('+', n, _ite(p, 1, 0))
        return n

    def count(self):
        n = 0
        for j in range(len(self.v)):
            n = ops.arith('+', n, _ite(self.eff(j), 1, 0))
        return n

    def sum(self):
        r = Fraction(0)
        for j, x in enumerate(self.v):
            r = ops.arith('+', r, _ite(self.eff(j), x, Fraction(0)))
        return r

    def mean(self):
        return _div(self.sum(), self.count())

    def prod(self):
        r = Fraction(1)
        for j, x in enumerate(self.v):
            r = ops.arith('*', r, _ite(self.eff(j), x, Fraction(1)))
        return r

    def _extreme(self, pick):
        have, cur = False, NAN
        for j, x in enumerate(self.v):
            e = self.eff(j)
            cand = _ite(have, pick(cur, x), x)
            cur = _ite(e, cand, cur)
            have = ops_or(have, e)
        return cur

    def min(self):
        return self._extreme(ops.vmin)

    def max(self):
        return self._extreme(ops.vmax)

    def std(self, ddof=1):
        m = self.mean()
        n = self.count()
        ss = Fraction(0)
        for j, x in enumerate(self.v):
            d = ops.arith('-', x, m)
            ss = ops.arith('+', ss, _ite(self.eff(j), ops.arith('*', d, d), Fraction(0)))
        dof = ops.arith('-', n, ddof)
        var = _ite(ops.compare('>', dof, 0), _div(ss, dof), NAN)
        from . import npvec
        return npvec.uf('sqrt', var)

    def cumprod(self):
        out, r = [], Fraction(1)
        for j, x in enumerate(self.v):
            e = self.eff(j)
            r = _ite(e, ops.arith('*', r, x), r)
            out.append(_ite(e, r, NAN))
        return Ser(out, self.p, self.index)

    def expanding_max(self, min_periods):
        mp = max(int(min_periods or 0), 1)
        out, have, cur, cnt = [], False, NAN, 0
        for j, x in enumerate(self.v):
            e = self.eff(j)
            cand = _ite(have, ops.vmax(cur, x), x)
            cur = _ite(e, cand, cur)
            have = ops_or(have, e)
            cnt = ops.arith('+', cnt, _ite(e, 1, 0))
            out.append(_ite(ops.compare('>=', cnt, mp), cur, NAN))
        return Ser(out, self.p, self.index)

    def fillna(self, val):
        def f(x):
            n = nan_of(x)
            if n is None:
                return x
            if x is NAN:
                return val
            return ops.ite(n, val, Sym(x.t, x.k))
        return Ser([f(x) for x in self.v], self.p, self.index)

    def filter(self, mask):
        if not isinstance(mask, Ser) or len(mask.v) != len(self.v):
            raise OutOfSubset('boolean mask of another shape')
        return Ser(self.v, [_and(_and(p, q), m) for p, q, m in zip(self.p, mask.p, mask.v)], self.index)

    def elementwise(self, f, other=None, reflected=False):
        if isinstance(other, Ser):
            if len(other.v) != len(self.v):
                raise OutOfSubset('series of different lengths')
            vs = [f(y, x) if reflected else f(x, y) for x, y in zip(self.v, other.v)]
            return Ser(vs, [_and(p, q) for p, q in zip(self.p, other.p)], self.index)
        return Ser([f(other, x) if reflected else f(x, other) for x in self.v], self.p, self.index)

    # ---- protocol
    def pv_len(self, interp):
        return self.count_rows()

    def pv_binop(self, interp, op, other, reflected):
        if isinstance(other, DF):
            return other.pv_binop(interp, op, self, not reflected)
        if isinstance(other, (Vec, list, tuple)):
            raise OutOfSubset('series op array')
        f = (lambda x, y: _div(x, y)) if op == '/' else (lambda x, y: ops.arith(op, x, y))
        return self.elementwise(f, other, reflected)

    def pv_compare(self, interp, op, other, reflected):
        def f(x, y):
            if x is NAN or y is NAN:
                return op == '!='
            return ops.compare(op, x, y) if op not in ('==', '!=') else (ops.equal(x, y) if op == '==' else ops.lnot(ops.equal(x, y)))
        return self.elementwise(f, other, reflected)

    def pv_getitem(self, interp, idx):
        if isinstance(idx, Ser):
            return self.filter(idx)
        raise OutOfSubset('series subscript other than a boolean mask')

    def pv_getattr(self, interp, name):
        B = _builtin
        if name in ('sum', 'mean', 'min', 'max', 'prod', 'cumprod', 'count'):
            m = getattr(self, name)
            return B('Series.' + name, lambda i, a, k: m())
        if name == 'std':
            return B('Series.std', lambda i, a, k: self.std(k.get('ddof', a[0] if a else 1)))
        if name == 'fillna':
            return B('Series.fillna', lambda i, a, k: self.fillna(a[0] if a else k.get('value')))
        if name == 'expanding':
            return B('Series.expanding', lambda i, a, k: _Expanding(self, k.get('min_periods', a[0] if a else 1)))
        if name == 'to_numpy':
            def to_numpy(i, a, k):
                if not all(p is True for p in self.p):
                    raise OutOfSubset('to_numpy of a filtered series')
                return Vec(list(self.v))
            return B('Series.to_numpy', to_numpy)
        if name == 'iloc':
            return _ILoc(self)
        if name == 'index':
            if self.index is None:
                raise OutOfSubset('index of a series without a modelled index')
            return self.index
        if name == 'shape':
            return (self.count_rows(),)
        raise OutOfSubset(f'pandas.Series.{name}')


def ops_or(a, b):
    a, b = _cond(a), _cond(b)
    if a is True or b is True:
        return True
    if a is False:
        return b
    if b is False:
        return a
    return z3.Or(a, b)


class DF(PvObject):
    def __init__(self, cols, n, p=None, index=None):
        self.cols = cols            # name -> list of cells
        self.n = n
        self.p = list(p) if p is not None else [True] * n
        self.index = index

    def col(self, name):
        return Ser(self.cols[name], self.p, self.index)

    def filter(self, mask):
        if len(mask.v) != self.n:
            raise OutOfSubset('boolean mask of another shape')
        return DF(self.cols, self.n, [_and(_and(p, q), m) for p, q, m in zip(self.p, mask.p, mask.v)], self.index)

    def map_columns(self, f):
        out = {}
        p = self.p
        for c in self.cols:
            s = f(self.col(c))
            out[c] = s.v
            p = s.p
        return DF(out, self.n, p, self.index)

    def pv_len(self, interp):
        n = 0
        for p in self.p:
            n = ops.arith('+', n, _ite(p, 1, 0))
        return n

    def pv_getitem(self, interp, idx):
        if isinstance(idx, Ser):
            return self.filter(idx)
        if isinstance(idx, (str, int)) and idx in self.cols:
            return self.col(idx)
        if isinstance(idx, (str, int)):
            from .engine import RaiseSignal
            raise RaiseSignal('KeyError', repr(idx))
        raise OutOfSubset('DataFrame subscript')

    def pv_binop(self, interp, op, other, reflected):
        if isinstance(other, DF):
            if list(other.cols) != list(self.cols) or other.n != self.n:
                raise OutOfSubset('frames of different shape')
            return DF({c: self.col(c).pv_binop(interp, op, other.col(c), reflected).v for c in self.cols}, self.n,
                      [_and(p, q) for p, q in zip(self.p, other.p)], self.index)
        if isinstance(other, Ser):
            raise OutOfSubset('frame op series')
        return self.map_columns(lambda s: s.pv_binop(interp, op, other, reflected))

    def pv_compare(self, interp, op, other, reflected):
        return self.map_columns(lambda s: s.pv_compare(interp, op, other, reflected))

    def pv_getattr(self, interp, name):
        B = _builtin
        if name == 'loc':
            return _Loc(self)
        if name == 'columns':
            return list(self.cols)
        if name == 'index':
            if self.index is None:
                raise OutOfSubset('index of a frame without a modelled index')
            return self.index
        if name == 'pct_change':
            def pct_change(i, a, k):
                per = a[0] if a else k.get('periods', 1)
                if per != 1 or not all(p is True for p in self.p):
                    raise OutOfSubset('pct_change other than periods=1 on an unfiltered frame')

                def f(s):
                    if any(nan_of(x) is not None for x in s.v):
                        raise OutOfSubset('pct_change of a column that may hold NaN (pandas forward-fills)')
                    return Ser([NAN] + [ops.arith('-', _div(s.v[j], s.v[j - 1]), 1) for j in range(1, len(s.v))], s.p, s.index)
                return self.map_columns(f)
            return B('DataFrame.pct_change', pct_change)
        if name == 'fillna':
            return B('DataFrame.fillna', lambda i, a, k: self.map_columns(lambda s: s.fillna(a[0] if a else k.get('value'))))
        if name == 'cumprod':
            return B('DataFrame.cumprod', lambda i, a, k: self.map_columns(lambda s: s.cumprod()))
        if name == 'expanding':
            return B('DataFrame.expanding', lambda i, a, k: _Expanding(self, k.get('min_periods', a[0] if a else 1)))
        if name in ('min', 'max', 'sum', 'mean', 'prod'):
            # column-wise reduction -> Series indexed by column name
            return B('DataFrame.' + name, lambda i, a, k: Ser([getattr(self.col(c), name)() for c in self.cols]))
        if name == 'std':
            return B('DataFrame.std', lambda i, a, k: Ser([self.col(c).std(k.get('ddof', a[0] if a else 1)) for c in self.cols]))
        if name == 'shape':
            return (self.pv_len(interp), len(self.cols))
        raise OutOfSubset(f'pandas.DataFrame.{name}')


# ---------------------------------------------------------------------------------------------- constructors (ext models)
def _from_records(i, a, k):
    recs = a[0]
    if not isinstance(recs, list) or not all(isinstance(r, dict) for r in recs):
        raise OutOfSubset('DataFrame.from_records of something other than a list of dicts')
    names = []
    for r in recs:
        for c in r:
            if c not in names:
                names.append(c)
    return DF({c: [r.get(c, NAN) for r in recs] for c in names}, len(recs))


def _dataframe(i, a, k):
    data = a[0] if a else k.get('data')
    index = k.get('index')
    if isinstance(data, Vec):
        data = list(data.e)
    if not isinstance(data, list):
        raise OutOfSubset('DataFrame() of something other than a list of scalars')
    if index is not None and isinstance(index, DateIdx) and index.n != len(data):
        from .engine import RaiseSignal
        raise RaiseSignal('ValueError', 'Length of values does not match length of index')
    return DF({0: list(data)}, len(data), None, index if isinstance(index, DateIdx) else None)


def _series(i, a, k):
    data = a[0] if a else k.get('data')
    if isinstance(data, Vec):
        data = list(data.e)
    if not isinstance(data, list):
        raise OutOfSubset('Series() of something other than a list')
    return Ser(list(data))


def _date_range(i, a, k):
    n = k.get('periods')
    if not isinstance(n, int) or k.get('freq') not in (None, 'D'):
        raise OutOfSubset('date_range other than daily with a concrete number of periods')
    return DateIdx(n)


def _isinstance_hook(v, name):
    if name == 'pandas.Series':
        return isinstance(v, Ser)
    if name == 'pandas.DataFrame':
        return isinstance(v, DF)
    return None


def install():
    E = lib._EXT
    E['pandas.DataFrame.from_records'] = _from_records
    E['pandas.DataFrame'] = _dataframe
    E['pandas.Series'] = _series
    E['pandas.date_range'] = _date_range
    E['datetime.datetime.fromtimestamp'] = lambda i, a, k: Opaque('datetime')
    if _isinstance_hook not in lib.ISINSTANCE_HOOKS:
        lib.ISINSTANCE_HOOKS.append(_isinstance_hook)
    lib.EXTRA_CONSTS['numpy.inf'] = NAN       # +-inf and NaN are one non-finite value (A-1)
