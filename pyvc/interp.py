"""Symbolic AST interpreter for the Python subset of DESIGN.md section 2.3.

It executes the *real* FunctionDef nodes parsed from /repo.  Anything outside the subset raises
OutOfSubset (the obligation set becomes undecided); nothing is skipped silently.
"""
import ast
from fractions import Fraction
import z3
from .values import (Sym, NAN, Vec, Arr, Obj, Opaque, OutOfSubset, is_sym, z3num, z3bool, mk_bool, mk_num, kind_of,
                     is_conc_num, PvObject)
from .engine import PathEnd, NotPure, RaiseSignal
from .source import RepoFunc, RepoClass, ModInfo
from . import ops


class ReturnSignal(Exception):
    def __init__(self, value):
        self.value = value


class BreakSignal(Exception):
    pass


class ContinueSignal(Exception):
    pass


class ModRef:
    def __init__(self, name, repo):
        self.name = name
        self.repo = repo

    def __repr__(self):
        return f'ModRef<{self.name}>'


class ExtRef:
    def __init__(self, name):
        self.name = name

    def __repr__(self):
        return f'ExtRef<{self.name}>'


class Builtin:
    def __init__(self, name, fn):
        self.name = name
        self.fn = fn

    def __repr__(self):
        return f'Builtin<{self.name}>'


class BoundMethod:
    def __init__(self, obj, func):
        self.obj = obj
        self.func = func


class Closure:
    def __init__(self, node, frame, qual):
        self.node = node
        self.frame = frame
        self.qual = qual


class TypeRef:
    def __init__(self, name):
        self.name = name

    def __repr__(self):
        return f'TypeRef<{self.name}>'

    def __eq__(self, o):
        return isinstance(o, TypeRef) and o.name == self.name

    def __hash__(self):
        return hash(self.name)


class SliceVal:
    def __init__(self, start, stop, step):
        self.start = start
        self.stop = stop
        self.step = step


class RangeVal:
    def __init__(self, lo, hi, step=1):
        self.lo = lo
        self.hi = hi
        self.step = step


class SuperRef:
    def __init__(self, obj, cls):
        self.obj = obj
        self.cls = cls


class ExcRef:
    """An exception class (repo or builtin), identified by name."""
    def __init__(self, name):
        self.name = name


class ExcObj:
    def __init__(self, name, args=()):
        self.name = name
        self.args = args


class Frame:
    def __init__(self, mod, locals_=None, func=None, parent=None, self_obj=None):
        self.mod = mod
        self.l = locals_ if locals_ is not None else {}
        self.func = func
        self.parent = parent        # lexical parent frame (closures)
        self.globals_decl = set()
        self.self_obj = self_obj
        self.loop_ord = 0
        self.cur_exc = None


BUILTIN_EXC = {'Exception', 'BaseException', 'ValueError', 'TypeError', 'KeyError', 'IndexError', 'ZeroDivisionError',
               'AssertionError', 'NotImplementedError', 'AttributeError', 'RuntimeError', 'StopIteration',
               'LookupError', 'ArithmeticError', 'OverflowError'}
EXC_PARENTS = {'KeyError': 'LookupError', 'IndexError': 'LookupError', 'ZeroDivisionError': 'ArithmeticError',
               'OverflowError': 'ArithmeticError', 'NotImplementedError': 'RuntimeError'}

BINOPS = {ast.Add: '+', ast.Sub: '-', ast.Mult: '*', ast.Div: '/', ast.FloorDiv: '//', ast.Mod: '%', ast.Pow: '**'}
CMPOPS = {ast.Eq: '==', ast.NotEq: '!=', ast.Lt: '<', ast.LtE: '<=', ast.Gt: '>', ast.GtE: '>=', ast.Is: 'is',
          ast.IsNot: 'is not', ast.In: 'in', ast.NotIn: 'not in'}


class Interp:
    def __init__(self, repo, ctx):
        from . import lib
        self.repo = repo
        self.ctx = ctx
        self.cfg = ctx.cfg
        self.lib = lib
        self.depth = 0
        self.subs_ord = {}

    # ------------------------------------------------------------------ names
    def resolve_global(self, mod, name, _seen=None):
        qn = f'{mod.name}.{name}'
        if qn in self.cfg.globals:
            if qn not in self.ctx.globals:
                self.ctx.globals[qn] = self.cfg.globals[qn](self)
            return self.ctx.globals[qn]
        if qn in self.ctx.globals:
            return self.ctx.globals[qn]
        ent = mod.top.get(name)
        if ent is None:
            b = self.lib.builtin(name)
            if b is not None:
                return b
            for sm in getattr(mod, 'star', []):
                if self.repo.has_module(sm):
                    pm = self.repo.module(sm)
                    if name in pm.top:
                        return self.resolve_global(pm, name)
                else:
                    return self.ext(f'{sm}.{name}')
            raise OutOfSubset(f'unresolved name {name} in {mod.name}')
        if isinstance(ent, (ast.FunctionDef, ast.AsyncFunctionDef)):
            return RepoFunc(qn, ent, mod)
        if isinstance(ent, ast.ClassDef):
            return self.repo.cls(mod, ent)
        if isinstance(ent, tuple):
            if ent[0] == 'import':
                return self.modref(ent[1])
            _, m, attr = ent
            if self.repo.has_module(f'{m}.{attr}'):
                # `from jesse.services import selectors`; but a package may also define the name itself
                if self.repo.has_module(m):
                    pm = self.repo.module(m)
                    if attr in pm.top and pm.top[attr] != ('from', m, attr) and pm.top[attr] != ('import', f'{m}.{attr}'):
                        return self.resolve_global(pm, attr)
                return ModRef(f'{m}.{attr}', True)
            if self.repo.has_module(m):
                return self.resolve_global(self.repo.module(m), attr)
            return self.ext(f'{m}.{attr}')
        if isinstance(ent, (ast.Assign, ast.AnnAssign)):
            fr = Frame(mod)
            v = self.eval(ent.value, fr)
            if isinstance(ent, ast.Assign) and isinstance(ent.targets[0], ast.Tuple):
                names = [e.id for e in ent.targets[0].elts if isinstance(e, ast.Name)]
                items = self.iterate(v)
                if len(names) != len(items) or name not in names:
                    raise OutOfSubset('module-level tuple assignment')
                for n2, x in zip(names, items):
                    self.ctx.globals[f'{mod.name}.{n2}'] = x
                return self.ctx.globals[qn]
            self.ctx.globals[qn] = v
            return v
        raise OutOfSubset(f'module entry {name}')

    def modref(self, name):
        if self.repo.has_module(name):
            return ModRef(name, True)
        return ModRef(name, False)

    def ext(self, name):
        name = self.lib.normalize_ext(name)
        c = self.lib.ext_const(name)
        if c is not None:
            return c[0]
        return ExtRef(name)

    def lookup(self, name, frame):
        f = frame
        while f is not None:
            if name in f.l and name not in f.globals_decl:
                return f.l[name]
            f = f.parent
        return self.resolve_global(frame.mod, name)

    # ------------------------------------------------------------------ expressions
    def eval(self, node, fr):
        m = getattr(self, 'e_' + type(node).__name__, None)
        if m is None:
            raise OutOfSubset(f'expression {type(node).__name__} (line {getattr(node, "lineno", "?")})')
        return m(node, fr)

    def e_Constant(self, node, fr):
        v = node.value
        if isinstance(v, float):
            if v != v:
                return NAN
            return Fraction(repr(v)) if 'e' not in repr(v) and 'inf' not in repr(v) else Fraction(v)
        if isinstance(v, (int, str, bool)) or v is None or v is Ellipsis:
            return v
        if isinstance(v, bytes):
            return Opaque('bytes')
        raise OutOfSubset(f'constant {v!r}')

    def e_Name(self, node, fr):
        return self.lookup(node.id, fr)

    def e_JoinedStr(self, node, fr):
        # f'{x:.Ng}' / f'{x:.Nf}' / f'{x:.Ne}' of a number: the decimal text of x rounded to N significant digits (g, e) or N
        # decimals (f).  Fewer than 17 significant digits do not round-trip a double: the text denotes a value r with
        # |r - x| <= half a unit of the last kept digit, otherwise unconstrained (so code that relies on r == x is refuted).
        if len(node.values) == 1 and isinstance(node.values[0], ast.FormattedValue) and node.values[0].format_spec is not None:
            fv = node.values[0]
            spec = fv.format_spec
            if isinstance(spec, ast.JoinedStr) and len(spec.values) == 1 and isinstance(spec.values[0], ast.Constant):
                import re as _re
                m = _re.fullmatch(r'\.(\d+)([gfe])', str(spec.values[0].value))
                if m:
                    v = self.eval(fv.value, fr)
                    if is_conc_num(v) or isinstance(v, Sym) and v.k in ('int', 'real'):
                        return self.lib.formatted_number(self, v, int(m.group(1)), m.group(2))
        parts = []
        for p in node.values:
            if isinstance(p, ast.Constant):
                parts.append(str(p.value))
            elif isinstance(p, ast.FormattedValue):
                try:
                    self.ctx.pure += 1
                    try:
                        v = self.eval(p.value, fr)
                    finally:
                        self.ctx.pure -= 1
                except (NotPure, OutOfSubset, RaiseSignal):
                    return Opaque('fstring')
                if isinstance(v, str) and p.format_spec is None:
                    parts.append(v)
                elif isinstance(v, int) and not isinstance(v, bool) and p.format_spec is None:
                    parts.append(str(v))
                else:
                    return Opaque('fstring')
        return ''.join(parts)

    def e_Tuple(self, node, fr):
        return tuple(self._elts(node.elts, fr))

    def e_List(self, node, fr):
        return list(self._elts(node.elts, fr))

    def e_Set(self, node, fr):
        vals = self._elts(node.elts, fr)
        if all(isinstance(v, (str, int)) for v in vals):
            return set(vals)
        raise OutOfSubset('set of symbolic values')

    def _elts(self, elts, fr):
        out = []
        for e in elts:
            if isinstance(e, ast.Starred):
                out.extend(self.iterate(self.eval(e.value, fr)))
            else:
                out.append(self.eval(e, fr))
        return out

    def e_Dict(self, node, fr):
        d = {}
        for k, v in zip(node.keys, node.values):
            if k is None:
                src = self.eval(v, fr)
                if not isinstance(src, dict):
                    raise OutOfSubset('** of non-dict')
                d.update(src)
                continue
            kv = self.eval(k, fr)
            if isinstance(kv, Sym):
                raise OutOfSubset('dict literal with symbolic key')
            d[kv] = self.eval(v, fr)
        return d

    def e_Lambda(self, node, fr):
        return Closure(node, fr, (fr.func.qual if fr.func else fr.mod.name) + '.<lambda>')

    def e_Slice(self, node, fr):
        return SliceVal(self.eval(node.lower, fr) if node.lower else None,
                        self.eval(node.upper, fr) if node.upper else None,
                        self.eval(node.step, fr) if node.step else None)

    def e_UnaryOp(self, node, fr):
        v = self.eval(node.operand, fr)
        if isinstance(node.op, ast.Not):
            return ops.lnot(ops.truthy(v))
        if isinstance(node.op, ast.USub):
            if isinstance(v, PvObject):
                return v.pv_binop(self, '*', -1, False)
            return self.lib.elementwise1(self, ops.neg, v)
        if isinstance(node.op, ast.UAdd):
            return v
        if isinstance(node.op, ast.Invert):
            return self.lib.elementwise1(self, lambda x: ops.lnot(ops.truthy(x)), v)
        raise OutOfSubset('unary op')

    def e_BinOp(self, node, fr):
        op = BINOPS.get(type(node.op))
        if op is None:
            if isinstance(node.op, (ast.BitAnd, ast.BitOr)):
                a = self.eval(node.left, fr)
                b = self.eval(node.right, fr)
                f = ops.land if isinstance(node.op, ast.BitAnd) else ops.lor
                return self.lib.elementwise2(self, lambda x, y: f(ops.truthy(x), ops.truthy(y)), a, b)
            raise OutOfSubset(f'binary operator {type(node.op).__name__}')
        a = self.eval(node.left, fr)
        b = self.eval(node.right, fr)
        return self.binop(op, a, b)

    def binop(self, op, a, b):
        if isinstance(a, PvObject):
            return a.pv_binop(self, op, b, False)
        if isinstance(b, PvObject):
            return b.pv_binop(self, op, a, True)
        if isinstance(a, str) and isinstance(b, str) and op == '+':
            return a + b
        if isinstance(a, str) and op == '%':
            return Opaque('str%')
        if isinstance(a, (list, tuple)) and isinstance(b, (list, tuple)) and op == '+' and type(a) is type(b):
            return a + b
        if isinstance(a, list) and isinstance(b, int) and op == '*':
            return a * b
        if (isinstance(a, Arr) and not a.np) or (isinstance(b, Arr) and not b.np):
            if op == '+':
                return self.lib.list_concat(self, a, b)
            raise OutOfSubset(f'list {op}')
        if isinstance(a, (Vec, Arr)) or isinstance(b, (Vec, Arr)):
            if op == '/' and self.lib.NPVEC[0] is not None:
                # numpy array division: x/0 gives inf/nan with a warning, never an exception
                return self.lib.elementwise2(self, self.lib.NPVEC[0].np_div, a, b)
            return self.lib.elementwise2(self, lambda x, y: self.scalar_binop(op, x, y), a, b)
        if isinstance(a, Opaque) or isinstance(b, Opaque):
            if op in ('+', '%'):
                return Opaque('text')          # log-message construction; the result stays uninspectable
            raise OutOfSubset('arithmetic on an opaque value')
        return self.scalar_binop(op, a, b)

    def scalar_binop(self, op, a, b):
        if op == '/' and self.cfg.extra.get('np_scalar_div') and self.lib.NPVEC[0] is not None:
            # indicator mode: float division by a symbolic zero yields inf/nan (numpy scalars), not an exception
            return self.lib.NPVEC[0].np_div(a, b)
        if op in ('/', '//', '%'):
            z = ops.equal(b, 0)
            if z is True:
                raise RaiseSignal('ZeroDivisionError', 'division by zero')
            if z is not False:
                if self.ctx.pure:
                    # contract clauses / speculative evaluation: fine when the divisor cannot be zero here
                    if self.ctx.feasible(z3bool(z)):
                        raise NotPure()
                elif self.ctx.branch(z):
                    raise RaiseSignal('ZeroDivisionError', 'division by zero')
        if a is None or b is None:
            raise RaiseSignal('TypeError', f'unsupported operand None for {op}')
        return ops.arith(op, a, b)

    def e_BoolOp(self, node, fr):
        is_and = isinstance(node.op, ast.And)
        return self._boolop(node.values, is_and, fr)

    def _boolop(self, values, is_and, fr):
        a = self.eval(values[0], fr)
        if len(values) == 1:
            return a
        ta = ops.truthy(a)
        if isinstance(ta, bool):
            if ta == is_and:
                return self._boolop(values[1:], is_and, fr)
            return a
        # symbolic: try to evaluate the rest without effects and merge
        try:
            self.ctx.pure += 1
            try:
                b = self._boolop(values[1:], is_and, fr)
            finally:
                self.ctx.pure -= 1
            a_b = isinstance(a, bool) or (isinstance(a, Sym) and a.k == 'bool')
            b_b = isinstance(b, bool) or (isinstance(b, Sym) and b.k == 'bool')
            if a_b and b_b:
                return ops.land(ta, b) if is_and else ops.lor(ta, b)
            # general Python semantics: `a and b` is `b if a else a`
            return ops.ite(ta.t, b, a) if is_and else ops.ite(ta.t, a, b)
        except (NotPure, ops.NotMergeable):
            pass
        except RaiseSignal:
            if self.ctx.pure:
                raise NotPure()
        if self.ctx.branch(ta) == is_and:
            return self._boolop(values[1:], is_and, fr)
        return a

    def e_IfExp(self, node, fr):
        c = ops.truthy(self.eval(node.test, fr))
        if isinstance(c, bool):
            return self.eval(node.body if c else node.orelse, fr)
        try:
            self.ctx.pure += 1
            try:
                a = self.eval(node.body, fr)
                b = self.eval(node.orelse, fr)
            finally:
                self.ctx.pure -= 1
            return ops.ite(c.t, a, b)
        except (NotPure, ops.NotMergeable):
            pass
        except RaiseSignal:
            if self.ctx.pure:
                raise NotPure()
        if self.ctx.branch(c):
            return self.eval(node.body, fr)
        return self.eval(node.orelse, fr)

    def e_Compare(self, node, fr):
        left = self.eval(node.left, fr)
        res = True
        for op, rn in zip(node.ops, node.comparators):
            right = self.eval(rn, fr)
            r = self.compare(CMPOPS[type(op)], left, right)
            if isinstance(r, (Vec, Arr)):
                if len(node.ops) != 1:
                    raise OutOfSubset('chained array comparison')
                return r
            if isinstance(r, PvObject):
                if len(node.ops) != 1:
                    raise OutOfSubset('chained series comparison')
                return r
            res = ops.land(res, r)
            if res is False:
                return False
            left = right
        return res

    def compare(self, op, a, b):
        if isinstance(a, PvObject) and op not in ('is', 'is not', 'in', 'not in'):
            return a.pv_compare(self, op, b, False)
        if isinstance(b, PvObject) and op not in ('is', 'is not', 'in', 'not in'):
            return b.pv_compare(self, op, a, True)
        if op in ('in', 'not in'):
            r = self.lib.contains(self, b, a)
            return r if op == 'in' else ops.lnot(r)
        if op not in ('is', 'is not') and (isinstance(a, (Vec, Arr)) and (a.np if isinstance(a, Arr) else True)
                                           or isinstance(b, (Vec, Arr)) and (b.np if isinstance(b, Arr) else True)):
            return self.lib.elementwise2(self, lambda x, y: ops.compare(op, x, y), a, b)
        if isinstance(a, (TypeRef,)) or isinstance(b, (TypeRef,)):
            r = isinstance(a, TypeRef) and isinstance(b, TypeRef) and a.name == b.name
            if op in ('is', '=='):
                return r
            if op in ('is not', '!='):
                return not r
        if op in ('<', '<=', '>', '>=') and (a is None or b is None):
            raise RaiseSignal('TypeError', f'{op} not supported with None')
        return ops.compare(op, a, b)

    def e_Attribute(self, node, fr):
        v = self.eval(node.value, fr)
        return self.get_attr(v, node.attr)

    def e_Subscript(self, node, fr):
        v = self.eval(node.value, fr)
        idx = self.eval(node.slice, fr)
        return self.lib.getitem(self, v, idx, self._numba(fr), node)

    def _numba(self, fr):
        return fr.func is not None and fr.func.qual in self.cfg.numba

    def e_Starred(self, node, fr):
        raise OutOfSubset('starred expression')

    def e_ListComp(self, node, fr):
        return self._comp(node, fr, lambda f: self.eval(node.elt, f))

    def e_GeneratorExp(self, node, fr):
        return self._comp(node, fr, lambda f: self.eval(node.elt, f))

    def e_SetComp(self, node, fr):
        vals = self._comp(node, fr, lambda f: self.eval(node.elt, f))
        return set(vals)

    def e_DictComp(self, node, fr):
        pairs = self._comp(node, fr, lambda f: (self.eval(node.key, f), self.eval(node.value, f)))
        return dict(pairs)

    def _comp(self, node, fr, mk):
        if len(node.generators) == 1:
            g = node.generators[0]
            it = self.eval(g.iter, fr)
            sym = self.lib.symbolic_iter(it)
            if sym is not None:
                # comprehension over a sequence of symbolic length: a map (no filter) becomes a closure array
                if g.ifs:
                    raise OutOfSubset('filtered comprehension over a symbolic-length sequence')
                n, elem = sym

                def fn(k, g=g, fr=fr, elem=elem, mk=mk):
                    f2 = Frame(fr.mod, {}, fr.func, parent=fr, self_obj=fr.self_obj)
                    self.assign(g.target, elem(k), f2)
                    self.ctx.pure += 1
                    try:
                        return mk(f2)
                    except NotPure:
                        raise OutOfSubset('effectful element expression in symbolic comprehension')
                    finally:
                        self.ctx.pure -= 1
                return Arr(n, fn, np=False)
        out = []

        def rec(i, f):
            if i == len(node.generators):
                out.append(mk(f))
                return
            g = node.generators[i]
            for item in self.iterate(self.eval(g.iter, f)):
                f2 = Frame(f.mod, {}, f.func, parent=f, self_obj=f.self_obj)
                self.assign(g.target, item, f2)
                ok = True
                for cond in g.ifs:
                    if not self.ctx.branch(ops.truthy(self.eval(cond, f2))):
                        ok = False
                        break
                if ok:
                    rec(i + 1, f2)
        rec(0, fr)
        return out

    def e_Call(self, node, fr):
        # logging / printing: assumption A-3 (no effect on verified state); arguments are not evaluated
        fname = self._static_name(node.func)
        if fname is not None and self.lib.is_silent_call(fname):
            return None
        if isinstance(node.func, ast.Name) and node.func.id == 'super' and not node.args:
            if fr.func is None or fr.func.cls is None:
                raise OutOfSubset('super() outside a method')
            return SuperRef(fr.self_obj, fr.func.cls)
        f = self.eval(node.func, fr)
        args = []
        for a in node.args:
            if isinstance(a, ast.Starred):
                args.extend(self.iterate(self.eval(a.value, fr)))
            else:
                args.append(self.eval(a, fr))
        kwargs = {}
        for kw in node.keywords:
            if kw.arg is None:
                d = self.eval(kw.value, fr)
                if not isinstance(d, dict):
                    raise OutOfSubset('** of non-dict in call')
                kwargs.update(d)
            else:
                kwargs[kw.arg] = self.eval(kw.value, fr)
        return self.call(f, args, kwargs, node)

    def _static_name(self, f):
        parts = []
        while isinstance(f, ast.Attribute):
            parts.append(f.attr)
            f = f.value
        if isinstance(f, ast.Name):
            parts.append(f.id)
            return '.'.join(reversed(parts))
        return None

    # ------------------------------------------------------------------ calls
    def call(self, f, args, kwargs=None, node=None):
        kwargs = kwargs or {}
        if isinstance(f, Builtin):
            return f.fn(self, args, kwargs)
        if isinstance(f, RepoFunc):
            return self.call_repo(f, args, kwargs)
        if isinstance(f, BoundMethod):
            return self.call_repo(f.func, [f.obj] + list(args), kwargs, self_obj=f.obj)
        if isinstance(f, RepoClass):
            return self.instantiate(f, args, kwargs)
        if isinstance(f, Closure):
            return self.call_closure(f, args, kwargs)
        if isinstance(f, ExtRef):
            b = self.lib.ext_call(f.name)
            if b is None:
                raise OutOfSubset(f'call of un-modelled external {f.name}')
            return b(self, args, kwargs)
        if isinstance(f, TypeRef):
            return self.lib.construct_type(self, f, args, kwargs)
        if isinstance(f, ExcRef):
            return ExcObj(f.name, tuple(args))
        raise OutOfSubset(f'call of {f!r}')

    def bind(self, fnode, args, kwargs, fr_defaults):
        a = fnode.args
        params = [p.arg for p in a.posonlyargs + a.args]
        env = {}
        args = list(args)
        if len(args) > len(params) and not a.vararg:
            raise RaiseSignal('TypeError', 'too many positional arguments')
        for p, v in zip(params, args):
            env[p] = v
        if a.vararg:
            env[a.vararg.arg] = tuple(args[len(params):])
        kw = dict(kwargs)
        for p in params[len(args):]:
            if p in kw:
                env[p] = kw.pop(p)
        defaults = a.defaults
        for p, d in zip(params[len(params) - len(defaults):], defaults):
            if p not in env:
                env[p] = self.eval(d, fr_defaults)
        for p, d in zip(a.kwonlyargs, a.kw_defaults):
            if p.arg in kw:
                env[p.arg] = kw.pop(p.arg)
            elif d is not None:
                env[p.arg] = self.eval(d, fr_defaults)
            else:
                raise RaiseSignal('TypeError', f'missing kw-only {p.arg}')
        if a.kwarg:
            env[a.kwarg.arg] = kw
        elif kw:
            raise RaiseSignal('TypeError', f'unexpected keyword {list(kw)}')
        for p in params:
            if p not in env:
                raise RaiseSignal('TypeError', f'missing argument {p}')
        return env

    def call_repo(self, func, args, kwargs=None, self_obj=None):
        kwargs = kwargs or {}
        if func.qual in self.cfg.extra.get('trace', ()):
            self.ctx.trace.append((func.qual, tuple(args), dict(kwargs)))
        ov = self.cfg.overrides.get(func.qual)
        if ov is not None:
            return ov(self, args, kwargs)
        if self.depth >= self.cfg.max_inline_depth:
            raise OutOfSubset(f'inline depth exceeded at {func.qual}')
        node = func.node
        if self.cfg.mutate is not None:
            node = self.cfg.mutate(func) or node
        fr0 = Frame(func.mod)
        env = self.bind(node, args, kwargs, fr0)
        if self_obj is None and func.cls is not None and args and not func.is_static:
            self_obj = args[0]
        fr = Frame(func.mod, env, func, self_obj=self_obj)
        self.depth += 1
        try:
            self.exec_block(node.body, fr)
        except ReturnSignal as r:
            return r.value
        except OutOfSubset as e:
            if not getattr(e, 'annotated', False):
                e.args = (f'{e.args[0] if e.args else ""} [in {func.qual}]',)
                e.annotated = 1
            elif e.annotated < 4:
                e.args = (f'{e.args[0]} <- {func.qual}',)
                e.annotated += 1
            raise
        finally:
            self.depth -= 1
        return None

    def call_closure(self, c, args, kwargs):
        fr0 = c.frame
        env = self.bind(c.node, args, kwargs, fr0)
        fr = Frame(fr0.mod, env, fr0.func, parent=fr0, self_obj=fr0.self_obj)
        if isinstance(c.node, ast.Lambda):
            return self.eval(c.node.body, fr)
        self.depth += 1
        try:
            self.exec_block(c.node.body, fr)
        except ReturnSignal as r:
            return r.value
        finally:
            self.depth -= 1
        return None

    def mro(self, cls):
        out = [cls]
        for b in cls.node.bases:
            try:
                bv = self.eval(b, Frame(cls.mod))
            except OutOfSubset:
                continue
            if isinstance(bv, RepoClass):
                for c in self.mro(bv):
                    if c not in out:
                        out.append(c)
        return out

    def find_member(self, cls, name, after=None):
        chain = self.mro(cls)
        if after is not None:
            chain = chain[chain.index(after) + 1:]
        for c in chain:
            if name in c.members:
                return c, c.members[name]
        return None, None

    def is_exception_class(self, cls):
        for c in self.mro(cls):
            for b in c.node.bases:
                if isinstance(b, ast.Name) and b.id in BUILTIN_EXC:
                    return True
        return False

    def instantiate(self, cls, args, kwargs):
        ov = self.cfg.overrides.get(cls.qual)
        if ov is not None:
            return ov(self, args, kwargs)
        if self.is_exception_class(cls):
            return ExcObj(cls.name, tuple(args))
        o = Obj(cls, name=cls.name)
        _, init = self.find_member(cls, '__init__')
        if isinstance(init, RepoFunc):
            self.call_repo(init, [o] + list(args), kwargs, self_obj=o)
        elif args or kwargs:
            raise OutOfSubset(f'{cls.qual}() with arguments but no __init__ in the repo')
        return o

    # ------------------------------------------------------------------ attributes
    def get_attr(self, v, name):
        if isinstance(v, PvObject):
            return v.pv_getattr(self, name)
        if isinstance(v, Obj):
            if name in v.f:
                return v.f[name]
            if v.cls is not None:
                c, m = self.find_member(v.cls, name)
                if isinstance(m, RepoFunc):
                    ov = self.cfg.overrides.get(m.qual)
                    if m.is_property:
                        if ov is not None:
                            return ov(self, [v], {})
                        return self.call_repo(m, [v], {}, self_obj=v)
                    if m.is_static:
                        return m
                    return BoundMethod(v, m)
                if m is not None:
                    return self.eval(m.value, Frame(c.mod))
            raise RaiseSignal('AttributeError', f'{v!r} has no attribute {name}')
        if isinstance(v, ModRef):
            if v.repo:
                mod = self.repo.module(v.name)
                if name in mod.top or f'{v.name}.{name}' in self.cfg.globals:
                    return self.resolve_global(mod, name)
                if self.repo.has_module(f'{v.name}.{name}'):
                    return ModRef(f'{v.name}.{name}', True)
                raise OutOfSubset(f'{v.name}.{name} not found')
            return self.ext(f'{v.name}.{name}')
        if isinstance(v, ExtRef):
            return self.ext(f'{v.name}.{name}')
        if isinstance(v, RepoClass):
            qn = f'{v.qual}.{name}'
            if qn in self.cfg.globals:
                if qn not in self.ctx.globals:
                    self.ctx.globals[qn] = self.cfg.globals[qn](self)
                return self.ctx.globals[qn]
            c, m = self.find_member(v, name)
            if isinstance(m, RepoFunc):
                return m
            if m is not None:
                return self.eval(m.value, Frame(c.mod))
            raise RaiseSignal('AttributeError', f'class {v.qual} has no attribute {name}')
        if isinstance(v, SuperRef):
            c, m = self.find_member(v.obj.cls, name, after=v.cls)
            if isinstance(m, RepoFunc):
                return BoundMethod(v.obj, m)
            if name == '__init__':
                return Builtin('object.__init__', lambda i, a, k: None)
            raise OutOfSubset(f'super().{name}')
        if isinstance(v, SliceVal):
            if name == 'indices':
                def indices(i, a, k, v=v):
                    start, stop = self.lib.slice_bounds(v, a[0])
                    return (start, stop, 1)
                return Builtin('slice.indices', indices)
            return getattr(v, name)
        if isinstance(v, ExcObj):
            if name == 'args':
                return v.args
            raise OutOfSubset('exception attribute ' + name)
        return self.lib.method_of(self, v, name)

    def set_attr(self, v, name, val):
        if self.ctx.pure:
            raise NotPure()
        if isinstance(v, Obj):
            if v.cls is not None and name not in v.f:
                c, m = self.find_member(v.cls, name + '.setter')
                if isinstance(m, RepoFunc):
                    self.call_repo(m, [v, val], {}, self_obj=v)
                    return
            v.f[name] = val
            return
        raise OutOfSubset(f'attribute store on {kind_of(v)}')

    # ------------------------------------------------------------------ iteration
    def iterate(self, v):
        """Concrete-length iteration -> Python list of items."""
        if isinstance(v, self.lib.LazyFilter):
            return v.items(self)
        if isinstance(v, (list, tuple)):
            return list(v)
        if isinstance(v, Vec):
            return list(v.e)
        if isinstance(v, dict):
            return list(v.keys())
        if isinstance(v, set):
            return sorted(v, key=repr)
        if isinstance(v, str):
            return list(v)
        if isinstance(v, RangeVal):
            if all(isinstance(x, int) for x in (v.lo, v.hi, v.step)):
                r = range(v.lo, v.hi, v.step)
                if len(r) > self.cfg.unroll_limit:
                    raise OutOfSubset(f'concrete loop of {len(r)} iterations exceeds the unroll limit')
                return list(r)
            raise OutOfSubset('iteration over a symbolic range outside a for statement')
        if isinstance(v, Arr):
            if isinstance(v.n, int):
                return [v.fn(k) for k in range(v.n)]
            raise OutOfSubset('iteration over a symbolic-length array outside a for statement')
        raise OutOfSubset(f'iteration over {kind_of(v)}')

    # ------------------------------------------------------------------ statements
    def exec_block(self, stmts, fr):
        for st in stmts:
            m = getattr(self, 's_' + type(st).__name__, None)
            if m is None:
                raise OutOfSubset(f'statement {type(st).__name__} (line {st.lineno})')
            m(st, fr)

    def s_Expr(self, st, fr):
        if isinstance(st.value, ast.Constant):
            return
        self.eval(st.value, fr)

    def s_Pass(self, st, fr):
        pass

    def s_Import(self, st, fr):
        for a in st.names:
            if a.asname:
                fr.l[a.asname] = self.modref(a.name)
            else:
                fr.l[a.name.split('.')[0]] = self.modref(a.name.split('.')[0])

    def s_ImportFrom(self, st, fr):
        m = st.module or ''
        if st.level:
            parts = fr.mod.name.split('.')
            if not fr.mod.is_pkg:
                parts = parts[:-1]
            parts = parts[:len(parts) - (st.level - 1)]
            m = '.'.join(parts + ([st.module] if st.module else []))
        for a in st.names:
            nm = a.asname or a.name
            if self.repo.has_module(m):
                pm = self.repo.module(m)
                if a.name in pm.top or f'{m}.{a.name}' in self.cfg.globals:
                    fr.l[nm] = self.resolve_global(pm, a.name)
                    continue
            if self.repo.has_module(f'{m}.{a.name}'):
                fr.l[nm] = ModRef(f'{m}.{a.name}', True)
            elif self.repo.has_module(m):
                raise OutOfSubset(f'cannot import {a.name} from {m}')
            else:
                fr.l[nm] = self.ext(f'{m}.{a.name}')

    def s_Global(self, st, fr):
        fr.globals_decl.update(st.names)

    def s_Nonlocal(self, st, fr):
        raise OutOfSubset('nonlocal')

    def s_FunctionDef(self, st, fr):
        fr.l[st.name] = Closure(st, fr, (fr.func.qual if fr.func else fr.mod.name) + '.' + st.name)

    def s_Return(self, st, fr):
        raise ReturnSignal(self.eval(st.value, fr) if st.value is not None else None)

    def s_Break(self, st, fr):
        raise BreakSignal()

    def s_Continue(self, st, fr):
        raise ContinueSignal()

    def s_Assert(self, st, fr):
        c = ops.truthy(self.eval(st.test, fr))
        if not self.ctx.branch(c):
            raise RaiseSignal('AssertionError')

    def s_Delete(self, st, fr):
        for t in st.targets:
            if isinstance(t, ast.Subscript):
                c = self.eval(t.value, fr)
                k = self.eval(t.slice, fr)
                if isinstance(c, dict) and not isinstance(k, Sym):
                    if self.ctx.pure:
                        raise NotPure()
                    if k not in c:
                        raise RaiseSignal('KeyError', repr(k))
                    del c[k]
                    continue
            elif isinstance(t, ast.Name):
                fr.l.pop(t.id, None)
                continue
            raise OutOfSubset('del')

    def s_Raise(self, st, fr):
        if st.exc is None:
            if fr.cur_exc is not None:
                raise fr.cur_exc
            raise OutOfSubset('bare raise outside handler')
        name = None
        e = st.exc
        if isinstance(e, ast.Call):
            name = self._static_name(e.func)
        else:
            name = self._static_name(e)
            if name is not None and name in fr.l and isinstance(fr.l[name], ExcObj):
                raise RaiseSignal(fr.l[name].name)
        if name is None:
            raise OutOfSubset('raise of a computed exception')
        raise RaiseSignal(name.split('.')[-1], detail=f'line {st.lineno}')

    def exc_matches(self, exc_name, handler_type, fr):
        if handler_type is None:
            return True
        names = []
        if isinstance(handler_type, ast.Tuple):
            for e in handler_type.elts:
                names.append(self._static_name(e))
        else:
            names.append(self._static_name(handler_type))
        names = [n.split('.')[-1] for n in names if n]
        cur = exc_name
        chain = [cur]
        while cur in EXC_PARENTS:
            cur = EXC_PARENTS[cur]
            chain.append(cur)
        chain += ['Exception', 'BaseException']
        return any(n in chain for n in names)

    def s_Try(self, st, fr):
        try:
            try:
                self.exec_block(st.body, fr)
            except RaiseSignal as e:
                for h in st.handlers:
                    if self.exc_matches(e.exc, h.type, fr):
                        if h.name:
                            fr.l[h.name] = ExcObj(e.exc)
                        prev = fr.cur_exc
                        fr.cur_exc = e
                        try:
                            self.exec_block(h.body, fr)
                        finally:
                            fr.cur_exc = prev
                        break
                else:
                    raise
            else:
                self.exec_block(st.orelse, fr)
        finally:
            if st.finalbody:
                self.exec_block(st.finalbody, fr)

    def s_With(self, st, fr):
        for item in st.items:
            v = self.eval(item.context_expr, fr)
            if item.optional_vars is not None:
                self.assign(item.optional_vars, v, fr)
        self.exec_block(st.body, fr)

    def s_If(self, st, fr):
        c = ops.truthy(self.eval(st.test, fr))
        if not isinstance(c, bool) and self.cfg.extra.get('merge_ifs') and self._mergeable(st):
            if self._merge_if(st, fr, c):
                return
        if self.ctx.branch(c):
            self.exec_block(st.body, fr)
        else:
            self.exec_block(st.orelse, fr)

    # ---- if-merging (indicator kernels: data-dependent branches inside long loops) -------------------------
    PURE_CALLS = {'abs', 'min', 'max', 'float', 'int', 'np.isnan', 'np.abs', 'np.fabs', 'math.isnan', 'np.sqrt', 'math.sqrt',
                  'np.maximum', 'np.minimum', 'math.fabs', 'np.log', 'np.exp', 'math.log', 'math.exp', 'len', 'round'}

    def _mergeable(self, st):
        cache = self.__dict__.setdefault('_merge_cache', {})
        k = id(st)
        if k not in cache:
            cache[k] = self._simple_block(st.body) and self._simple_block(st.orelse)
        return cache[k]

    def _simple_block(self, stmts):
        for s in stmts:
            if isinstance(s, ast.Pass):
                continue
            if isinstance(s, ast.If):
                if not (self._simple_expr(s.test) and self._simple_block(s.body) and self._simple_block(s.orelse)):
                    return False
                continue
            if isinstance(s, (ast.Assign, ast.AugAssign)):
                targets = s.targets if isinstance(s, ast.Assign) else [s.target]
                for t in targets:
                    if isinstance(t, ast.Name):
                        continue
                    if isinstance(t, ast.Subscript) and isinstance(t.value, ast.Name) and self._simple_expr(t.slice):
                        continue
                    return False
                if not self._simple_expr(s.value):
                    return False
                continue
            return False
        return True

    def _simple_expr(self, e):
        for n in ast.walk(e):
            if isinstance(n, ast.Call):
                nm = self._static_name(n.func)
                if nm not in self.PURE_CALLS:
                    return False
            elif isinstance(n, (ast.Lambda, ast.ListComp, ast.GeneratorExp, ast.DictComp, ast.SetComp, ast.Await, ast.Yield,
                                ast.NamedExpr)):
                return False
        return True

    def _touched(self, stmts, names, arrays):
        for s in stmts:
            if isinstance(s, ast.If):
                self._touched(s.body, names, arrays)
                self._touched(s.orelse, names, arrays)
            elif isinstance(s, (ast.Assign, ast.AugAssign)):
                for t in (s.targets if isinstance(s, ast.Assign) else [s.target]):
                    if isinstance(t, ast.Name):
                        names.add(t.id)
                    else:
                        arrays.add(t.value.id)

    def _merge_if(self, st, fr, c):
        names, arrays = set(), set()
        self._touched(st.body, names, arrays)
        self._touched(st.orelse, names, arrays)
        # arrays written in a branch must be local, concrete-length vectors that nothing else aliases
        vecs = {}
        for a in arrays:
            v = fr.l.get(a)
            if not isinstance(v, Vec) or v.view:
                return False
            vecs[a] = v
        ids = [id(v) for v in fr.l.values() if isinstance(v, Vec)]
        if any(ids.count(id(v)) > 1 for v in vecs.values()):
            return False
        before = {n: fr.l[n] for n in names if n in fr.l}
        saved = {a: list(v.e) for a, v in vecs.items()}

        def run(block, cond):
            for a, v in vecs.items():
                v.e = list(saved[a])
            for n in names:
                if n in before:
                    fr.l[n] = before[n]
                else:
                    fr.l.pop(n, None)
            self.ctx.pure += 1
            self.ctx.merge = getattr(self.ctx, 'merge', 0) + 1
            self.ctx.s.push()
            self.ctx.s.add(cond)          # side conditions inside the branch (division by zero ...) are decided under its guard
            try:
                self.exec_block(block, fr)
            finally:
                self.ctx.s.pop()
                self.ctx.pure -= 1
                self.ctx.merge -= 1
            return {n: fr.l.get(n, _UNBOUND) for n in names}, {a: list(v.e) for a, v in vecs.items()}
        try:
            va, aa = run(st.body, z3bool(c))
            vb, ab = run(st.orelse, z3.Not(z3bool(c)))
            merged = {}
            for n in names:
                x, y = va[n], vb[n]
                if x is _UNBOUND or y is _UNBOUND:
                    if x is y:
                        continue
                    # a branch-local temporary: it keeps the value of the branch that defines it (reading it after the
                    # other branch would be a NameError in Python)
                    merged[n] = y if x is _UNBOUND else x
                    continue
                merged[n] = x if x is y else ops.ite(c.t, x, y)
            marr = {}
            for a in vecs:
                marr[a] = [x if x is y else ops.ite(c.t, x, y) for x, y in zip(aa[a], ab[a])]
        except (NotPure, ops.NotMergeable, RaiseSignal, OutOfSubset):
            for a, v in vecs.items():
                v.e = list(saved[a])
            for n in names:
                if n in before:
                    fr.l[n] = before[n]
                else:
                    fr.l.pop(n, None)
            return False
        for n, v in merged.items():
            fr.l[n] = v
        for a, v in vecs.items():
            v.e = marr[a]
        return True

    def s_Assign(self, st, fr):
        v = self.eval(st.value, fr)
        for t in st.targets:
            self.assign(t, v, fr)

    def s_AnnAssign(self, st, fr):
        if st.value is not None:
            self.assign(st.target, self.eval(st.value, fr), fr)

    def s_AugAssign(self, st, fr):
        op = BINOPS.get(type(st.op))
        if op is None:
            raise OutOfSubset('augmented operator')
        t = st.target
        if isinstance(t, ast.Name):
            cur = self.lookup(t.id, fr)
            self.assign(t, self.aug(op, cur, self.eval(st.value, fr)), fr)
        elif isinstance(t, ast.Attribute):
            o = self.eval(t.value, fr)
            cur = self.get_attr(o, t.attr)
            self.set_attr(o, t.attr, self.aug(op, cur, self.eval(st.value, fr)))
        elif isinstance(t, ast.Subscript):
            o = self.eval(t.value, fr)
            k = self.eval(t.slice, fr)
            cur = self.lib.getitem(self, o, k, self._numba(fr), t)
            self.lib.setitem(self, o, k, self.aug(op, cur, self.eval(st.value, fr)), self._numba(fr), t)
        else:
            raise OutOfSubset('augmented target')

    def aug(self, op, cur, v):
        if isinstance(cur, list) and op == '+':
            if self.ctx.pure:
                raise NotPure()
            cur.extend(self.iterate(v))
            return cur
        return self.binop(op, cur, v)

    def assign(self, t, v, fr):
        if isinstance(t, ast.Name):
            if t.id in fr.globals_decl:
                if self.ctx.pure:
                    raise NotPure()
                self.ctx.globals[f'{fr.mod.name}.{t.id}'] = v
            else:
                fr.l[t.id] = v
        elif isinstance(t, (ast.Tuple, ast.List)):
            items = self.iterate(v)
            if len(items) != len(t.elts):
                raise RaiseSignal('ValueError', 'unpack length mismatch')
            for e, x in zip(t.elts, items):
                self.assign(e, x, fr)
        elif isinstance(t, ast.Attribute):
            self.set_attr(self.eval(t.value, fr), t.attr, v)
        elif isinstance(t, ast.Subscript):
            o = self.eval(t.value, fr)
            k = self.eval(t.slice, fr)
            self.lib.setitem(self, o, k, v, self._numba(fr), t)
        else:
            raise OutOfSubset('assignment target ' + type(t).__name__)

    # ------------------------------------------------------------------ loops
    def _loop_key(self, st, fr):
        if fr.func is None:
            return None
        loops = getattr(fr.func, '_loops', None)
        if loops is None:
            loops = [n for n in ast.walk(fr.func.node) if isinstance(n, (ast.For, ast.While))]
            loops.sort(key=lambda n: (n.lineno, n.col_offset))
            fr.func._loops = loops
        for i, n in enumerate(loops):
            if n.lineno == st.lineno and n.col_offset == st.col_offset and type(n) is type(st):
                return (fr.func.qual, i)
        return None

    def s_For(self, st, fr):
        it = self.eval(st.iter, fr)
        sym = None
        if isinstance(it, RangeVal) and not all(isinstance(x, int) for x in (it.lo, it.hi, it.step)):
            sym = 'range'
        elif isinstance(it, Arr) and not isinstance(it.n, int):
            sym = 'arr'
        elif isinstance(it, self.lib.EnumVal) and self.lib.symbolic_iter(it.seq) is not None and not isinstance(self.lib.symbolic_iter(it.seq)[0], int):
            sym = 'enum'
        if sym is not None:
            return self.cut_for(st, fr, it, sym)
        if isinstance(it, list):
            # Python's list iterator is index based and live: items appended (or removed) by the body are seen
            def live(lst=it):
                k = 0
                while k < len(lst):
                    if k > self.cfg.unroll_limit:
                        raise OutOfSubset('concrete loop exceeds the unroll limit')
                    yield lst[k]
                    k += 1
            items = live()
        else:
            items = self.iterate(it) if not isinstance(it, self.lib.EnumVal) else self.lib.enum_items(self, it)
        broke = False
        for x in items:
            self.assign(st.target, x, fr)
            try:
                self.exec_block(st.body, fr)
            except BreakSignal:
                broke = True
                break
            except ContinueSignal:
                continue
        if not broke:
            self.exec_block(st.orelse, fr)

    def s_While(self, st, fr):
        key = self._loop_key(st, fr)
        if key in self.cfg.invariants:
            return self.cut_while(st, fr, key)
        n = 0
        while True:
            c = ops.truthy(self.eval(st.test, fr))
            if not self.ctx.branch(c):
                self.exec_block(st.orelse, fr)
                return
            try:
                self.exec_block(st.body, fr)
            except BreakSignal:
                return
            except ContinueSignal:
                pass
            n += 1
            if n > self.cfg.unroll_limit:
                raise OutOfSubset('while loop without invariant exceeds the unroll limit')

    # write set ---------------------------------------------------------
    MUTATORS = {'append', 'extend', 'pop', 'clear', 'insert', 'remove', 'sort', 'add', 'update', 'reverse',
                'delete', 'flush', 'append_multiple', 'setdefault'}

    def write_set(self, body):
        names, subs, attrs, mut = set(), set(), set(), set()

        def target(t):
            if isinstance(t, ast.Name):
                names.add(t.id)
            elif isinstance(t, (ast.Tuple, ast.List)):
                for e in t.elts:
                    target(e)
            elif isinstance(t, ast.Subscript):
                b = t.value
                while isinstance(b, ast.Subscript):
                    b = b.value
                if isinstance(b, ast.Name):
                    subs.add(b.id)
                elif isinstance(b, ast.Attribute) and isinstance(b.value, ast.Name):
                    attrs.add((b.value.id, b.attr))
                else:
                    raise OutOfSubset('loop writes through a complex subscript target')
            elif isinstance(t, ast.Attribute):
                if isinstance(t.value, ast.Name):
                    attrs.add((t.value.id, t.attr))
                else:
                    chain = []
                    b = t.value
                    while isinstance(b, ast.Attribute):
                        chain.append(b.attr)
                        b = b.value
                    if isinstance(b, ast.Name):
                        attrs.add((b.id + '.' + '.'.join(reversed(chain)), t.attr))
                    else:
                        raise OutOfSubset('loop writes through a complex attribute target')
            elif isinstance(t, ast.Starred):
                target(t.value)
        for n in body:
            for x in ast.walk(n):
                if isinstance(x, ast.Assign):
                    for t in x.targets:
                        target(t)
                elif isinstance(x, (ast.AugAssign, ast.AnnAssign)):
                    target(x.target)
                elif isinstance(x, ast.For):
                    target(x.target)
                elif isinstance(x, ast.NamedExpr):
                    target(x.target)
                elif isinstance(x, ast.comprehension):
                    pass
                elif isinstance(x, ast.Call) and isinstance(x.func, ast.Attribute) and x.func.attr in self.MUTATORS:
                    b = x.func.value
                    if isinstance(b, ast.Name):
                        mut.add(b.id)
                    elif isinstance(b, ast.Attribute) and isinstance(b.value, ast.Name):
                        attrs.add((b.value.id, b.attr))
                        mut.add((b.value.id, b.attr))
        return names, subs, attrs, mut

    def havoc_like(self, old, base, grow=False, spec=None):
        ctx = self.ctx
        if spec is not None:
            return spec(self, old)
        if isinstance(old, bool) or (isinstance(old, Sym) and old.k == 'bool'):
            return ctx.fresh_bool(base)
        if isinstance(old, int) or (isinstance(old, Sym) and old.k == 'int'):
            return ctx.fresh_int(base)
        if isinstance(old, Fraction) or old is NAN or (isinstance(old, Sym) and old.k == 'real'):
            return ctx.fresh_real(base, nan=(old is NAN or (isinstance(old, Sym) and old.nan is not None)))
        if isinstance(old, Vec):
            return Vec([self.havoc_like(e, f'{base}.{i}') for i, e in enumerate(old.e)])
        if isinstance(old, Arr):
            if old.cols is None:
                probe = old.fn(0)
                if not (is_conc_num(probe) or probe is NAN or (isinstance(probe, Sym) and probe.k in ('int', 'real'))):
                    raise OutOfSubset(f'cannot havoc array {base} of {kind_of(probe)} elements without a havoc spec')
                kind = 'int' if (isinstance(probe, int) or isinstance(probe, Sym) and probe.k == 'int') else 'real'
                nanf = probe is NAN or (isinstance(probe, Sym) and probe.nan is not None)
            else:
                kind, nanf = 'real', False
            return ctx.fresh_arr(base, n=(None if grow else old.n), np=old.np, cols=old.cols, kind=kind, nan=nanf)
        raise OutOfSubset(f'cannot havoc {base} of kind {kind_of(old)}; give a havoc spec in the sidecar')

    def havoc_writes(self, st, fr, key, loopvars=()):
        names, subs, attrs, mut = self.write_set(st.body)
        specs = self.cfg.extra.get('havoc', {}).get(key, {})
        frame_ok = set(self.cfg.extra.get('frame', {}).get(key, ()))
        entry = {}
        self._frame_checks = getattr(self, '_frame_checks', {})
        self._frame_checks[key] = []
        for n in sorted(names | subs | {m for m in mut if isinstance(m, str)}):
            if n in loopvars:
                continue
            if n in frame_ok and n not in names:
                # the sidecar claims the loop only writes this object on paths that leave the loop; checked at the back edge
                f = fr
                while f is not None and n not in f.l:
                    f = f.parent
                if f is not None:
                    self._frame_checks[key].append((n, f.l[n], self._fingerprint(f.l[n])))
                continue
            f = fr
            while f is not None and n not in f.l:
                f = f.parent
            if f is None:
                continue        # first assigned inside the loop: local to an iteration
            old = f.l[n]
            entry[n] = self.lib.snapshot(old)
            if n in names or isinstance(old, (Arr, Vec)) or n in specs:
                f.l[n] = self.havoc_like(old, n, grow=(n in mut), spec=specs.get(n))
            elif isinstance(old, (list, dict)) :
                if n in specs:
                    f.l[n] = specs[n](self, old)
                else:
                    raise OutOfSubset(f'loop mutates {kind_of(old)} {n}; give a havoc spec')
            else:
                raise OutOfSubset(f'loop mutates {n} of kind {kind_of(old)}')
        for (o, a) in sorted(x for x in attrs):
            try:
                parts = o.split('.')
                ov = self.lookup(parts[0], fr)
                for pname in parts[1:]:
                    ov = self.get_attr(ov, pname)
            except (OutOfSubset, RaiseSignal):
                continue
            if isinstance(ov, Obj) and a in ov.f:
                entry[f'{o}.{a}'] = self.lib.snapshot(ov.f[a])
                ov.f[a] = self.havoc_like(ov.f[a], f'{o}.{a}', grow=((o, a) in mut), spec=specs.get(f'{o}.{a}'))
            elif isinstance(ov, Obj):
                raise OutOfSubset(f'loop writes unknown field {o}.{a}')
            else:
                raise OutOfSubset(f'loop writes attribute of {kind_of(ov)}')
        return entry

    def _fingerprint(self, v, depth=0):
        if isinstance(v, Obj) and depth < 3:
            return ('obj', tuple((k, self._fingerprint(x, depth + 1)) for k, x in sorted(v.f.items())))
        if isinstance(v, Arr):
            return ('arr', id(v), id(v.fn), id(v.n) if not isinstance(v.n, int) else v.n)
        if isinstance(v, (list, dict)):
            return ('box', id(v), len(v))
        return ('val', id(v))

    def check_frame(self, key):
        for n, obj, fp in getattr(self, '_frame_checks', {}).get(key, []):
            if self._fingerprint(obj) != fp:
                raise OutOfSubset(f'loop {key} modifies {n} on a path that returns to the loop head (sidecar frame claim is wrong)')

    def eval_invs(self, key, fr, extra_env=None):
        inv = self.cfg.invariants.get(key)
        if inv is None:
            raise OutOfSubset(f'loop {key} has symbolic trip count and no invariant in the sidecar')
        out = []
        env0 = dict(self.cfg.extra.get('ghost', {}))
        env0.update(extra_env or {})
        f2 = Frame(fr.mod, env0, fr.func, parent=fr, self_obj=fr.self_obj)
        f2.spec_mod = self.cfg.extra.get('spec_mod')
        for j, s in enumerate(inv):
            out.append((j, s, self.eval_str(s, f2)))
        return out

    def eval_str(self, s, fr):
        node = ast.parse(s, mode='eval').body
        spec_mod = self.cfg.extra.get('spec_mod')
        if spec_mod is not None:
            # names resolve: locals -> spec module -> function's module
            f2 = Frame(spec_mod, {}, fr.func, parent=_ChainFrame(fr, self), self_obj=fr.self_obj)
            self.ctx.pure += 1
            try:
                return self.eval(node, f2)
            finally:
                self.ctx.pure -= 1
        self.ctx.pure += 1
        try:
            return self.eval(node, fr)
        finally:
            self.ctx.pure -= 1

    def cut_for(self, st, fr, it, kind):
        key = self._loop_key(st, fr)
        ctx = self.ctx
        step = 1
        if kind == 'range':
            if not (isinstance(it.step, int) and it.step >= 1):
                raise OutOfSubset('symbolic range with a non-constant or non-positive step')
            step = it.step
            lo, hi = it.lo, it.hi
            if not isinstance(st.target, ast.Name):
                raise OutOfSubset('range loop target')
            ivar = st.target.id
            elem = None
        else:
            seq = it if kind == 'arr' else it.seq
            n, elem = self.lib.symbolic_iter(seq)
            lo, hi = (0 if kind == 'arr' else 0), n
            ivar = '_k'
        qual, ordn = key
        pfx = f'{qual}.loop{ordn}'
        hi_eff = ops.vmax(lo, hi)
        if step != 1:
            # the values taken are lo + step*t; the first value >= hi ends the loop
            span = ops.vmax(ops.arith('-', hi, lo), 0)
            hi_eff = ops.arith('+', lo, ops.arith('*', step, ops.arith('//', ops.arith('+', span, step - 1), step)))
        hooks = self.cfg.extra.get('loop_hooks', {}).get(key, {})
        # entry
        fr.l[ivar] = lo
        for j, s, v in self.eval_invs(key, fr):
            ctx.prove(v, f'{pfx}.inv{j}.entry', {'inv': s})
        c = ctx.choose(2)
        entry = self.havoc_writes(st, fr, key, loopvars=(ivar,) if kind == 'range' else ())
        k = ctx.fresh_int(ivar)
        ctx.assume(ops.compare('<=', lo, k))
        ctx.assume(ops.compare('<=', k, hi_eff))
        if step != 1:
            ctx.assume(ops.equal(ops.arith('%', ops.arith('-', k, lo), step), 0))
        fr.l[ivar] = k
        env = {n + '__entry': v for n, v in entry.items() if '.' not in n}
        for j, s, v in self.eval_invs(key, fr, env):
            ctx.assume(v)
        if c == 0:
            ctx.assume(ops.compare('<', k, hi))
            ctx.cover(f'{pfx}.body')
            if 'start' in hooks:
                hooks['start'](self, fr, k)
            if kind == 'arr':
                self.assign(st.target, elem(k), fr)
            elif kind == 'enum':
                self.assign(st.target, (ops.arith('+', k, it.start), elem(k)), fr)
            try:
                self.exec_block(st.body, fr)
            except ContinueSignal:
                pass
            except BreakSignal:
                return
            if 'end' in hooks:
                hooks['end'](self, fr, k)
            fr.l[ivar] = ops.arith('+', k, step)
            self.check_frame(key)
            for j, s, v in self.eval_invs(key, fr, env):
                ctx.prove(v, f'{pfx}.inv{j}.preserved', {'inv': s})
            raise PathEnd()
        ctx.assume(ops.equal(k, hi_eff))
        if 'exit' in hooks:
            hooks['exit'](self, fr, k)
        if kind == 'range':
            # Python leaves the last iterated value in the loop variable
            fr.l[ivar] = ops.arith('-', k, step)
            fr.l[ivar + '__next'] = k
        self.exec_block(st.orelse, fr)

    def cut_while(self, st, fr, key):
        ctx = self.ctx
        qual, ordn = key
        pfx = f'{qual}.loop{ordn}'
        for j, s, v in self.eval_invs(key, fr):
            ctx.prove(v, f'{pfx}.inv{j}.entry', {'inv': s})
        c = ctx.choose(2)
        entry = self.havoc_writes(st, fr, key)
        env = {n + '__entry': v for n, v in entry.items() if '.' not in n}
        for j, s, v in self.eval_invs(key, fr, env):
            ctx.assume(v)
        cond = ops.truthy(self.eval(st.test, fr))
        if c == 0:
            ctx.assume(cond)
            ctx.cover(f'{pfx}.body')
            try:
                self.exec_block(st.body, fr)
            except ContinueSignal:
                pass
            except BreakSignal:
                return
            self.check_frame(key)
            for j, s, v in self.eval_invs(key, fr, env):
                ctx.prove(v, f'{pfx}.inv{j}.preserved', {'inv': s})
            raise PathEnd()
        ctx.assume(ops.lnot(cond))
        self.exec_block(st.orelse, fr)


_UNBOUND = object()


class _ChainFrame(Frame):
    """Adapter: lets a spec-module frame fall back to the code frame's locals and module."""
    def __init__(self, fr, interp):
        super().__init__(fr.mod, _ChainLocals(fr, interp), fr.func, parent=None, self_obj=fr.self_obj)


class _ChainLocals(dict):
    def __init__(self, fr, interp):
        super().__init__()
        self._fr = fr
        self._interp = interp

    def __contains__(self, k):
        f = self._fr
        while f is not None:
            if k in f.l:
                return True
            f = f.parent
        return False

    def __getitem__(self, k):
        f = self._fr
        while f is not None:
            if k in f.l:
                return f.l[k]
            f = f.parent
        raise KeyError(k)
