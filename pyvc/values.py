"""Value model of the pyvc symbolic interpreter.

Concrete values are plain Python objects (int, bool, str, None, Fraction for floats, tuple, list,
dict).  Floats are mathematical reals (assumption A-1): float literals are read as the decimal
they are written as (Fraction(str(x))); NaN is the singleton NAN.  Symbolic scalars are `Sym`
(z3 term + kind + optional NaN flag).  Arrays of symbolic length are `Arr` (length + element
closure); fixed-size numpy vectors are `Vec`.  Repo class instances are `Obj`.
"""
from fractions import Fraction
import z3


class OutOfSubset(Exception):
    """The code uses a construct the engine does not model: the obligation set is undecided."""


class NaNType:
    _inst = None

    def __new__(cls):
        if cls._inst is None:
            cls._inst = object.__new__(cls)
        return cls._inst

    def __repr__(self):
        return 'NAN'


NAN = NaNType()


class Sym:
    """Symbolic scalar. k in {'int','real','bool','str'}; nan is a z3 Bool (or None = never NaN)."""
    __slots__ = ('t', 'k', 'nan')

    def __init__(self, t, k, nan=None):
        self.t = t
        self.k = k
        self.nan = nan

    def __repr__(self):
        return f'Sym<{self.k}:{self.t}{"?nan" if self.nan is not None else ""}>'

    def __bool__(self):
        raise OutOfSubset('implicit bool() of a symbolic value inside the engine')


_STR_CODES = {}
_STR_BY_CODE = {}


def str_code(s):
    c = _STR_CODES.get(s)
    if c is None:
        c = len(_STR_CODES) + 1
        _STR_CODES[s] = c
        _STR_BY_CODE[c] = s
    return c


def code_str(c):
    return _STR_BY_CODE.get(c, f'<other:{c}>')


def is_sym(v):
    return isinstance(v, Sym)


def is_num(v):
    return (isinstance(v, (int, Fraction)) and not isinstance(v, bool)) or (isinstance(v, Sym) and v.k in ('int', 'real')) \
        or isinstance(v, bool) or v is NAN


def is_conc_num(v):
    return isinstance(v, (int, Fraction, bool))


def kind_of(v):
    if isinstance(v, bool):
        return 'bool'
    if isinstance(v, int):
        return 'int'
    if isinstance(v, Fraction) or v is NAN:
        return 'real'
    if isinstance(v, str):
        return 'str'
    if isinstance(v, Sym):
        return v.k
    return type(v).__name__


def z3num(v):
    """z3 arithmetic term of a numeric value (bools become 0/1)."""
    if isinstance(v, Sym):
        if v.k == 'bool':
            return z3.If(v.t, z3.IntVal(1), z3.IntVal(0))
        if v.k in ('int', 'real'):
            return v.t
        raise OutOfSubset(f'numeric use of symbolic {v.k}')
    if isinstance(v, bool):
        return z3.IntVal(1 if v else 0)
    if isinstance(v, int):
        return z3.IntVal(v)
    if isinstance(v, Fraction):
        return z3.RealVal(str(v.numerator) + '/' + str(v.denominator)) if v.denominator != 1 else z3.RealVal(v.numerator)
    if v is NAN:
        return z3.RealVal(0)
    raise OutOfSubset(f'numeric use of {type(v).__name__}')


def z3real(v):
    t = z3num(v)
    return z3.ToReal(t) if t.sort() == z3.IntSort() else t


def nan_of(v):
    """z3 Bool 'v is NaN' or None when it cannot be."""
    if v is NAN:
        return z3.BoolVal(True)
    if isinstance(v, Sym):
        return v.nan
    return None


def z3bool(v):
    if isinstance(v, Sym):
        if v.k == 'bool':
            return v.t
        if v.k in ('int',):
            return v.t != 0
        if v.k == 'real':
            b = v.t != 0
            return z3.Or(v.nan, b) if v.nan is not None else b
        raise OutOfSubset('truth of symbolic str')
    return z3.BoolVal(bool(v))


def z3any(v):
    """z3 term for equality comparisons of scalars."""
    if isinstance(v, Sym):
        return v.t
    if isinstance(v, bool):
        return z3.BoolVal(v)
    if isinstance(v, str):
        return z3.IntVal(str_code(v))
    return z3num(v)


FAST = [False]


def mk_bool(t):
    if not FAST[0]:
        t = z3.simplify(t)
    if z3.is_true(t):
        return True
    if z3.is_false(t):
        return False
    return Sym(t, 'bool')


def mk_num(t, nan=None):
    """Wrap an arithmetic z3 term; fold literals back to Python numbers."""
    if nan is not None:
        if not FAST[0]:
            nan = z3.simplify(nan)
        if z3.is_false(nan):
            nan = None
        elif z3.is_true(nan):
            return NAN
    if nan is None:
        if z3.is_int_value(t):
            return t.as_long()
        if z3.is_rational_value(t):
            return Fraction(t.numerator_as_long(), t.denominator_as_long())
    return Sym(t, 'int' if t.sort() == z3.IntSort() else 'real', nan)


class Vec:
    """Fixed-size numpy vector (elements: scalar values). Mutable, identity semantics."""
    __slots__ = ('e', 'view', 'base')

    def __init__(self, elems, view=False, base=None):
        self.e = list(elems)
        self.view = view
        self.base = base        # (array, row index) when this vector is a writable row view of a 2-D array

    def __repr__(self):
        return f'Vec{self.e}'


class Arr:
    """Sequence of symbolic (or concrete) length n with element closure fn(k)->value.

    np=True: numpy 1-D/2-D semantics (elementwise arithmetic); np=False: Python list semantics.
    cols: None for 1-D, else the concrete number of columns (fn returns a Vec of that size).
    """
    __slots__ = ('n', 'fn', 'np', 'cols', 'view', 'tag', 'prov', 'vbase', 'voff')

    def __init__(self, n, fn, np=True, cols=None, view=False, tag=None, prov=None, vbase=None, voff=0):
        self.n = n
        self.fn = fn
        self.np = np
        self.cols = cols
        self.view = view
        self.tag = tag
        # provenance (how this array was built from others): used to rewrite sums structurally.
        # ('const', v) | ('concat', A, B) | ('delete', A, j) | ('store', A, i, v) | ('slice', A, off) | ('rowmap', g, A)
        self.prov = prov
        # a numpy slice is a live view: vbase is the array it reads / writes through, voff the row offset
        self.vbase = vbase
        self.voff = voff

    def snap(self):
        return Arr(self.n, self.fn, np=self.np, cols=self.cols, tag=self.tag, prov=self.prov)

    def __repr__(self):
        return f'Arr<n={self.n},np={self.np},cols={self.cols}>'


class Obj:
    """Instance of a repo class (or a plain record)."""
    __slots__ = ('cls', 'f', 'name')

    def __init__(self, cls, fields=None, name=None):
        self.cls = cls          # RepoClass or None
        self.f = dict(fields or {})
        self.name = name

    def __repr__(self):
        return f'Obj<{self.cls.qual if self.cls else "record"}:{self.name}>'


class Opaque:
    """Result of an un-modelled pure call (f-strings, logging): may be passed around, never inspected."""
    __slots__ = ('what',)

    def __init__(self, what=''):
        self.what = what

    def __repr__(self):
        return f'Opaque<{self.what}>'


class PvObject:
    """Base class of library models implemented in Python (e.g. the pandas model): the interpreter delegates attribute
    access, subscripts, arithmetic, comparison and len() to the pv_* methods."""

    def pv_getattr(self, interp, name):
        raise OutOfSubset(f'attribute {name} of {type(self).__name__}')

    def pv_getitem(self, interp, idx):
        raise OutOfSubset(f'subscript of {type(self).__name__}')

    def pv_binop(self, interp, op, other, reflected):
        raise OutOfSubset(f'operator {op} on {type(self).__name__}')

    def pv_compare(self, interp, op, other, reflected):
        raise OutOfSubset(f'comparison {op} on {type(self).__name__}')

    def pv_len(self, interp):
        raise OutOfSubset(f'len of {type(self).__name__}')
