"""Scalar operations of the interpreter: Python/numpy arithmetic and comparison over the value model."""
import math
from fractions import Fraction
import z3
from .values import (Sym, NAN, Vec, Arr, Obj, Opaque, OutOfSubset, is_sym, z3num, z3real, z3bool, z3any,
                     nan_of, mk_bool, mk_num, kind_of, str_code, is_conc_num)


class NotMergeable(Exception):
    pass


FAST = [False]      # indicator mode: build terms without simplifying (terms get large; syntactic sharing is what matters)


def _simp(t):
    return t if FAST[0] else z3.simplify(t)


def _or(*ts):
    ts = [t for t in ts if t is not None]
    if not ts:
        return None
    return ts[0] if len(ts) == 1 else z3.Or(*ts)


def is_intlike(v):
    return (isinstance(v, int)) or (isinstance(v, Sym) and v.k in ('int', 'bool'))


def py_floordiv_int(a, b):
    return z3.If(b > 0, a / b, (-a) / (-b))


def floor_real(t):
    return z3.ToInt(t)


def arith(op, a, b):
    """Binary arithmetic on scalars. Division by zero must have been excluded by the caller."""
    if a is NAN or b is NAN:
        return NAN
    if is_conc_num(a) and is_conc_num(b):
        return _conc_arith(op, a, b)
    if not (_numeric(a) and _numeric(b)):
        raise OutOfSubset(f'arith {op} on {kind_of(a)}, {kind_of(b)}')
    nan = _or(nan_of(a), nan_of(b))
    ints = is_intlike(a) and is_intlike(b)
    if op in '+-*':
        # cheap algebraic folding keeps formulas linear where possible
        if op == '*':
            if (is_conc_num(a) and a == 0) and nan is None:
                return 0 if ints else Fraction(0)
            if (is_conc_num(b) and b == 0) and nan is None:
                return 0 if ints else Fraction(0)
        x, y = (z3num(a), z3num(b)) if ints else (z3real(a), z3real(b))
        t = x + y if op == '+' else (x - y if op == '-' else x * y)
        return mk_num(_simp(t), nan)
    if op == '/':
        return mk_num(_simp(z3real(a) / z3real(b)), nan)
    if op == '//':
        if ints:
            return mk_num(z3.simplify(py_floordiv_int(z3num(a), z3num(b))))
        return mk_num(z3.ToReal(floor_real(z3real(a) / z3real(b))), nan)
    if op == '%':
        if ints:
            x, y = z3num(a), z3num(b)
            return mk_num(z3.simplify(x - y * py_floordiv_int(x, y)))
        x, y = z3real(a), z3real(b)
        return mk_num(x - y * z3.ToReal(floor_real(x / y)), nan)
    if op == '**':
        if isinstance(b, int) and not isinstance(b, bool):
            if b >= 0:
                r = 1
                for _ in range(b):
                    r = arith('*', r, a)
                return r
            return arith('/', 1, arith('**', a, -b))
        if isinstance(b, Fraction) and b == Fraction(1, 2):
            from . import npvec
            return npvec.uf('sqrt', a)
        if isinstance(b, Fraction) and b.denominator == 1:
            return arith('**', a, int(b))
        if isinstance(b, Fraction):
            # real power with a fractional exponent: uninterpreted (congruence only); 1 ** y == 1
            from . import npvec
            if is_conc_num(a) and a == 1:
                return Fraction(1)
            return npvec.uf('pow', a, b)
        raise OutOfSubset('** with a symbolic exponent')
    raise OutOfSubset(f'operator {op}')


def _numeric(v):
    return is_conc_num(v) or (isinstance(v, Sym) and v.k in ('int', 'real', 'bool'))


def _conc_arith(op, a, b):
    if isinstance(a, bool):
        a = int(a)
    if isinstance(b, bool):
        b = int(b)
    if op == '+':
        return a + b
    if op == '-':
        return a - b
    if op == '*':
        return a * b
    if op == '/':
        return Fraction(a) / Fraction(b)
    if op == '//':
        r = a // b
        return r if isinstance(a, int) and isinstance(b, int) else Fraction(r)
    if op == '%':
        return a % b
    if op == '**':
        if isinstance(b, int):
            if b < 0:
                return Fraction(a) ** b
            return a ** b
        if isinstance(a, int) and a >= 0 or isinstance(a, Fraction) and a >= 0:
            # rational power: only exact roots are representable
            f = float(a) ** float(b)
            r = Fraction(f).limit_denominator(10 ** 12)
            if r ** b.denominator == Fraction(a) ** b.numerator:
                return r
            # irrational: the same rendering as the uninterpreted sqrt / pow applied to concrete arguments
            from . import npvec
            if b == Fraction(1, 2):
                return npvec.uf('sqrt', a)
            return npvec.uf('pow', a, b)
        raise OutOfSubset('irrational concrete power')
    raise OutOfSubset(op)


def neg(a):
    if a is NAN:
        return NAN
    if is_conc_num(a):
        return -a
    return mk_num(z3.simplify(-z3num(a)), nan_of(a))


def absval(a):
    if a is NAN:
        return NAN
    if is_conc_num(a):
        return abs(a)
    t = z3num(a)
    return mk_num(z3.If(t >= 0, t, -t), nan_of(a))


def compare(op, a, b):
    """Python comparison -> bool | Sym bool."""
    if op in ('is', 'is not'):
        r = identical(a, b)
        return r if op == 'is' else lnot(r)
    if op in ('==', '!='):
        r = equal(a, b)
        return r if op == '==' else lnot(r)
    # ordering
    if a is NAN or b is NAN:
        return False
    if isinstance(a, str) and isinstance(b, str):
        return {'<': a < b, '<=': a <= b, '>': a > b, '>=': a >= b}[op]
    if is_conc_num(a) and is_conc_num(b):
        return {'<': a < b, '<=': a <= b, '>': a > b, '>=': a >= b}[op]
    if isinstance(a, tuple) and isinstance(b, tuple) and all(is_conc_num(x) for x in a + b):
        return {'<': a < b, '<=': a <= b, '>': a > b, '>=': a >= b}[op]
    if not (_numeric(a) and _numeric(b)):
        raise OutOfSubset(f'ordering {op} on {kind_of(a)}, {kind_of(b)}')
    if is_intlike(a) and is_intlike(b):
        x, y = z3num(a), z3num(b)
    else:
        x, y = z3real(a), z3real(b)
    t = {'<': x < y, '<=': x <= y, '>': x > y, '>=': x >= y}[op]
    nan = _or(nan_of(a), nan_of(b))
    if nan is not None:
        t = z3.And(z3.Not(nan), t)
    return mk_bool(t)


def identical(a, b):
    if a is None or b is None:
        return a is None and b is None
    if isinstance(a, (Obj, Vec, Arr, list, dict)) or isinstance(b, (Obj, Vec, Arr, list, dict)):
        return a is b
    if isinstance(a, bool) or isinstance(b, bool):
        if isinstance(a, bool) and isinstance(b, bool):
            return a == b
        if is_sym(a) and a.k == 'bool' and isinstance(b, bool):
            return mk_bool(a.t if b else z3.Not(a.t))
        if is_sym(b) and b.k == 'bool' and isinstance(a, bool):
            return mk_bool(b.t if a else z3.Not(b.t))
        return False
    if isinstance(a, Sym) or isinstance(b, Sym):
        return equal(a, b)
    try:
        return a is b or (type(a) is type(b) and a == b)
    except Exception:
        return False


def equal(a, b):
    if a is None or b is None:
        if a is None and b is None:
            return True
        return False
    if a is NAN or b is NAN:
        return False
    if isinstance(a, Opaque) or isinstance(b, Opaque):
        raise OutOfSubset('comparison of an opaque value')
    if isinstance(a, str) or isinstance(b, str):
        if isinstance(a, str) and isinstance(b, str):
            return a == b
        s, o = (a, b) if isinstance(a, str) else (b, a)
        if isinstance(o, Sym) and o.k == 'str':
            return mk_bool(o.t == str_code(s))
        return False
    if isinstance(a, Sym) and a.k == 'str' or isinstance(b, Sym) and b.k == 'str':
        if isinstance(a, Sym) and isinstance(b, Sym) and a.k == b.k:
            return mk_bool(a.t == b.t)
        return False
    if _numeric(a) and _numeric(b):
        if is_conc_num(a) and is_conc_num(b):
            return a == b
        if is_intlike(a) and is_intlike(b):
            t = z3num(a) == z3num(b)
        else:
            t = z3real(a) == z3real(b)
        nan = _or(nan_of(a), nan_of(b))
        if nan is not None:
            t = z3.And(z3.Not(nan), t)
        return mk_bool(t)
    if isinstance(a, (tuple, list)) and isinstance(b, (tuple, list)):
        if type(a) is not type(b) or len(a) != len(b):
            return False
        r = True
        for x, y in zip(a, b):
            r = land(r, equal(x, y))
        return r
    if isinstance(a, Arr) and isinstance(b, Arr) and not a.np and not b.np:
        return seq_equal(a, b)
    if isinstance(a, Arr) and isinstance(b, (list, tuple)) or isinstance(b, Arr) and isinstance(a, (list, tuple)):
        x, y = (a, b) if isinstance(a, Arr) else (b, a)
        if x.np:
            raise OutOfSubset('numpy == list')
        y2 = Arr(len(y), (lambda k, y=list(y): pick(y, k)), np=False)
        return seq_equal(x, y2)
    if isinstance(a, dict) and isinstance(b, dict):
        if set(a.keys()) != set(b.keys()):
            return False
        r = True
        for k in a:
            r = land(r, equal(a[k], b[k]))
        return r
    if isinstance(a, (Obj,)) or isinstance(b, (Obj,)):
        return a is b
    if isinstance(a, Vec) and isinstance(b, Vec):
        raise OutOfSubset('Vec == Vec is elementwise; use vec_eq')
    if type(a) is type(b):
        try:
            return a == b
        except Exception:
            pass
    return a is b


_qcount = [0]


def fresh_qvar(prefix='q'):
    _qcount[0] += 1
    return z3.Int(f'{prefix}!{_qcount[0]}')


def elem_equal(x, y):
    if isinstance(x, Vec) and isinstance(y, Vec):
        if len(x.e) != len(y.e):
            return False
        r = True
        for p, q in zip(x.e, y.e):
            r = land(r, same_value(p, q))
        return r
    return same_value(x, y)


def same_value(x, y):
    """Equality for specifications: like == but NaN equals NaN (array_equal(equal_nan=True))."""
    nx, ny = nan_of(x), nan_of(y)
    if nx is None and ny is None:
        return equal(x, y)
    nx = nx if nx is not None else z3.BoolVal(False)
    ny = ny if ny is not None else z3.BoolVal(False)
    vx = z3real(x)
    vy = z3real(y)
    return mk_bool(z3.Or(z3.And(nx, ny), z3.And(z3.Not(nx), z3.Not(ny), vx == vy)))


def seq_equal(a, b):
    """Sequence equality: equal length and pointwise equal elements (universally quantified)."""
    ln = equal(a.n, b.n)
    if ln is False:
        return False
    if isinstance(a.n, int):
        r = ln
        for k in range(a.n):
            r = land(r, elem_equal(a.fn(k), b.fn(k)))
        return r
    q = fresh_qvar('k')
    body = elem_equal(a.fn(Sym(q, 'int')), b.fn(Sym(q, 'int')))
    fa = z3.ForAll([q], z3.Implies(z3.And(q >= 0, q < z3num(a.n)), z3bool(body)))
    return land(ln, Sym(fa, 'bool'))


def pick(lst, k):
    """lst[k] for a Python list and a possibly symbolic in-range index."""
    if isinstance(k, int):
        return lst[k]
    r = lst[-1]
    for i in range(len(lst) - 2, -1, -1):
        r = ite(k.t == i, lst[i], r)
    return r


def lnot(a):
    if isinstance(a, Sym):
        return mk_bool(z3.Not(z3bool(a)))
    return not a


def land(a, b):
    if a is False or b is False:
        return False
    if a is True:
        return b if isinstance(b, (bool, Sym)) else truthy(b)
    if b is True:
        return a
    return mk_bool(z3.And(z3bool(a), z3bool(b)))


def lor(a, b):
    if a is True or b is True:
        return True
    if a is False:
        return b
    if b is False:
        return a
    return mk_bool(z3.Or(z3bool(a), z3bool(b)))


def implies(a, b):
    return lor(lnot(a), b)


def truthy(v):
    """Python truthiness -> bool | Sym bool."""
    if v is None:
        return False
    if v is NAN:
        return True
    if isinstance(v, (bool, int, Fraction)):
        return bool(v)
    if isinstance(v, str):
        return len(v) > 0
    if isinstance(v, Sym):
        if v.k == 'bool':
            return v
        if v.k == 'str':
            raise OutOfSubset('truth of symbolic str')
        return mk_bool(z3bool(v))
    if isinstance(v, (list, tuple, dict, set)):
        return len(v) > 0
    if isinstance(v, Vec):
        if len(v.e) == 1:
            return truthy(v.e[0])
        raise OutOfSubset('truth value of an array with more than one element')
    if isinstance(v, Arr):
        if v.np:
            raise OutOfSubset('truth value of a numpy array')
        return compare('>', v.n, 0)
    if isinstance(v, Opaque):
        raise OutOfSubset('truth of opaque value')
    return True


def ite(c, a, b):
    """Value-level if-then-else on a z3 Bool condition."""
    c = _simp(c)
    if z3.is_true(c):
        return a
    if z3.is_false(c):
        return b
    if a is b:
        return a
    if isinstance(a, Vec) and isinstance(b, Vec) and len(a.e) == len(b.e):
        return Vec([ite(c, x, y) for x, y in zip(a.e, b.e)])
    if isinstance(a, tuple) and isinstance(b, tuple) and len(a) == len(b):
        return tuple(ite(c, x, y) for x, y in zip(a, b))
    if a is None and b is None:
        return None
    if isinstance(a, dict) and isinstance(b, dict) and set(a.keys()) == set(b.keys()):
        return {k: ite(c, a[k], b[k]) for k in a}
    if isinstance(a, Opaque) and isinstance(b, Opaque):
        return a
    ka, kb = kind_of(a), kind_of(b)
    if ka == 'bool' and kb == 'bool':
        return mk_bool(z3.If(c, z3bool(a), z3bool(b)))
    if ka == 'str' and kb == 'str':
        if a == b if (isinstance(a, str) and isinstance(b, str)) else False:
            return a
        return Sym(z3.If(c, z3any(a), z3any(b)), 'str')
    if ka in ('int', 'real', 'bool') and kb in ('int', 'real', 'bool'):
        na, nb = nan_of(a), nan_of(b)
        nan = None
        if na is not None or nb is not None:
            nan = z3.If(c, na if na is not None else z3.BoolVal(False), nb if nb is not None else z3.BoolVal(False))
        if ka == 'real' or kb == 'real':
            return mk_num(z3.If(c, z3real(a), z3real(b)), nan)
        return mk_num(z3.If(c, z3num(a), z3num(b)), nan)
    if isinstance(a, Arr) and isinstance(b, Arr) and a.np == b.np and a.cols == b.cols:
        n = ite(c, a.n, b.n)
        return Arr(n, (lambda k, a=a, b=b, c=c: ite(c, a.fn(k), b.fn(k))), np=a.np, cols=a.cols)
    raise NotMergeable(f'{ka} vs {kb}')


def to_int(v):
    """Python int(): truncation toward zero."""
    if isinstance(v, bool):
        return int(v)
    if isinstance(v, int):
        return v
    if isinstance(v, Fraction):
        return math.trunc(v)
    if isinstance(v, Sym):
        if v.k == 'int':
            return v
        if v.k == 'bool':
            return mk_num(z3num(v))
        if v.k == 'real':
            return mk_num(z3.If(v.t >= 0, z3.ToInt(v.t), -z3.ToInt(-v.t)))
    if isinstance(v, str):
        return int(v)
    raise OutOfSubset(f'int() of {kind_of(v)}')


def to_float(v):
    if v is NAN:
        return NAN
    if isinstance(v, (bool, int)):
        return Fraction(int(v))
    if isinstance(v, Fraction):
        return v
    if isinstance(v, Sym) and v.k in ('int', 'bool', 'real'):
        return mk_num(z3real(v), v.nan)
    if isinstance(v, str):
        if v.lower() == 'nan':
            return NAN
        return Fraction(v)
    if isinstance(v, Vec) and len(v.e) == 1:
        return to_float(v.e[0])
    raise OutOfSubset(f'float() of {kind_of(v)}')


def floor_val(v):
    """math.floor / np.floor on a scalar. math.floor returns int, np.floor float; callers adjust."""
    if isinstance(v, (bool, int)):
        return int(v)
    if isinstance(v, Fraction):
        return math.floor(v)
    if isinstance(v, Sym):
        if v.k == 'int':
            return v
        return mk_num(z3.ToInt(v.t))
    raise OutOfSubset('floor of ' + kind_of(v))


def ceil_val(v):
    return neg(floor_val(neg(v)))


def round_half_even(v):
    """round(x) with no digits: banker's rounding, returns int."""
    if isinstance(v, (bool, int)):
        return int(v)
    if isinstance(v, Fraction):
        return round(v)
    if isinstance(v, Sym) and v.k == 'real':
        f = z3.ToInt(v.t)
        d = v.t - z3.ToReal(f)
        half = z3.RealVal('1/2')
        return mk_num(z3.If(d < half, f, z3.If(d > half, f + 1, z3.If(f % 2 == 0, f, f + 1))))
    if isinstance(v, Sym) and v.k == 'int':
        return v
    raise OutOfSubset('round of ' + kind_of(v))


def vmin(a, b):
    c = compare('<', b, a)      # Python min keeps the first on ties
    if isinstance(c, bool):
        return b if c else a
    return ite(c.t, b, a)


def vmax(a, b):
    c = compare('>', b, a)
    if isinstance(c, bool):
        return b if c else a
    return ite(c.t, b, a)


def np_min2(a, b):
    """np.minimum semantics (NaN propagates)."""
    r = vmin(a, b)
    nan = _or(nan_of(a), nan_of(b))
    if nan is not None:
        return mk_num(z3real(r) if not (r is NAN) else z3.RealVal(0), nan)
    return r


def np_max2(a, b):
    r = vmax(a, b)
    nan = _or(nan_of(a), nan_of(b))
    if nan is not None:
        return mk_num(z3real(r) if not (r is NAN) else z3.RealVal(0), nan)
    return r
