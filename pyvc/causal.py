"""Causality prover for indicator code (C13), unbounded in the input length.

The real AST of an indicator (wrapper and every repo function it calls, numba kernels included) is executed over a
*dependency-level* abstraction: every float is abstracted to the largest input row it may depend on (its level, a linear
integer term over loop variables, or None for "no dependence"), integers that steer indices keep their exact symbolic value
(z3 Int terms), arrays carry a type `level(A[k]) <= max(k + lag, base)` plus a constant region `A[k] == fill for k < cupto`.
The number of rows n is information of level n (the last row's successor); a test `n > e` only reveals the existence of row
e and has level e, iteration i of `range(lo, n - c)` exists iff row i + c exists.  Implicit flows are tracked with a pc level
(branches, early returns, loop existence, store indices).  Non-interference of this type system means: if the result type
satisfies `level(R[k]) <= k` for every k outside the constant region, two runs whose inputs agree on rows 0..k (whatever
their lengths > k) agree at position k - the statement of C13.  Index arithmetic obligations (`0 <= e`, `level <= idx + lag`,
loop-invariant preservation) are discharged by z3 over linear integer arithmetic, for every n.

The prover can only prove.  Anything outside its subset raises Unsupported; a failed obligation raises NotProved.  Either
way the indicator is then left to the bounded layers."""
import ast
import itertools
import z3

from .source import RepoFunc


class Unsupported(Exception):
    pass


class NotProved(Exception):
    pass


class Restart(Exception):
    pass


N = z3.Int('n')


def zt(x):
    return z3.IntVal(x) if isinstance(x, int) else x


_MENTIONS = {}


def mentions_n(t):
    if t is None or isinstance(t, int):
        return False
    k = t.get_id()
    r = _MENTIONS.get(k)
    if r is None:
        r = (t, t.eq(N) or any(mentions_n(c) for c in t.children()))      # the term is kept alive: ids are recycled otherwise
        _MENTIONS[k] = r
    return r[1]


def simp(t):
    if isinstance(t, int) or t is None:
        return t
    s = z3.simplify(t)
    if z3.is_int_value(s):
        return s.as_long()
    return s


def lmax(*ls):
    out = []
    for l in ls:
        if l is None:
            continue
        l = simp(l)
        if not isinstance(l, int) and l.eq(N):
            return N            # the level of n itself is the top of the lattice (there is no row beyond)
        if any((isinstance(o, int) and isinstance(l, int) and o == l) or (not isinstance(o, int) and not isinstance(l, int) and o.eq(l)) for o in out):
            continue
        out.append(l)
    if not out:
        return None
    ints = [o for o in out if isinstance(o, int)]
    rest = [o for o in out if not isinstance(o, int)]
    if ints:
        rest.append(max(ints))
    r = rest[0]
    for o in rest[1:]:
        r = z3.If(zt(r) >= zt(o), zt(r), zt(o))
    return r if isinstance(r, int) else simp(r)


def lmin(a, b):
    if isinstance(a, int) and isinstance(b, int):
        return min(a, b)
    return simp(z3.If(zt(a) <= zt(b), zt(a), zt(b)))


def ladd(l, c):
    if l is None:
        return None
    if isinstance(l, int) and isinstance(c, int):
        return l + c
    return simp(zt(l) + zt(c))


# ------------------------------------------------------------------------------------------------ values
class IntV:
    """integer with an exact symbolic value; dl = data level; st = value depends on n"""
    __slots__ = ('t', 'dl')

    def __init__(self, t, dl=None):
        self.t = simp(t)
        if isinstance(self.t, int):
            raise AssertionError('concrete IntV')
        self.dl = dl

    @property
    def st(self):
        return mentions_n(self.t)

    @property
    def lvl(self):
        return lmax(self.dl, N if self.st else None)


def mkint(t, dl=None):
    t = simp(t)
    if isinstance(t, int) and dl is None:
        return t
    if isinstance(t, int):
        return IntD(t, dl)
    return IntV(t, dl)


class IntD(IntV):
    """concrete integer value reached under a data-dependent choice (carries a level)"""
    __slots__ = ()

    def __init__(self, t, dl):
        self.t = t
        self.dl = dl

    @property
    def st(self):
        return False


class FloatV:
    __slots__ = ('lvl',)

    def __init__(self, lvl):
        self.lvl = lvl


class BoolV:
    __slots__ = ('t', 'lvl')

    def __init__(self, t, lvl):
        self.t = t
        self.lvl = lvl


class ArrRef:
    __slots__ = ('id',)

    def __init__(self, id_):
        self.id = id_


class ArrT:
    """kind: '1d' | '2d' (rows x cols, row k = candle k) | 'win' (rows x w, [j, t] = base[j + t]) | 'stack' (rows are whole series)
    lag None: elements do not depend on their own position (uniform level `base`)"""
    __slots__ = ('len', 'lag', 'base', 'cupto', 'fill', 'kind', 'cols', 'site', 'view_of', 'isbool', 'cpc', 'rowlag')

    def __init__(self, len_, lag, base, cupto=0, fill=None, kind='1d', cols=None, site=None, view_of=None, isbool=False, cpc=None, rowlag=None):
        self.len, self.lag, self.base, self.cupto, self.fill = len_, lag, base, cupto, fill
        self.kind, self.cols, self.site, self.view_of, self.isbool = kind, cols, site, view_of, isbool
        self.cpc = cpc          # highest pc under which a constant store shaped the constant region without a level check
        self.rowlag = rowlag    # windows: level(W[j, t]) <= max(j + t + lag, j + rowlag, base)

    def with_(self, **kw):
        d = {s: getattr(self, s) for s in self.__slots__}
        d.update(kw)
        return ArrT(d['len'], d['lag'], d['base'], d['cupto'], d['fill'], d['kind'], d['cols'], d['site'], d['view_of'], d['isbool'], d['cpc'], d['rowlag'])


class NTType:
    def __init__(self, name, fields):
        self.name, self.fields = name, list(fields)


class NT:
    def __init__(self, t, vals):
        self.t, self.vals = t, list(vals)


class Ext:
    def __init__(self, name):
        self.name = name


class Fn:
    def __init__(self, rf, env=None):
        self.rf = rf
        self.env = env
        self.name = rf.qual


class Builtin:
    def __init__(self, name):
        self.name = name


class Method:
    def __init__(self, obj, name):
        self.obj, self.name = obj, name


class Module:
    def __init__(self, name):
        self.name = name


def is_nan(x):
    return isinstance(x, float) and x != x


def same_const(a, b):
    if is_nan(a) and is_nan(b):
        return True
    return isinstance(a, (int, float)) and isinstance(b, (int, float)) and not is_nan(a) and not is_nan(b) and float(a) == float(b)


def level_of(v):
    if isinstance(v, (FloatV, BoolV)):
        return v.lvl
    if isinstance(v, IntV):
        return v.lvl
    return None


# ------------------------------------------------------------------------------------------------ state
class State:
    __slots__ = ('env', 'heap', 'assumps', 'pc')

    def __init__(self, env, heap, assumps, pc):
        self.env, self.heap, self.assumps, self.pc = env, heap, assumps, pc

    def copy(self):
        return State({k: _cp(v) for k, v in self.env.items()}, dict(self.heap), list(self.assumps), self.pc)


def _cp(v):
    if isinstance(v, list):
        return [_cp(x) for x in v]
    if isinstance(v, dict):
        return {k: _cp(x) for k, x in v.items()}
    return v


class Frame:
    def __init__(self, qual):
        self.qual = qual
        self.returns = []       # (value, State)
        self.loops = []         # stack of loop records


class LoopRec:
    def __init__(self, var, lo):
        self.var, self.lo = var, lo
        self.continues = []
        self.breaks = []


BUILTINS = {'len', 'range', 'min', 'max', 'abs', 'int', 'float', 'round', 'isinstance', 'list', 'tuple', 'zip', 'enumerate', 'sum',
            'bool', 'str', 'any', 'all', 'sorted', 'reversed', 'print', 'type', 'ValueError', 'TypeError', 'IndexError', 'Exception',
            'ImportError', 'NotImplementedError', 'hasattr', 'getattr', 'divmod', 'pow', 'dict', 'set', 'map', 'filter', 'ZeroDivisionError'}

import math as _math
EXT_CONSTS = {'numpy.pi': _math.pi, 'math.pi': _math.pi, 'numpy.nan': float('nan'), 'numpy.NaN': float('nan'), 'math.nan': float('nan'),
              'numpy.inf': float('inf'), 'math.inf': float('inf'), 'numpy.e': _math.e, 'math.e': _math.e, 'numpy.newaxis': None,
              'numpy.float64': 'dtype', 'numpy.float32': 'dtype', 'numpy.float_': 'dtype', 'numpy.int64': 'dtype', 'numpy.int32': 'dtype',
              'numpy.bool_': 'dtype', 'numpy.double': 'dtype', 'numpy.int_': 'dtype'}

LAG_CANDIDATES = [None, 0, 1, 2, 3]
SCALAR_C = [-1, 0, 1, 2]


class Analyzer:
    def __init__(self, repo, site_lags=None, max_steps=400000, inline_depth=8, lengths_only=False):
        self.lengths_only = lengths_only
        self.repo = repo
        self.site_lags = site_lags if site_lags is not None else {}
        self.steps = 0
        self.max_steps = max_steps
        self.inline_depth = inline_depth
        self.stack = []
        self.frames = []
        self.st = None
        self.ids = itertools.count(1)
        self.fresh = itertools.count(1)
        self.solver = z3.Solver()
        self.solver.set('timeout', 4000)
        self.queries = 0
        self.kernels = set()
        self.symloops = []      # (var term, lo) of enclosing symbolic loops
        self.param_ints = set()

    # ------------------------------------------------------------------------------------------ solver
    def prove(self, goal, st=None):
        st = st or self.st
        if goal is True:
            return True
        if goal is False:
            return False
        self.queries += 1
        s = self.solver
        s.push()
        try:
            for a in st.assumps:
                s.add(a)
            s.add(z3.Not(goal))
            return s.check() == z3.unsat
        finally:
            s.pop()

    def le(self, a, b):
        """level a <= integer term b (a None: no dependence)"""
        if a is None:
            return True
        if b is None:
            return False
        if not isinstance(b, int) and b.eq(N):
            return True
        if isinstance(a, int) and isinstance(b, int):
            return a <= b
        return self.prove(zt(a) <= zt(b))

    def assume(self, c):
        if c is True or c is None:
            return
        self.st.assumps.append(c if not isinstance(c, bool) else z3.BoolVal(c))

    def fresh_int(self, hint='k'):
        return z3.Int(f'{hint}!{next(self.fresh)}')

    # ------------------------------------------------------------------------------------------ heap
    def normalise(self, t):
        """level(A[k]) <= max(k + lag, base) only matters outside the constant region: a base that is already below
        cupto + lag says nothing there and is dropped (keeps later stores from inflating a lag to absorb it)"""
        if t.base is not None and t.lag is not None and t.fill is not None and not _is0(t.cupto):
            try:
                if self.prove(zt(t.base) <= zt(t.cupto) + zt(t.lag)):
                    return t.with_(base=None)
            except z3.Z3Exception:
                pass
        return t

    def new_arr(self, t):
        t = self.normalise(t)
        i = next(self.ids)
        self.st.heap[i] = t
        return ArrRef(i)

    def T(self, ref):
        return self.st.heap[ref.id]

    def site(self, node):
        return ('/'.join(self.stack), getattr(node, 'lineno', 0), getattr(node, 'col_offset', 0))

    def alloc(self, node, len_, fill, kind='1d', cols=None, base=None):
        s = self.site(node)
        lag = self.site_lags.get(s, None)
        cupto = 0 if fill is None else len_term(len_)
        # allocated under a raised pc (after a guard): the whole array exists only on this side of the guard
        return self.new_arr(ArrT(len_, lag, lmax(base, self.st.pc), cupto, fill, kind, cols, site=s))

    # ------------------------------------------------------------------------------------------ names
    def resolve(self, mod, name):
        ent = mod.top.get(name)
        if ent is None:
            for sm in getattr(mod, 'star', []):
                if self.repo.has_module(sm):
                    try:
                        return self.resolve(self.repo.module(sm), name)
                    except Unsupported:
                        pass
            if name in BUILTINS:
                return Builtin(name)
            raise Unsupported(f'unresolved name {name} in {mod.name}')
        if isinstance(ent, ast.FunctionDef):
            return Fn(RepoFunc(f'{mod.name}.{name}', ent, mod))
        if isinstance(ent, ast.ClassDef):
            raise Unsupported(f'class {name}')
        if isinstance(ent, tuple):
            if ent[0] == 'import':
                return self.modval(ent[1])
            _, m, attr = ent
            if self.repo.has_module(m) and attr in self.repo.module(m).top and m != mod.name:
                return self.resolve(self.repo.module(m), attr)
            if self.repo.has_module(f'{m}.{attr}'):
                return self.modval(f'{m}.{attr}')
            if self.repo.has_module(m):
                return self.resolve(self.repo.module(m), attr)
            full = f'{m}.{attr}'
            if full in EXT_CONSTS:
                return EXT_CONSTS[full]
            return Ext(full)
        if isinstance(ent, (ast.Assign, ast.AnnAssign)):
            saved = self.st
            self.st = State({}, saved.heap if saved else {}, saved.assumps if saved else [], None)
            try:
                v = self.eval(ent.value, mod)
            finally:
                self.st = saved
            if isinstance(ent, ast.Assign) and isinstance(ent.targets[0], ast.Tuple):
                names = [e.id for e in ent.targets[0].elts]
                return v[names.index(name)]
            return v
        raise Unsupported(f'module entry {name}')

    def modval(self, name):
        if self.repo.has_module(name):
            return Module(name)
        return Ext(name)

    # ------------------------------------------------------------------------------------------ expressions
    def eval(self, node, mod):
        self.steps += 1
        if self.steps > self.max_steps:
            raise Unsupported('step budget')
        m = getattr(self, 'e_' + type(node).__name__, None)
        if m is None:
            raise Unsupported(f'expression {type(node).__name__}')
        return m(node, mod)

    def e_Constant(self, node, mod):
        return node.value

    def e_Name(self, node, mod):
        env = self.st.env
        if node.id in env:
            return env[node.id]
        if node.id in ('True', 'False', 'None'):
            return {'True': True, 'False': False, 'None': None}[node.id]
        return self.resolve(mod, node.id)

    def e_Tuple(self, node, mod):
        return tuple(self.eval(e, mod) for e in node.elts)

    def e_List(self, node, mod):
        return [self.eval(e, mod) for e in node.elts]

    def e_Dict(self, node, mod):
        return {self.eval(k, mod): self.eval(v, mod) for k, v in zip(node.keys, node.values)}

    def e_JoinedStr(self, node, mod):
        return '<fstring>'

    def e_Lambda(self, node, mod):
        fd = ast.FunctionDef(name='<lambda>', args=node.args, body=[ast.Return(value=node.body)], decorator_list=[], lineno=node.lineno, col_offset=node.col_offset)
        return Fn(RepoFunc(f'{mod.name}.<lambda@{node.lineno}>', fd, mod), env=dict(self.st.env))

    def e_Attribute(self, node, mod):
        v = self.eval(node.value, mod)
        a = node.attr
        if isinstance(v, Ext):
            full = f'{v.name}.{a}'
            if full in EXT_CONSTS:
                return EXT_CONSTS[full]
            return Ext(full)
        if isinstance(v, Module):
            m2 = self.repo.module(v.name)
            if a in m2.top:
                return self.resolve(m2, a)
            if self.repo.has_module(f'{v.name}.{a}'):
                return Module(f'{v.name}.{a}')
            return self.resolve(m2, a)
        if isinstance(v, NT):
            if a in v.t.fields:
                return v.vals[v.t.fields.index(a)]
            raise Unsupported(f'namedtuple attribute {a}')
        if isinstance(v, ArrRef):
            t = self.T(v)
            if a == 'shape':
                if t.kind == '1d':
                    return (self.len_value(t),)
                if t.kind in ('2d', 'win'):
                    return (self.len_value(t), t.cols)
                raise Unsupported('shape of ' + t.kind)
            if a == 'size' and t.kind == '1d':
                return self.len_value(t)
            if a == 'ndim':
                return 1 if t.kind == '1d' else 2
            if a == 'dtype':
                return 'dtype'
            if a == 'T':
                raise Unsupported('transpose')
            return Method(v, a)
        if isinstance(v, (list, tuple, dict, str)):
            return Method(v, a)
        if isinstance(v, (FloatV, IntV)) and a in ('item', 'astype'):
            return Method(v, a)
        raise Unsupported(f'attribute {a} of {type(v).__name__}')

    def len_value(self, t):
        return t.len

    def e_UnaryOp(self, node, mod):
        v = self.eval(node.operand, mod)
        if isinstance(node.op, ast.Not):
            b = self.truth(v)
            if isinstance(b, bool):
                return not b
            return BoolV(None if b.t is None else z3.Not(b.t), b.lvl)
        if isinstance(node.op, ast.USub):
            if isinstance(v, (int, float)):
                return -v
            if isinstance(v, IntV):
                return mkint(-zt(v.t), v.dl)
            if isinstance(v, FloatV):
                return v
            if isinstance(v, ArrRef):
                return self.elementwise([v], arith=True)
        if isinstance(node.op, ast.UAdd):
            return v
        if isinstance(node.op, ast.Invert):
            if isinstance(v, ArrRef):
                return self.elementwise([v], arith=False, isbool=True)
            if isinstance(v, BoolV):
                return BoolV(None if v.t is None else z3.Not(v.t), v.lvl)
        raise Unsupported(f'unary {type(node.op).__name__} on {type(v).__name__}')

    def e_BinOp(self, node, mod):
        a = self.eval(node.left, mod)
        b = self.eval(node.right, mod)
        return self.binop(type(node.op).__name__, a, b)

    def binop(self, op, a, b):
        if isinstance(a, bool):
            a = int(a)
        if isinstance(b, bool):
            b = int(b)
        if isinstance(a, BoolV):
            a = FloatV(a.lvl)
        if isinstance(b, BoolV):
            b = FloatV(b.lvl)
        if isinstance(a, ArrRef) or isinstance(b, ArrRef):
            if op == 'MatMult':
                return self.np_dot(a, b)
            cmp_ = op in ('BitAnd', 'BitOr', 'BitXor')
            return self.elementwise([a, b], arith=op in ('Add', 'Sub', 'Mult', 'Div', 'Pow', 'Mod', 'FloorDiv'), isbool=cmp_)
        if isinstance(a, (list, tuple)) and op == 'Mult' and isinstance(b, int):
            return type(a)(list(a) * b)
        if isinstance(b, (list, tuple)) and op == 'Mult' and isinstance(a, int):
            return type(b)(list(b) * a)
        if isinstance(a, (list, tuple)) and isinstance(b, (list, tuple)) and op == 'Add':
            return type(a)(list(a) + list(b))
        if isinstance(a, str) or isinstance(b, str):
            if op == 'Add' and isinstance(a, str) and isinstance(b, str):
                return a + b
            return '<str>'
        if isinstance(a, (int, float)) and isinstance(b, (int, float)):
            import operator as o
            f = {'Add': o.add, 'Sub': o.sub, 'Mult': o.mul, 'Div': o.truediv, 'FloorDiv': o.floordiv, 'Mod': o.mod, 'Pow': o.pow,
                 'BitAnd': o.and_, 'BitOr': o.or_, 'BitXor': o.xor, 'LShift': o.lshift, 'RShift': o.rshift}.get(op)
            if f is None:
                raise Unsupported(op)
            try:
                return f(a, b)
            except ZeroDivisionError:
                return float('nan')
            except (OverflowError, TypeError, ValueError):
                raise Unsupported(f'{op} on constants')
        if isinstance(a, (int, IntV)) and isinstance(b, (int, IntV)) and not isinstance(a, IntD) and not isinstance(b, IntD):
            ta, tb = zt(a if isinstance(a, int) else a.t), zt(b if isinstance(b, int) else b.t)
            dl = lmax(level_of(a) if isinstance(a, IntV) else None, level_of(b) if isinstance(b, IntV) else None)
            dl = lmax(a.dl if isinstance(a, IntV) else None, b.dl if isinstance(b, IntV) else None)
            if op == 'Add':
                return mkint(ta + tb, dl)
            if op == 'Sub':
                return mkint(ta - tb, dl)
            if op == 'Mult':
                if isinstance(a, int) or isinstance(b, int):
                    return mkint(ta * tb, dl)
                return self.havoc_int(lmax(level_of(a), level_of(b)))
            if op == 'FloorDiv' and isinstance(b, int) and b > 0:
                return mkint(ta / tb, dl)
            if op == 'Mod' and isinstance(b, int) and b > 0:
                return mkint(ta % tb, dl)
            if op in ('Div', 'Pow'):
                return FloatV(lmax(level_of(a), level_of(b)))
            return self.havoc_int(lmax(level_of(a), level_of(b)))
        if isinstance(a, (int, float, IntV, FloatV)) and isinstance(b, (int, float, IntV, FloatV)):
            l = lmax(level_of(a), level_of(b))
            if isinstance(a, (int, IntV)) and isinstance(b, (int, IntV)) and op in ('Add', 'Sub', 'Mult', 'FloorDiv', 'Mod'):
                return self.havoc_int(l)
            return FloatV(l)
        if a is None or b is None:
            raise Unsupported('arithmetic on None')
        # a list of numbers against a numpy scalar: numpy converts the list to an array (triangle / np.sum(triangle))
        for x, y in ((a, b), (b, a)):
            if isinstance(x, list) and x and all(isinstance(e, (int, float, IntV, FloatV)) and not isinstance(e, bool) for e in x) \
                    and isinstance(y, FloatV) and op in ('Add', 'Sub', 'Mult', 'Div'):
                from pyvc import causal_np
                arr = causal_np.call_np(self, 'array', [x], {}, None)
                return self.binop(op, arr if x is a else a, arr if x is b else b)
        raise Unsupported(f'{op} on {type(a).__name__}, {type(b).__name__}')

    def havoc_int(self, dl):
        return IntV(self.fresh_int('h'), dl)

    def e_Compare(self, node, mod):
        left = self.eval(node.left, mod)
        res = True
        for op, c in zip(node.ops, node.comparators):
            right = self.eval(c, mod)
            r = self.compare(type(op).__name__, left, right)
            res = self.band(res, r)
            if res is False:
                return False
            left = right
        return res

    def band(self, a, b, is_and=True):
        if isinstance(a, bool) and isinstance(b, bool):
            return (a and b) if is_and else (a or b)
        if isinstance(a, bool):
            if is_and:
                return b if a else False
            return True if a else b
        if isinstance(b, bool):
            # a is evaluated first: its level stays
            if is_and:
                return a if b else BoolV(z3.BoolVal(False) if a.t is not None else None, a.lvl)
            return BoolV(z3.BoolVal(True) if a.t is not None else None, a.lvl) if b else a
        t = None
        if a.t is not None and b.t is not None:
            t = z3.And(a.t, b.t) if is_and else z3.Or(a.t, b.t)
        return BoolV(t, lmax(a.lvl, b.lvl))

    def compare(self, op, a, b):
        if op in ('Is', 'IsNot'):
            if a is None or b is None:
                other = b if a is None else a
                r = other is None
                return r if op == 'Is' else not r
            raise Unsupported('identity comparison')
        if op in ('In', 'NotIn'):
            if isinstance(a, (str, int, float)) and isinstance(b, (list, tuple, dict, str, set)):
                r = a in b
                return r if op == 'In' else not r
            raise Unsupported('membership test')
        if isinstance(a, ArrRef) or isinstance(b, ArrRef):
            return self.elementwise([a, b], arith=False, isbool=True)
        if isinstance(a, BoolV):
            a = FloatV(a.lvl)
        if isinstance(b, BoolV):
            b = FloatV(b.lvl)
        consts = (int, float, str, bool, type(None), tuple)
        if isinstance(a, consts) and isinstance(b, consts):
            import operator as o
            f = {'Eq': o.eq, 'NotEq': o.ne, 'Lt': o.lt, 'LtE': o.le, 'Gt': o.gt, 'GtE': o.ge}[op]
            try:
                return f(a, b)
            except TypeError:
                raise Unsupported('comparison of constants')
        if isinstance(a, (int, IntV)) and isinstance(b, (int, IntV)):
            ta, tb = zt(a if isinstance(a, int) else a.t), zt(b if isinstance(b, int) else b.t)
            f = {'Eq': lambda x, y: x == y, 'NotEq': lambda x, y: x != y, 'Lt': lambda x, y: x < y, 'LtE': lambda x, y: x <= y,
                 'Gt': lambda x, y: x > y, 'GtE': lambda x, y: x >= y}[op]
            t = f(ta, tb)
            dl = lmax(a.dl if isinstance(a, IntV) else None, b.dl if isinstance(b, IntV) else None)
            st = (isinstance(a, IntV) and a.st) or (isinstance(b, IntV) and b.st)
            sl = self.struct_level(op, ta, tb) if st else None
            t = z3.simplify(t)
            if z3.is_true(t) and dl is None and sl is None:
                return True
            if z3.is_false(t) and dl is None and sl is None:
                return False
            return BoolV(t, lmax(dl, sl))
        if isinstance(a, (int, float, IntV, FloatV)) and isinstance(b, (int, float, IntV, FloatV)):
            return BoolV(None, lmax(level_of(a), level_of(b)))
        if isinstance(a, str) or isinstance(b, str):
            return op == 'NotEq'
        raise Unsupported(f'comparison {op} on {type(a).__name__}, {type(b).__name__}')

    def struct_level(self, op, ta, tb):
        """level of a comparison that involves n: a test `n > e` (e free of n) reveals whether row e exists"""
        d = z3.simplify(ta - tb)
        d1 = z3.substitute(d, (N, N + 1))
        coef = None
        if self.prove(d1 - d == 1):
            coef = 1
        elif self.prove(d1 - d == -1):
            coef = -1
            op = {'Lt': 'Gt', 'LtE': 'GtE', 'Gt': 'Lt', 'GtE': 'LtE'}.get(op, op)
        if coef is None:
            return N
        e = z3.simplify(N - d) if coef == 1 else z3.simplify(N + d)     # d = n - e  |  d = e - n
        if mentions_n(e):
            e2 = z3.substitute(e, (N, N + 1))
            if not self.prove(e2 == e):
                return N
            e = z3.simplify(z3.substitute(e, (N, z3.IntVal(0))))
        # n  op  e
        if op in ('Lt', 'GtE'):
            return simp(e - 1)
        return simp(e)

    def truth(self, v):
        if isinstance(v, BoolV):
            return v
        if isinstance(v, (bool, int, float, str, type(None), list, tuple, dict)):
            return bool(v)
        if isinstance(v, IntV):
            return BoolV(v.t != 0 if not isinstance(v.t, int) else z3.BoolVal(v.t != 0), v.lvl)
        if isinstance(v, FloatV):
            return BoolV(None, v.lvl)
        if isinstance(v, NT):
            return True
        raise Unsupported(f'truth value of {type(v).__name__}')

    def e_BoolOp(self, node, mod):
        is_and = isinstance(node.op, ast.And)
        acc = None
        for e in node.values:
            if acc is not None:
                # short circuit on constants
                if isinstance(acc, bool) and acc != is_and:
                    return acc
            v = self.truth(self.eval(e, mod))
            acc = v if acc is None else self.band(acc, v, is_and)
        return acc

    def e_IfExp(self, node, mod):
        c = self.truth(self.eval(node.test, mod))
        if isinstance(c, bool):
            return self.eval(node.body if c else node.orelse, mod)
        c = self.decide_static(c)
        if isinstance(c, bool):
            return self.eval(node.body if c else node.orelse, mod)
        saved = list(self.st.assumps)
        if c.t is not None:
            self.st.assumps.append(c.t)
        a = self.eval(node.body, mod)
        self.st.assumps = list(saved)
        if c.t is not None:
            self.st.assumps.append(z3.Not(c.t))
        b = self.eval(node.orelse, mod)
        self.st.assumps = saved
        return self.merge_value(a, b, c, self.st, self.st, self.st)

    def decide_static(self, c):
        if c.t is None:
            return c
        if self.prove(c.t):
            return True if c.lvl is None else BoolV(z3.BoolVal(True), c.lvl) if False else True
        if self.prove(z3.Not(c.t)):
            return False
        return c

    def e_Subscript(self, node, mod):
        v = self.eval(node.value, mod)
        i = self.eval(node.slice, mod)
        return self.getitem(v, i, node)

    def e_Slice(self, node, mod):
        f = lambda x: None if x is None else self.eval(x, mod)
        return slice(f(node.lower), f(node.upper), f(node.step))

    def e_ListComp(self, node, mod):
        if len(node.generators) != 1:
            raise Unsupported('comprehension shape')
        g = node.generators[0]
        it = self.iterate(self.eval(g.iter, mod))
        out = []
        saved = dict(self.st.env)
        for x in it:
            self.bind(g.target, x, mod)
            ok = True
            for c in g.ifs:
                b = self.truth(self.eval(c, mod))
                if not isinstance(b, bool):
                    raise Unsupported('abstract comprehension filter')
                ok = ok and b
            if ok:
                out.append(self.eval(node.elt, mod))
        self.st.env = saved
        return out

    e_GeneratorExp = e_ListComp

    def iterate(self, v):
        if isinstance(v, tuple) and len(v) == 4 and v[0] == 'range':
            # the range descriptor of call_builtin: only a concrete one can be unrolled here
            if all(isinstance(x, int) and not isinstance(x, bool) for x in v[1:]) and len(range(*v[1:])) <= 64:
                return list(range(*v[1:]))
            raise Unsupported('iteration over a symbolic or long range outside a for statement')
        if isinstance(v, (list, tuple)):
            return list(v)
        if isinstance(v, range):
            if len(v) > 64:
                raise Unsupported('long concrete iteration')
            return list(v)
        if isinstance(v, dict):
            return list(v)
        if isinstance(v, NT):
            return list(v.vals)
        raise Unsupported(f'iteration over {type(v).__name__}')

    def e_Call(self, node, mod):
        f = self.eval(node.func, mod)
        args = []
        for a in node.args:
            if isinstance(a, ast.Starred):
                args.extend(self.iterate(self.eval(a.value, mod)))
            else:
                args.append(self.eval(a, mod))
        kwargs = {}
        for k in node.keywords:
            if k.arg is None:
                raise Unsupported('**kwargs')
            kwargs[k.arg] = self.eval(k.value, mod)
        return self.call(f, args, kwargs, node)

    # ------------------------------------------------------------------------------------------ indexing
    def norm_index(self, i, len_):
        """-> (IntV|int index >= 0, ok) ; ok False when the sign is unknown (then the element may be any)"""
        if isinstance(i, bool):
            i = int(i)
        if isinstance(i, int):
            if i >= 0:
                return i, True
            return self.binop('Add', len_, i), True
        if isinstance(i, IntV):
            if isinstance(i, IntD):
                return i, i.t >= 0
            if self.prove(zt(i.t) >= 0):
                return i, True
            if self.prove(zt(i.t) < 0):
                return self.binop('Add', len_, i), True
            return i, False
        raise Unsupported(f'index of type {type(i).__name__}')

    def elem_level(self, t, idx, ok=True):
        it = idx if isinstance(idx, int) else idx.t
        l = lmax(ladd(it, t.lag) if t.lag is not None else None, t.base, level_of(idx) if isinstance(idx, IntV) else None)
        if not ok:
            l = lmax(l, N)
        return l

    def getitem(self, v, i, node=None):
        if isinstance(v, NT):
            if isinstance(i, int):
                return v.vals[i]
            raise Unsupported('namedtuple subscript')
        if isinstance(v, (list, tuple, str, dict)):
            if isinstance(i, (int, str)) or (isinstance(i, slice) and all(isinstance(x, (int, type(None))) for x in (i.start, i.stop, i.step))):
                try:
                    return v[i]
                except (IndexError, KeyError):
                    raise Unsupported('constant subscript out of range')
            raise Unsupported('abstract subscript of a python sequence')
        if not isinstance(v, ArrRef):
            raise Unsupported(f'subscript of {type(v).__name__}')
        t = self.T(v)
        if isinstance(i, tuple) and t.kind == '1d' and len(i) == 2 and isinstance(i[0], slice) and i[1] is None \
                and i[0].start is None and i[0].stop is None and i[0].step is None:
            # x[:, None]: a column vector aligned with the rows (row j holds x[j])
            return self.new_arr(ArrT(t.len, t.lag, t.base, 0, None, 'col', view_of=v.id))
        if isinstance(i, tuple):
            if t.kind not in ('2d', 'win') or len(i) != 2:
                raise Unsupported('tuple index')
            r, c = i
            if isinstance(r, slice) and isinstance(c, int):
                if t.kind != '2d':
                    raise Unsupported('column of windows')
                col = self.new_arr(ArrT(t.len, t.lag, t.base, 0, None, '1d', view_of=v.id))
                if r.start is None and r.stop is None and r.step is None:
                    return col
                return self.getitem(col, r, node)
            if isinstance(r, (int, IntV)) and isinstance(c, (int, IntV)):
                idx, ok = self.norm_index(r, t.len)
                l = self.elem_level(t, idx, ok)
                if t.kind == 'win':
                    l = lmax(l, ladd(l, t.cols if isinstance(t.cols, int) else None))
                return FloatV(lmax(l, level_of(c) if isinstance(c, IntV) else None))
            raise Unsupported('2-d index form')
        if isinstance(i, slice):
            return self.slice_of(v, t, i)
        if isinstance(i, (int, IntV, bool)):
            idx, ok = self.norm_index(i, t.len)
            l = self.elem_level(t, idx, ok)
            if t.kind == '1d':
                if t.isbool:
                    return BoolV(None, l)
                return FloatV(l)
            if t.kind == '2d':
                return self.new_arr(ArrT(t.cols, None, l, 0, None, '1d'))
            if t.kind == 'win':
                w = t.cols
                return self.new_arr(ArrT(w, None, lmax(l, ladd(l, w - 1) if isinstance(w, int) else N), 0, None, '1d'))
            raise Unsupported('index of ' + t.kind)
        if isinstance(i, ArrRef):
            ti = self.T(i)
            if ti.isbool and t.kind == '1d':
                raise Unsupported('boolean mask selection')
            raise Unsupported('fancy indexing')
        raise Unsupported(f'index {type(i).__name__}')

    def slice_bounds(self, t, s):
        """(a, b, a_lvl, b_lvl): a = offset of the first selected element, b - a = number of selected elements (numpy clips the
        bounds).  A non-negative bound c selects `k >= c` / `k < c` among the existing positions whatever the length is, so its
        level is that of c itself; a negative bound counts from the end and has the level of n."""
        if s.step is not None and s.step != 1:
            raise Unsupported('slice step')
        ln = t.len
        lt = zt(len_term(ln))

        def norm(x, default, dl_default):
            if x is None:
                return default, None
            if isinstance(x, bool):
                x = int(x)
            if isinstance(x, IntD):
                raise Unsupported('slice bound chosen by data')
            if not isinstance(x, (int, IntV)):
                raise Unsupported('slice bound type')
            xt = zt(len_term(x))
            xl = level_of(x) if isinstance(x, IntV) else None
            if self.prove(xt >= 0):
                return x, xl
            if self.prove(xt < 0):
                y = self.binop('Add', ln, x)
                yt = zt(len_term(y))
                if self.prove(yt >= 0):
                    return y, lmax(xl, N)
                return mkint(z3.If(yt >= 0, yt, 0), x.dl if isinstance(x, IntV) else None), lmax(xl, N)
            raise Unsupported('slice bound of unknown sign')
        a, al = norm(s.start, 0, None)
        b, bl = norm(s.stop, ln, None)
        return a, b, al, bl

    def slice_len(self, t, a, b):
        """number of elements of [a:b] over length len: max(0, min(b, len) - min(a, len))"""
        lt = zt(len_term(t.len))
        at, bt = zt(len_term(a)), zt(len_term(b))
        if self.prove(z3.And(at <= bt, bt <= lt)):
            return mkint(bt - at)
        ac = z3.If(at <= lt, at, lt)
        bc = z3.If(bt <= lt, bt, lt)
        return mkint(z3.If(bc >= ac, bc - ac, 0))

    def slice_of(self, v, t, s):
        if t.kind not in ('1d', '2d'):
            raise Unsupported('slice of ' + t.kind)
        if s.step is not None and s.step == -1 and s.start is None and s.stop is None and t.lag is None:
            return self.new_arr(t.with_(view_of=None, site=None, cupto=0, fill=None))
        a, b, al, bl = self.slice_bounds(t, s)
        at = len_term(a)
        ln = self.slice_len(t, a, b)
        lag = ladd(t.lag, at) if t.lag is not None else None
        base = lmax(t.base, al)
        cupto, fill = 0, None
        if t.fill is not None:
            cupto = simp(zt(t.cupto) - zt(at))
            fill = t.fill
            if isinstance(cupto, int) and cupto <= 0:
                cupto, fill = 0, None
        return self.new_arr(ArrT(ln, lag, base, cupto, fill, t.kind, t.cols, view_of=v.id, isbool=t.isbool))

    # ------------------------------------------------------------------------------------------ stores
    def live_views(self, id_):
        for val in self.st.env.values():
            if isinstance(val, ArrRef) and val.id != id_ and self.st.heap[val.id].view_of == id_:
                return True
        return False

    def lower_bound(self, e):
        """a term free of loop variables that is <= e on every iteration of the enclosing symbolic loops (or 0)"""
        if isinstance(e, int):
            return e
        cur = e
        for var, lo in reversed(self.symloops):
            cand = simp(z3.substitute(zt(cur), (var, zt(lo))))
            if isinstance(cand, int) or not cand.eq(cur):
                if not self.prove(zt(cur) >= zt(cand)):
                    return 0
                cur = cand
        if not isinstance(cur, int):
            for var, lo in self.symloops:
                if _mentions(cur, var):
                    return 0
            if mentions_fresh(cur):
                return 0
        return cur

    def store_check(self, ref, idx_lo, idx_level, vlevel, what, pos_lag=None, only_views=False):
        """flow-insensitive element type level(A[k]) <= max(k + lag, base): the stored value (level vlevel, plus j + pos_lag at
        offset j of a slice store), the pc and the level of the index must fit it at the lowest index written"""
        t = self.T(ref)
        if t.view_of is not None:
            raise Unsupported('store into a view')
        if self.live_views(ref.id):
            raise Unsupported('store into an array that has live views')
        if only_views or self.lengths_only:
            return
        need = lmax(vlevel, self.st.pc, idx_level)
        if need is None and pos_lag is None:
            return

        def fits(lag):
            if pos_lag is not None and (lag is None or not self.le(pos_lag, ladd(idx_lo, lag))):
                return False
            if need is None:
                return True
            bound = lmax(ladd(idx_lo, lag) if lag is not None else None, t.base)
            return bound is not None and self.le(need, bound)
        if fits(t.lag):
            return
        if t.site is None:
            raise NotProved(f'{what}: stored value of level {need} exceeds the element type of a derived array')
        cands = LAG_CANDIDATES + sorted(p for p in self.param_ints if p > 3)
        start = cands.index(t.lag) + 1 if t.lag in cands else 0
        for c in cands[start:]:
            if c is not None and fits(c):
                self.site_lags[t.site] = c
                raise Restart()
        raise NotProved(f'{what}: value of level {need} (positional lag {pos_lag}) stored at index {idx_lo} (pc {self.st.pc})')

    def setitem(self, ref, i, v, node=None):
        t = self.T(ref)
        if t.kind != '1d':
            raise Unsupported('store into ' + t.kind)
        if isinstance(v, (list, tuple, NT, dict, str)) or v is None:
            raise Unsupported('store of ' + type(v).__name__)
        in_loop = bool(self.symloops)
        if isinstance(i, (int, IntV, bool)):
            idx, ok = self.norm_index(i, t.len)
            if not ok:
                if self.lengths_only:
                    return
                raise NotProved('store at an index of unknown sign')
            it = idx if isinstance(idx, int) else idx.t
            ilvl = level_of(idx) if isinstance(idx, IntV) else None
            if isinstance(v, ArrRef):
                raise Unsupported('array stored into an element')
            const_store = isinstance(v, (int, float)) and not in_loop and ilvl is None
            self.store_check(ref, it, ilvl, None, 'element store', only_views=True)
            if const_store and (t.fill is None or _is0(t.cupto)) and _is0(it):
                t = t.with_(fill=v, cupto=1, cpc=lmax(t.cpc, self.st.pc))
            elif const_store and t.fill is not None and same_const(t.fill, v) and self.prove(zt(it) <= zt(t.cupto)):
                t = t.with_(cupto=simp(z3.If(zt(t.cupto) >= zt(it) + 1, zt(t.cupto), zt(it) + 1)), cpc=lmax(t.cpc, self.st.pc))
            else:
                self.store_check(ref, it, ilvl, level_of(v), 'element store')
                t = self.T(ref)
                if t.fill is not None:
                    t = t.with_(cupto=lmin(t.cupto, self.lower_bound(it)))
            self.st.heap[ref.id] = t
            return
        if isinstance(i, slice):
            a, b, al, bl = self.slice_bounds(t, i)
            at, bt = len_term(a), len_term(b)
            alvl = lmax(al, bl)
            if isinstance(v, ArrRef):
                tv = self.T(v)
                if tv.kind != '1d':
                    raise Unsupported('slice store of ' + tv.kind)
                # element a + j receives v[j] of level max(j + lagv, basev); at the lowest index j = 0
                self.store_check(ref, at, alvl, tv.base, 'slice store', pos_lag=tv.lag)
                if tv.lag is None and tv.base is not None:
                    pass
                t = self.T(ref)
                if not in_loop and alvl is None and tv.fill is not None and (t.fill is None or _is0(t.cupto)) and _is0(at):
                    t = t.with_(fill=tv.fill, cupto=tv.cupto)
                elif not in_loop and alvl is None and tv.fill is not None and t.fill is not None and same_const(tv.fill, t.fill) \
                        and self.prove(zt(at) <= zt(t.cupto)):
                    # [0, a) constant already, [a, a + cupto_v) constant by v; whatever followed is overwritten up to b
                    t = t.with_(cupto=simp(zt(at) + zt(tv.cupto)))
                elif t.fill is not None:
                    t = t.with_(cupto=lmin(t.cupto, self.lower_bound(at)))
                self.st.heap[ref.id] = t
                return
            const_store = isinstance(v, (int, float)) and not in_loop and alvl is None
            self.store_check(ref, at, alvl, None, 'slice store', only_views=True)
            # a constant stored at [a, b) with bounds that do not depend on n or data establishes / extends the constant region:
            # these elements are described by their value, not by a level (the merge of two paths re-types whatever is constant
            # on one side only, see merge_arrt)
            if const_store and (t.fill is None or _is0(t.cupto)) and _is0(at):
                t = t.with_(fill=v, cupto=lmin(bt, len_term(t.len)), cpc=lmax(t.cpc, self.st.pc))
            elif const_store and t.fill is not None and same_const(t.fill, v) and self.prove(zt(at) <= zt(t.cupto)):
                t = t.with_(cupto=simp(z3.If(zt(t.cupto) >= zt(bt), zt(t.cupto), zt(bt))), cpc=lmax(t.cpc, self.st.pc))
            else:
                self.store_check(ref, at, alvl, level_of(v), 'slice store')
                t = self.T(ref)
                if t.fill is not None:
                    t = t.with_(cupto=lmin(t.cupto, self.lower_bound(at)))
            self.st.heap[ref.id] = t
            return
        if isinstance(i, ArrRef):
            ti = self.T(i)
            if ti.isbool and ti.kind == '1d':
                # masked store: element k receives v where mask[k]; the mask's own level flows into the element
                if isinstance(v, ArrRef):
                    raise Unsupported('masked store of an array')
                self.store_check(ref, 0, None, lmax(level_of(v), ti.base), 'masked store', pos_lag=ti.lag)
                t = self.T(ref)
                if t.fill is not None:
                    self.st.heap[ref.id] = t.with_(cupto=0, fill=None)
                return
            raise Unsupported('fancy store')
        raise Unsupported(f'store index {type(i).__name__}')

    # ------------------------------------------------------------------------------------------ statements
    def block(self, stmts, mod):
        """executes stmts on self.st; returns False when the current path ended (return / raise / continue / break)"""
        for st in stmts:
            m = getattr(self, 's_' + type(st).__name__, None)
            if m is None:
                raise Unsupported(f'statement {type(st).__name__}')
            if m(st, mod) is False:
                return False
        return True

    def s_Expr(self, st, mod):
        if isinstance(st.value, ast.Constant):
            return
        self.eval(st.value, mod)

    def s_Pass(self, st, mod):
        pass

    def s_Return(self, st, mod):
        v = None if st.value is None else self.eval(st.value, mod)
        fr = self.frames[-1]
        if fr.loops:
            raise Unsupported('return inside a loop')
        fr.returns.append((v, self.st))
        return False

    def s_Raise(self, st, mod):
        return False

    def s_Assert(self, st, mod):
        c = self.truth(self.eval(st.test, mod))
        if isinstance(c, BoolV) and c.t is not None:
            self.assume(c.t)

    def s_Import(self, st, mod):
        for a in st.names:
            self.st.env[a.asname or a.name.split('.')[0]] = self.modval(a.name if a.asname else a.name.split('.')[0])

    def s_ImportFrom(self, st, mod):
        m = st.module or ''
        if st.level:
            parts = mod.name.split('.')
            if not mod.is_pkg:
                parts = parts[:-1]
            parts = parts[:len(parts) - (st.level - 1)]
            m = '.'.join(parts + ([st.module] if st.module else []))
        for a in st.names:
            if self.repo.has_module(m):
                if a.name in self.repo.module(m).top:
                    # a package attribute shadows the submodule of the same name (from . import sma gives the function)
                    self.st.env[a.asname or a.name] = self.resolve(self.repo.module(m), a.name)
                elif self.repo.has_module(f'{m}.{a.name}'):
                    self.st.env[a.asname or a.name] = Module(f'{m}.{a.name}')
                else:
                    self.st.env[a.asname or a.name] = self.resolve(self.repo.module(m), a.name)
            else:
                full = f'{m}.{a.name}'
                self.st.env[a.asname or a.name] = EXT_CONSTS.get(full, Ext(full))

    def s_FunctionDef(self, st, mod):
        self.st.env[st.name] = Fn(RepoFunc(f'{mod.name}.<local>.{st.name}', st, mod), env=self.st.env)

    def s_Global(self, st, mod):
        raise Unsupported('global')

    def s_With(self, st, mod):
        for item in st.items:
            src = ast.unparse(item.context_expr)
            if 'errstate' not in src and 'catch_warnings' not in src:
                raise Unsupported(f'with {src}')
        return self.block(st.body, mod)

    def s_Try(self, st, mod):
        names = []
        for h in st.handlers:
            if h.type is None:
                raise Unsupported('bare except')
            names.append(ast.unparse(h.type))
        if not all(n in ('ImportError', 'ModuleNotFoundError', '(ImportError, ModuleNotFoundError)') for n in names):
            raise Unsupported('try/except other than ImportError')
        for part in (st.body, st.orelse, st.finalbody):
            if self.block(part, mod) is False:
                return False

    def bind(self, target, v, mod):
        if isinstance(target, ast.Name):
            self.st.env[target.id] = v
            return
        if isinstance(target, (ast.Tuple, ast.List)):
            if isinstance(v, NT):
                v = v.vals
            items = self.iterate(v)
            if len(items) != len(target.elts):
                raise Unsupported('unpacking arity')
            for e, x in zip(target.elts, items):
                self.bind(e, x, mod)
            return
        if isinstance(target, ast.Subscript):
            base = self.eval(target.value, mod)
            idx = self.eval(target.slice, mod)
            if isinstance(base, (list, dict)):
                if isinstance(idx, (int, str)):
                    base[idx] = v
                    return
                raise Unsupported('abstract index into a python container')
            if isinstance(base, ArrRef):
                self.setitem(base, idx, v, target)
                return
            raise Unsupported('store into ' + type(base).__name__)
        raise Unsupported(f'assignment target {type(target).__name__}')

    def s_Assign(self, st, mod):
        v = self.eval(st.value, mod)
        for t in st.targets:
            self.bind(t, v, mod)

    def s_AnnAssign(self, st, mod):
        if st.value is not None:
            self.bind(st.target, self.eval(st.value, mod), mod)

    def s_AugAssign(self, st, mod):
        load = ast.Name(id=st.target.id, ctx=ast.Load()) if isinstance(st.target, ast.Name) else \
            ast.Subscript(value=st.target.value, slice=st.target.slice, ctx=ast.Load())
        ast.copy_location(load, st)
        cur = self.eval(load, mod)
        rhs = self.eval(st.value, mod)
        if isinstance(cur, ArrRef) and isinstance(st.target, ast.Name):
            # in-place update of a whole array: a fresh element type
            self.st.env[st.target.id] = self.binop(type(st.op).__name__, cur, rhs)
            return
        if isinstance(cur, list) and type(st.op).__name__ == 'Add':
            self.bind(st.target, cur + list(rhs), mod)
            return
        self.bind(st.target, self.binop(type(st.op).__name__, cur, rhs), mod)

    def s_Delete(self, st, mod):
        for t in st.targets:
            if isinstance(t, ast.Name):
                self.st.env.pop(t.id, None)

    # ---- if
    def _marks(self, fr):
        lr = fr.loops[-1] if fr.loops else None
        return (len(fr.returns), len(lr.continues) if lr else 0)

    def s_If(self, st, mod):
        c = self.truth(self.eval(st.test, mod))
        if isinstance(c, BoolV):
            c = self.decide_static(c)
        if isinstance(c, bool):
            return self.block(st.body if c else st.orelse, mod)
        pre = self.st
        fr = self.frames[-1]
        m0 = self._marks(fr)
        entry_pc = lmax(pre.pc, c.lvl)
        outs = []
        for body, neg in ((st.body, False), (st.orelse, True)):
            self.st = pre.copy()
            if c.t is not None:
                self.st.assumps.append(z3.Not(c.t) if neg else c.t)
            self.st.pc = entry_pc
            alive = self.block(body, mod)
            outs.append((alive is not False, self.st))
        (a1, s1), (a2, s2) = outs
        left_inside = self._marks(fr) != m0        # some path of this statement ended by return / continue: a flow for what follows
        if a1 and a2:
            self.st = self.merge_states(s1, s2, c, pre)
            self.st.pc = lmax(s1.pc, s2.pc) if left_inside else lmax(pre.pc, s1.pc if not _teq(s1.pc, entry_pc) else None,
                                                                      s2.pc if not _teq(s2.pc, entry_pc) else None)
            return True
        if a1 or a2:
            s = s1 if a1 else s2
            self.st = s
            if left_inside:
                self.st.pc = lmax(entry_pc, s.pc)
            else:
                # the other branch ended by raise only: no run to compare with, the condition is simply assumed from here on
                self.st.pc = pre.pc if _teq(s.pc, entry_pc) else lmax(pre.pc, s.pc)
            return True
        self.st = s1
        return False

    def merge_value(self, a, b, c, sa, sb, out):
        """join of two values at a control-flow merge governed by condition c (level c.lvl)"""
        if a is b:
            return a
        cl = c.lvl if c is not None else None
        if isinstance(a, (int, float, bool, str, type(None))) and isinstance(b, (int, float, bool, str, type(None))) \
                and not isinstance(a, str) and type(a) == type(b) and (a == b or (is_nan(a) and is_nan(b))):
            return a
        if isinstance(a, bool) and isinstance(b, bool) or isinstance(a, BoolV) and isinstance(b, (BoolV, bool)) or isinstance(b, BoolV) and isinstance(a, bool):
            return BoolV(None, lmax(level_of(a), level_of(b), cl))
        if isinstance(a, (int, IntV)) and isinstance(b, (int, IntV)) and not isinstance(a, bool) and not isinstance(b, bool):
            ta = a if isinstance(a, int) else a.t
            tb = b if isinstance(b, int) else b.t
            dl = lmax(a.dl if isinstance(a, IntV) else None, b.dl if isinstance(b, IntV) else None, cl)
            if c is not None and c.t is not None:
                return mkint(z3.If(c.t, zt(ta), zt(tb)), dl)
            return self.havoc_int(dl)
        if isinstance(a, (int, float, IntV, FloatV)) and isinstance(b, (int, float, IntV, FloatV)):
            return FloatV(lmax(level_of(a), level_of(b), cl))
        if isinstance(a, ArrRef) and isinstance(b, ArrRef) and a.id == b.id:
            return a        # one object: every store into it was checked against the pc of its own path
        if isinstance(a, ArrRef) and isinstance(b, ArrRef):
            ta, tb = sa.heap[a.id], sb.heap[b.id]
            m = self.merge_arrt(ta, tb, cl, None, None, same_obj=False)
            i = next(self.ids)
            out.heap[i] = self.normalise(m.with_(site=None, view_of=None))
            return ArrRef(i)
        if isinstance(a, NT) and isinstance(b, NT) and a.t.name == b.t.name:
            return NT(a.t, [self.merge_value(x, y, c, sa, sb, out) for x, y in zip(a.vals, b.vals)])
        if isinstance(a, (tuple, list)) and isinstance(b, (tuple, list)) and len(a) == len(b) and type(a) == type(b):
            return type(a)(self.merge_value(x, y, c, sa, sb, out) for x, y in zip(a, b))
        if isinstance(a, (Fn, Ext, Builtin, Module, NTType)) and type(a) == type(b) and a.name == b.name:
            return a
        if a is None and isinstance(b, FloatV) or b is None and isinstance(a, FloatV):
            # None for NaN in single-value results: not a series
            return FloatV(lmax(level_of(a), level_of(b), cl))
        raise Unsupported(f'merge of {type(a).__name__} and {type(b).__name__}')

    def merge_arrt(self, ta, tb, cl, pa, pb, same_obj=True):
        if ta is tb:
            return ta
        if ta.kind != tb.kind:
            raise Unsupported('merge of arrays of different kinds')
        if ta.lag is None and tb.lag is None:
            lag = None
        elif ta.lag is None or tb.lag is None:
            lag = ta.lag if tb.lag is None else tb.lag
        else:
            lag = lmax(ta.lag, tb.lag)
        same_type = _teq(ta.lag, tb.lag) and _teq(ta.base, tb.base) and _teq(ta.cupto, tb.cupto) and _teq(len_term(ta.len), len_term(tb.len)) \
            and (ta.fill is tb.fill or same_const(ta.fill, tb.fill)) and _teq(ta.cpc, tb.cpc) and _teq(ta.rowlag, tb.rowlag)
        if same_type and (same_obj or cl is None):
            return ta
        base = lmax(ta.base, tb.base, pa, pb, None if same_obj else cl)
        fill, cupto = None, 0
        ca = ta.cupto if ta.fill is not None else 0
        cb = tb.cupto if tb.fill is not None else 0
        if ta.fill is not None and tb.fill is not None and same_const(ta.fill, tb.fill):
            fill, cupto = ta.fill, lmin(ca, cb)
        # positions that are constant on one side only (or constant with different values) become typed positions: which side
        # ran is information of level cl, so cl must fit the type there
        cpc = lmax(ta.cpc, tb.cpc)
        if cl is not None and cpc is not None and same_obj:
            r_lo = zt(cupto)
            cmax = z3.If(zt(ca) >= zt(cb), zt(ca), zt(cb))
            fits = z3.Or(r_lo >= cmax, r_lo >= zt(len_term(ta.len)), r_lo >= zt(len_term(tb.len)))
            if lag is not None:
                fits = z3.Or(fits, zt(cl) <= r_lo + zt(lag))
            if base is not None:
                fits = z3.Or(fits, zt(cl) <= zt(base))
            if not self.prove(fits):
                base = lmax(base, cl)
        ln = ta.len
        if not _teq(len_term(ta.len), len_term(tb.len)):
            ln = IntV(self.fresh_int('len'), N)
            # a length that depends on the branch: only the common prefix of positions is compared; keep it abstract
        return ArrT(ln, lag, base, cupto, fill, ta.kind, ta.cols, site=ta.site if ta.site == tb.site else None,
                    view_of=ta.view_of if ta.view_of == tb.view_of else None, isbool=ta.isbool and tb.isbool, cpc=cpc,
                    rowlag=lmax(ta.rowlag, tb.rowlag))

    def merge_states(self, s1, s2, c, pre):
        out = State({}, {}, list(pre.assumps), pre.pc)
        cl = c.lvl if c is not None else None
        for id_ in set(s1.heap) | set(s2.heap):
            if id_ in s1.heap and id_ in s2.heap:
                out.heap[id_] = self.normalise(self.merge_arrt(s1.heap[id_], s2.heap[id_], cl, None, None))
            else:
                out.heap[id_] = s1.heap.get(id_) or s2.heap.get(id_)
        for k in set(s1.env) | set(s2.env):
            if k in s1.env and k in s2.env:
                a, b = s1.env[k], s2.env[k]
                if isinstance(a, ArrRef) and isinstance(b, ArrRef) and a.id == b.id:
                    out.env[k] = a
                else:
                    out.env[k] = self.merge_value(a, b, c, s1, s2, out)
            else:
                # bound on one side only: usable only when that side ran; keep it (Python would raise otherwise) with the condition's level
                v = s1.env.get(k, s2.env.get(k))
                out.env[k] = self.raise_level(v, cl, out)
        return out

    def raise_level(self, v, l, st):
        if l is None:
            return v
        if isinstance(v, FloatV):
            return FloatV(lmax(v.lvl, l))
        if isinstance(v, (float,)):
            return FloatV(l)
        if isinstance(v, BoolV):
            return BoolV(v.t, lmax(v.lvl, l))
        if isinstance(v, bool):
            return BoolV(None, l)
        if isinstance(v, IntD):
            return IntD(v.t, lmax(v.dl, l))
        if isinstance(v, IntV):
            return IntV(v.t, lmax(v.dl, l))
        if isinstance(v, int):
            return IntD(v, l)
        return v

    # ---- loops
    def s_While(self, st, mod):
        raise Unsupported('while loop')

    def s_Break(self, st, mod):
        raise Unsupported('break')

    def s_Continue(self, st, mod):
        fr = self.frames[-1]
        if not fr.loops:
            raise Unsupported('continue outside a loop')
        fr.loops[-1].continues.append(self.st)
        return False

    def s_For(self, st, mod):
        if st.orelse:
            raise Unsupported('for-else')
        it = self.eval(st.iter, mod)
        if not isinstance(it, tuple) or not it or it[0] != 'range':
            items = self.iterate(it)
            return self.unrolled(st, items, mod)
        _, lo, hi, step = it
        if isinstance(lo, int) and isinstance(hi, int) and isinstance(step, int):
            r = range(lo, hi, step)
            if len(r) <= 4:
                return self.unrolled(st, list(r), mod)
        if step != 1:
            raise Unsupported('loop step')
        if not isinstance(st.target, ast.Name):
            raise Unsupported('loop target')
        return self.symbolic_loop(st, lo, hi, mod)

    def unrolled(self, st, items, mod):
        fr = self.frames[-1]
        for x in items:
            self.bind(st.target, x, mod)
            lr = LoopRec(None, None)
            fr.loops.append(lr)
            try:
                alive = self.block(st.body, mod)
            finally:
                fr.loops.pop()
            if lr.continues:
                states = lr.continues + ([self.st] if alive is not False else [])
                cur = states[0]
                for s in states[1:]:
                    cur = self.merge_states(cur, s, BoolV(None, lmax(cur.pc, s.pc)), cur)
                    cur.pc = lmax(cur.pc, s.pc)
                self.st = cur
            elif alive is False:
                raise Unsupported('loop body always leaves')
        return True

    def written_names(self, body):
        out = set()
        for n in ast.walk(ast.Module(body=body, type_ignores=[])):
            if isinstance(n, ast.Name) and isinstance(n.ctx, (ast.Store, ast.Del)):
                out.add(n.id)
        return out

    def symbolic_loop(self, st, lo, hi, mod):
        fr = self.frames[-1]
        pre = self.st
        W = self.written_names(st.body) - {st.target.id}
        lo_t, hi_t = len_term(lo), len_term(hi)
        lo_l = level_of(lo) if isinstance(lo, IntV) else None
        hi_l = hi.dl if isinstance(hi, IntV) else None
        carried = {}
        for w in sorted(W):
            if w not in pre.env:
                continue
            v = pre.env[w]
            if isinstance(v, (ArrRef,)):
                raise Unsupported(f'array variable {w} reassigned in a loop')
            if isinstance(v, (list, tuple, dict, NT, str)) or v is None:
                raise Unsupported(f'{type(v).__name__} variable {w} reassigned in a loop')
            carried[w] = v
        cs = {w: 0 for w in carried}          # index into SCALAR_C ; len(SCALAR_C) = TOP
        bs = {w: pre.pc for w in carried}     # constant part of the invariant level(w) <= max(i + c, entry level, b)
        fam = {w: 1 for w in carried}         # 2: level(w) <= entry level + (i - lo) + c  (a window that moves with another loop)
        rounds = 0
        while True:
            rounds += 1
            if rounds > 10 * (len(carried) + 1) + 2:
                raise Unsupported('loop invariant search did not settle')
            i = self.fresh_int(st.target.id)
            self.st = pre.copy()
            self.assume(z3.And(zt(lo_t) <= i, i < zt(hi_t)))
            # existence of iteration i: i < hi
            struct = isinstance(hi, IntV) and hi.st
            el = self.struct_level('Lt', i, zt(hi_t)) if struct else None
            el = lmax(el, hi_l, lo_l)
            self.st.pc = lmax(pre.pc, el)
            self.st.env[st.target.id] = IntV(i, lo_l)

            def templ(w, at):
                k = cs[w]
                l0 = level_of(carried[w])
                if k >= len(SCALAR_C):
                    return N
                if fam[w] == 2:
                    anchor = lmax(l0, bs[w])
                    return lmax(simp(zt(anchor) + (zt(at) - zt(lo_t)) + SCALAR_C[k]), anchor)
                return lmax(ladd(at, SCALAR_C[k]), l0, bs[w])
            for w, v in carried.items():
                l = templ(w, i)
                if isinstance(v, (bool, BoolV)):
                    self.st.env[w] = BoolV(None, l)
                elif isinstance(v, (int, IntV)):
                    self.st.env[w] = IntV(self.fresh_int(w), l)
                else:
                    self.st.env[w] = FloatV(l)
            lr = LoopRec(i, lo_t)
            fr.loops.append(lr)
            self.symloops.append((i, lo_t))
            try:
                alive = self.block(st.body, mod)
            finally:
                fr.loops.pop()
                self.symloops.pop()
            ends = list(lr.continues) + ([self.st] if alive is not False else [])
            if not ends:
                raise Unsupported('loop body always leaves')
            end = ends[0]
            for s in ends[1:]:
                end = self.merge_states(end, s, BoolV(None, lmax(end.pc, s.pc)), end)
                end.pc = lmax(end.pc, s.pc)
            end.assumps = [a for a in pre.assumps] + [z3.And(zt(lo_t) <= i, i < zt(hi_t))]
            self.st = end
            changed = False
            for w in carried:
                nv = end.env.get(w)
                if isinstance(nv, (ArrRef, list, tuple, dict, NT)) or nv is None:
                    raise Unsupported(f'loop variable {w} changes its kind')
                nl = lmax(level_of(nv), end.pc if len(ends) > 1 else None)
                if not self.le(nl, templ(w, i + 1)):
                    b0 = _subst_level(nl, i, lo_t)
                    nb = lmax(bs[w], b0)
                    if not mentions_fresh(nb) and not _teq(nb, bs[w]) and cs[w] < len(SCALAR_C):
                        bs[w] = nb
                    else:
                        cs[w] += 1
                        if cs[w] >= len(SCALAR_C) and fam[w] == 1 and lmax(level_of(carried[w]), bs[w]) is not None:
                            fam[w], cs[w] = 2, 0
                    changed = True
            if not changed:
                break
        # exit state
        out = end
        out.assumps = list(pre.assumps)
        out.pc = pre.pc
        hi_minus = simp(zt(hi_t) - 1)
        for w in W | {st.target.id}:
            if w not in out.env:
                continue
            v = out.env[w]
            if w in carried:
                l = N if (struct or cs[w] >= len(SCALAR_C)) else lmax(templ(w, zt(hi_t)), el)
            else:
                l = N if struct else lmax(_subst_level(level_of(v), i, hi_minus), el)
            if w == st.target.id:
                out.env[w] = IntV(self.fresh_int(w), l) if not isinstance(hi_minus, int) or True else hi_minus
            elif isinstance(v, (bool, BoolV)):
                out.env[w] = BoolV(None, l)
            elif isinstance(v, (int, IntV)):
                out.env[w] = IntV(self.fresh_int(w), l)
            elif isinstance(v, (float, FloatV)):
                out.env[w] = FloatV(l)
            elif isinstance(v, ArrRef):
                t = out.heap[v.id]
                if t.site is not None and w not in carried:
                    # array allocated inside the body: its type mentions the loop variable
                    out.env.pop(w)
            else:
                out.env.pop(w)
        # array types must not keep the loop variable
        for id_, t in list(out.heap.items()):
            for f in ('cupto', 'base', 'lag'):
                x = getattr(t, f)
                if x is not None and not isinstance(x, int) and _mentions(x, i):
                    if f == 'cupto':
                        t = t.with_(cupto=0, fill=None)
                    elif f == 'base':
                        t = t.with_(base=N if struct else _subst_level(x, i, hi_minus))
                        out.heap[id_] = t
                    else:
                        t = None
                        break
            if t is None:
                # a temporary of the loop body (a window cut at the loop variable): dead after the loop
                del out.heap[id_]
                for k in [k for k, v in out.env.items() if isinstance(v, ArrRef) and v.id == id_]:
                    del out.env[k]
            else:
                    out.heap[id_] = t
        self.st = out
        return True

    # ------------------------------------------------------------------------------------------ calls
    def call(self, f, args, kwargs, node=None):
        if isinstance(f, Builtin):
            return self.call_builtin(f.name, args, kwargs, node)
        if isinstance(f, Ext):
            from . import causal_np
            return causal_np.call_ext(self, f.name, args, kwargs, node)
        if isinstance(f, NTType):
            vals = list(args) + [kwargs[n] for n in f.fields[len(args):]]
            if len(vals) != len(f.fields):
                raise Unsupported('namedtuple arity')
            return NT(f, vals)
        if isinstance(f, Method):
            from . import causal_np
            return causal_np.call_method(self, f.obj, f.name, args, kwargs, node)
        if isinstance(f, Fn):
            return self.call_repo(f, args, kwargs)
        raise Unsupported(f'call of {type(f).__name__}')

    def call_builtin(self, name, args, kwargs, node):
        if name == 'range':
            a = [x for x in args]
            for x in a:
                if not isinstance(x, (int, IntV)) or isinstance(x, (bool, IntD)):
                    raise Unsupported('range over ' + type(x).__name__)
            if len(a) == 1:
                lo, hi, step = 0, a[0], 1
            elif len(a) == 2:
                lo, hi, step = a[0], a[1], 1
            else:
                lo, hi, step = a
            if all(isinstance(x, int) for x in (lo, hi, step)):
                r = range(lo, hi, step)
                if len(r) <= 4:
                    return r
            return ('range', lo, hi, step)
        if name == 'len':
            v = args[0]
            if isinstance(v, (list, tuple, str, dict)):
                return len(v)
            if isinstance(v, NT):
                return len(v.vals)
            if isinstance(v, ArrRef):
                return self.T(v).len
            raise Unsupported('len of ' + type(v).__name__)
        if name == 'isinstance':
            v, t = args
            names = [getattr(x, 'name', str(x)) for x in (t if isinstance(t, tuple) else (t,))]
            if isinstance(v, ArrRef):
                return any(n in ('numpy.ndarray',) for n in names)
            pt = {'int': int, 'float': float, 'str': str, 'bool': bool, 'list': list, 'tuple': tuple, 'dict': dict}
            if isinstance(v, IntV):
                return 'int' in names
            if isinstance(v, FloatV):
                return 'float' in names
            return any(isinstance(v, pt[n]) for n in names if n in pt)
        if name in ('print',):
            return None
        if name in ('ValueError', 'TypeError', 'IndexError', 'Exception', 'ImportError', 'NotImplementedError', 'ZeroDivisionError'):
            return ('exc', name)
        if name in ('list', 'tuple'):
            if not args:
                return [] if name == 'list' else ()
            items = self.iterate(args[0])
            return list(items) if name == 'list' else tuple(items)
        if name in ('zip', 'enumerate', 'reversed', 'sorted'):
            if name == 'zip':
                return list(zip(*[self.iterate(a) for a in args]))
            if name == 'enumerate':
                return list(enumerate(self.iterate(args[0])))
            if name == 'reversed':
                return list(reversed(self.iterate(args[0])))
            items = self.iterate(args[0])
            if all(isinstance(x, (int, float)) for x in items):
                return sorted(items)
            raise Unsupported('sorted of abstract values')
        if name in ('any', 'all'):
            items = [self.truth(x) for x in self.iterate(args[0])]
            acc = (name == 'all')
            for x in items:
                acc = self.band(acc, x, is_and=(name == 'all'))
            return acc
        if name in ('abs', 'float', 'round', 'pow', 'min', 'max', 'sum', 'int', 'bool', 'divmod', 'str'):
            flat = []
            for a in args:
                if isinstance(a, (list, tuple)):
                    flat.extend(a)
                else:
                    flat.append(a)
            if any(isinstance(a, ArrRef) for a in flat):
                if name in ('sum', 'max', 'min') and len(args) == 1 and isinstance(args[0], ArrRef):
                    from . import causal_np
                    return causal_np.reduce_all(self, args[0])
                if name == 'abs':
                    return self.elementwise([args[0]], arith=True)
                raise Unsupported(f'{name} over arrays')
            if all(isinstance(a, (int, float, bool)) for a in flat):
                try:
                    return {'abs': abs, 'float': float, 'round': round, 'pow': pow, 'min': min, 'max': max, 'sum': sum, 'int': int, 'bool': bool,
                            'divmod': divmod, 'str': str}[name](*args, **kwargs)
                except (TypeError, ValueError, OverflowError):
                    raise Unsupported(f'builtin {name} on constants')
            l = lmax(*[level_of(a) for a in flat])
            if name == 'str':
                return '<str>'
            if name == 'bool':
                return BoolV(None, l)
            if name == 'int':
                if len(flat) == 1 and isinstance(flat[0], IntV):
                    return flat[0]
                return self.havoc_int(l)
            if name in ('min', 'max') and all(isinstance(a, (int, IntV)) and not isinstance(a, IntD) for a in flat):
                r = flat[0]
                for x in flat[1:]:
                    ta, tb = zt(len_term(r)), zt(len_term(x))
                    cond = (ta <= tb) if name == 'min' else (ta >= tb)
                    r = mkint(z3.If(cond, ta, tb), lmax(r.dl if isinstance(r, IntV) else None, x.dl if isinstance(x, IntV) else None))
                return r
            if name in ('abs', 'round', 'sum', 'min', 'max') and all(isinstance(a, (int, IntV)) for a in flat) and name != 'round':
                return self.havoc_int(l)
            return FloatV(l)
        raise Unsupported(f'builtin {name}')

    def call_repo(self, f, args, kwargs):
        rf = f.rf
        q = rf.qual
        if q == 'jesse.helpers.get_config':
            return args[1] if len(args) > 1 else kwargs.get('default')
        if len(self.stack) >= self.inline_depth:
            raise Unsupported('inline depth')
        if any('guvectorize' in (d or '') for d in rf.decorators):
            raise Unsupported('guvectorize kernel')
        if any('jit' in (d or '') for d in rf.decorators):
            self.kernels.add(q)
        node = rf.node
        env = dict(f.env) if f.env else {}
        a = node.args
        params = [p.arg for p in a.posonlyargs + a.args]
        defaults = [None] * (len(params) - len(a.defaults)) + list(a.defaults)
        if len(args) > len(params):
            if a.vararg is None:
                raise Unsupported('too many positional arguments')
            env[a.vararg.arg] = tuple(args[len(params):])
            args = args[:len(params)]
        elif a.vararg is not None:
            env[a.vararg.arg] = ()
        saved_env = self.st.env
        for i, p in enumerate(params):
            if i < len(args):
                env[p] = args[i]
            elif p in kwargs:
                env[p] = kwargs[p]
            elif defaults[i] is not None:
                self.st.env = {}
                env[p] = self.eval(defaults[i], rf.mod)
                self.st.env = saved_env
            else:
                raise Unsupported(f'missing argument {p}')
        for p, d in zip(a.kwonlyargs, a.kw_defaults):
            if p.arg in kwargs:
                env[p.arg] = kwargs[p.arg]
            elif d is not None:
                self.st.env = {}
                env[p.arg] = self.eval(d, rf.mod)
                self.st.env = saved_env
        extra = set(kwargs) - set(params) - {p.arg for p in a.kwonlyargs}
        if extra:
            if a.kwarg is None:
                raise Unsupported(f'unexpected keyword {extra}')
            env[a.kwarg.arg] = {k: kwargs[k] for k in extra}
        for v in env.values():
            if isinstance(v, int) and not isinstance(v, bool) and v > 3:
                self.param_ints.add(v)
                self.param_ints.add(v - 1)
        caller_pc = self.st.pc
        caller_assumps = list(self.st.assumps)
        self.st.env = env
        fr = Frame(q)
        self.frames.append(fr)
        self.stack.append(q.split('.')[-1])
        saved_loops = self.symloops
        try:
            alive = self.block(node.body, rf.mod)
            if alive is not False:
                fr.returns.append((None, self.st))
        finally:
            self.frames.pop()
            self.stack.pop()
        if not fr.returns:
            raise Unsupported('function never returns normally')
        # join of all return paths: values and heap; each path contributes its pc
        val, s = fr.returns[0]
        for v2, s2 in fr.returns[1:]:
            cl = lmax(s.pc, s2.pc)
            c = BoolV(None, cl)
            merged = self.merge_states(s, s2, c, s)
            val = self.merge_value(val, v2, c, s, s2, merged)
            # arrays created by raise_value / merge_value live in s / s2 heaps: carry them over
            for h in (s.heap, s2.heap):
                for id_, t in h.items():
                    merged.heap.setdefault(id_, t)
            merged.pc = cl
            s = merged
        s.env = saved_env
        s.pc = caller_pc
        s.assumps = caller_assumps if len(fr.returns) > 1 else [a for a in s.assumps]
        self.st = s
        return val

    def raise_value(self, v, l, st):
        """a returned value seen by the caller: arrays get the pc of their return path as base (outside the constant region)"""
        if l is None:
            return v
        if isinstance(v, ArrRef):
            t = st.heap[v.id]
            i = next(self.ids)
            st.heap[i] = t.with_(base=lmax(t.base, l), site=None, view_of=None)
            return ArrRef(i)
        if isinstance(v, NT):
            return NT(v.t, [self.raise_value(x, l, st) for x in v.vals])
        if isinstance(v, (tuple, list)):
            return type(v)(self.raise_value(x, l, st) for x in v)
        return self.raise_level(v, l, st)

    # ------------------------------------------------------------------------------------------ numpy element-wise core
    def elementwise(self, operands, arith, isbool=False, nanprop=None):
        """element-wise combination of aligned arrays and scalars"""
        arrs = [(o, self.T(o)) for o in operands if isinstance(o, ArrRef)]
        scal = [o for o in operands if not isinstance(o, ArrRef)]
        for o in scal:
            if isinstance(o, (list, tuple, NT, dict, str)) or o is None:
                raise Unsupported('element-wise operation with ' + type(o).__name__)
        kinds = {t.kind for _, t in arrs}
        pos = [t for _, t in arrs if t.lag is not None or t.kind in ('2d', 'win')]
        kind, cols = '1d', None
        if kinds == {'1d'}:
            pass
        elif 'win' in kinds and kinds <= {'win', '1d', 'col'} and all(t.lag is None for _, t in arrs if t.kind == '1d'):
            kind = 'win'
            cols = next(t.cols for _, t in arrs if t.kind == 'win')
        elif kinds == {'2d'}:
            kind, cols = '2d', arrs[0][1].cols
        elif kinds == {'win'}:
            kind, cols = 'win', arrs[0][1].cols
        else:
            raise Unsupported('element-wise operation on ' + '/'.join(sorted(kinds)))
        main = [t for _, t in arrs if t.kind == kind]
        posm = [t for t in main if t.lag is not None] or main
        ln = posm[0].len
        for t in main[1:]:
            # numpy raises unless the lengths agree (or one side has length 1): positions are aligned whenever a result exists
            pass
        lag = None
        for t in main:
            if t.lag is not None:
                lag = t.lag if lag is None else lmax(lag, t.lag)
        base = lmax(*[t.base for _, t in arrs], *[level_of(s) for s in scal])
        rowlag = None
        if kind == 'win':
            # W[j, t] op col[j]: the column's lag counts per row, not per position inside the window
            rowlag = lmax(*[t.rowlag for t in main], *[t.lag for _, t in arrs if t.kind == 'col' and t.lag is not None])
            base = lmax(base, *[N for _, t in arrs if t.kind == 'col' and t.lag is None and False])
        fill, cupto = None, 0
        use_nan = arith if nanprop is None else nanprop
        if use_nan:
            for t in main:
                if t.fill is not None and is_nan(t.fill):
                    c = t.cupto
                    cupto = c if fill is None else simp(z3.If(zt(cupto) >= zt(c), zt(cupto), zt(c)))
                    fill = t.fill
        if fill is None and len(main) == 1 and not scal and main[0].fill is not None and use_nan and isinstance(main[0].fill, (int, float)) and main[0].fill == 0 and False:
            pass
        return self.new_arr(ArrT(ln, lag, base, cupto, fill, kind, cols, isbool=isbool, rowlag=rowlag if kind == 'win' else None))

    def np_dot(self, a, b):
        from . import causal_np
        return causal_np.np_dot(self, a, b)


def len_term(x):
    if isinstance(x, int):
        return x
    if isinstance(x, IntV):
        return x.t
    raise Unsupported('length of type ' + type(x).__name__)


def _is0(x):
    return isinstance(x, int) and x == 0


def clamp_len(t):
    return t.cupto


def _teq(a, b):
    if a is None or b is None:
        return a is None and b is None
    if isinstance(a, int) or isinstance(b, int):
        return isinstance(a, int) and isinstance(b, int) and a == b
    return a.eq(b)


def _mentions(t, var):
    if isinstance(t, int) or t is None:
        return False
    if t.eq(var):
        return True
    return any(_mentions(c, var) for c in t.children())


def mentions_fresh(t):
    if isinstance(t, int) or t is None:
        return False
    if z3.is_const(t) and t.decl().kind() == z3.Z3_OP_UNINTERPRETED:
        return '!' in t.decl().name()
    return any(mentions_fresh(c) for c in t.children())


def _subst_level(l, var, val):
    if l is None or isinstance(l, int):
        return l
    return simp(z3.substitute(zt(l), (var, zt(val))))


# ------------------------------------------------------------------------------------------------ driver
def check_result(an, v, path='value'):
    """-> list of (field, ok, detail) for every series in the result"""
    out = []
    if isinstance(v, NT):
        for f, x in zip(v.t.fields, v.vals):
            out += check_result(an, x, f)
        return out
    if isinstance(v, (tuple, list)):
        for j, x in enumerate(v):
            out += check_result(an, x, f'{path}[{j}]')
        return out
    if isinstance(v, ArrRef):
        t = an.T(v)
        if t.kind not in ('1d', '2d'):
            return [(path, False, 'result of kind ' + t.kind)]
        lag_ok = t.lag is None or an.le(t.lag, 0)
        cup = t.cupto if t.fill is not None else 0
        base_ok = t.base is None or an.prove(z3.Or(zt(t.base) <= zt(cup), zt(cup) >= zt(len_term(t.len))))
        return [(path, bool(lag_ok and base_ok), f'lag={t.lag} base={t.base} constant-below={cup} fill={t.fill}')]
    return [(path, None, 'not a series')]


def _candle_args(an, rf):
    """the candle matrix, plus one more matrix of the same n minutes for every further required parameter that is a candle series
    (beta: benchmark_candles, rsmk: candles_compare) - row k of each is the candle of minute k"""
    node = getattr(rf, 'node', None)
    out = [an.new_arr(ArrT(IntV(N), 0, None, 0, None, '2d', 6))]
    if node is not None:
        a = node.args
        required = a.args[:len(a.args) - len(a.defaults)]
        for extra in required[1:]:
            if 'candles' not in extra.arg:
                raise Unsupported(f'required parameter {extra.arg}')
            out.append(an.new_arr(ArrT(IntV(N), 0, None, 0, None, '2d', 6)))
    return out


def prove_causal(repo, qual, max_restarts=40, kwargs=None):
    """returns dict(proved, fields, kernels, queries, restarts) ; raises Unsupported / NotProved"""
    site_lags = {}
    for r in range(max_restarts):
        an = Analyzer(repo, site_lags)
        rf = repo.find(qual)
        an.st = State({}, {}, [N >= 1], None)
        cs = _candle_args(an, rf)
        fr = Frame('<driver>')
        an.frames.append(fr)
        kw = {'sequential': True}
        kw.update(kwargs or {})
        try:
            v = an.call_repo(Fn(rf), cs, kw)
        except Restart:
            continue
        res = check_result(an, v)
        series = [x for x in res if x[1] is not None]
        if not series:
            raise Unsupported('no series in the result')
        bad = [x for x in series if not x[1]]
        if bad:
            raise NotProved('; '.join(f'{f}: {d}' for f, _, d in bad))
        return {'proved': True, 'fields': [(f, d) for f, _, d in series], 'kernels': sorted(an.kernels), 'queries': an.queries, 'restarts': r,
                'site_lags': {f'{k[0]}:{k[1]}': v for k, v in site_lags.items()}}
    raise Unsupported('element types did not settle')


def series_lengths(an, v, path='value'):
    out = []
    if isinstance(v, NT):
        for f, x in zip(v.t.fields, v.vals):
            out += series_lengths(an, x, f)
        return out
    if isinstance(v, (tuple, list)):
        for j, x in enumerate(v):
            out += series_lengths(an, x, f'{path}[{j}]')
        return out
    if isinstance(v, ArrRef):
        t = an.T(v)
        ok = t.kind in ('1d', '2d') and an.prove(zt(len_term(t.len)) == N)
        return [(path, bool(ok), str(len_term(t.len))[:120])]
    return []


def prove_one_entry_per_candle(repo, qual, kwargs=None):
    """C14, unbounded: every series returned with sequential=True has exactly n entries for n input candles (lengths are exact
    symbolic terms of the same abstract execution; levels are ignored).  Raises Unsupported / NotProved."""
    an = Analyzer(repo, {}, lengths_only=True)
    rf = repo.find(qual)
    an.st = State({}, {}, [N >= 1], None)
    cs = _candle_args(an, rf)
    an.frames.append(Frame('<driver>'))
    kw = {'sequential': True}
    kw.update(kwargs or {})
    v = an.call_repo(Fn(rf), cs, kw)
    res = series_lengths(an, v)
    if not res:
        raise Unsupported('no series in the result')
    bad = [x for x in res if not x[1]]
    if bad:
        raise NotProved('; '.join(f'{f}: length {d}' for f, _, d in bad))
    return {'fields': [(f, d) for f, _, d in res], 'queries': an.queries}
