"""Path exploration, obligations and solver back ends."""
import os
import subprocess
import tempfile
import time
from fractions import Fraction
import z3
from .values import Sym, Arr, Vec, OutOfSubset, z3bool, mk_bool, z3num, NAN


class PathEnd(Exception):
    """Silent end of the current path (infeasible, or cut)."""


class NotPure(Exception):
    """Raised in speculative (pure) evaluation when the expression needs a branch or an effect."""


class RaiseSignal(Exception):
    def __init__(self, exc, detail=None, obj=None):
        super().__init__(exc)
        self.exc = exc
        self.detail = detail
        self.obj = obj


class Cfg:
    def __init__(self, **kw):
        self.task_id = kw.get('task_id', 'task')
        self.branch_timeout_ms = kw.get('branch_timeout_ms', 10000)
        self.prove_timeout_ms = kw.get('prove_timeout_ms', 10000)
        self.max_paths = kw.get('max_paths', 4000)
        self.overrides = kw.get('overrides', {})      # qualname -> callable(interp, args, kwargs)
        self.globals = kw.get('globals', {})          # 'module.name' -> value factory(ctx)
        self.invariants = kw.get('invariants', {})    # (qualname, loop ordinal) -> list[str] | callable
        self.numba = kw.get('numba', set())           # qualnames executed with numba semantics (no bounds checks)
        self.max_inline_depth = kw.get('max_inline_depth', 12)
        self.use_cvc5 = kw.get('use_cvc5', True)
        self.seed = kw.get('seed', 0)
        self.unroll_limit = kw.get('unroll_limit', 400)
        self.mutate = kw.get('mutate', None)          # optional AST mutation hook for canaries
        self.extra = kw.get('extra', {})


def _val(model, t):
    v = model.eval(t, model_completion=True)
    if z3.is_int_value(v):
        return v.as_long()
    if z3.is_rational_value(v):
        return Fraction(v.numerator_as_long(), v.denominator_as_long())
    if z3.is_true(v):
        return True
    if z3.is_false(v):
        return False
    if z3.is_algebraic_value(v):
        a = v.approx(20)
        return Fraction(a.numerator_as_long(), a.denominator_as_long())
    return str(v)


def _plain(v, depth=0):
    if isinstance(v, (str, int, float, bool)) or v is None:
        return v
    if isinstance(v, Fraction):
        return str(v)
    if depth > 4:
        return repr(v)[:80]
    if isinstance(v, dict):
        return {str(k): _plain(x, depth + 1) for k, x in v.items()}
    if isinstance(v, (list, tuple, set)):
        return [_plain(x, depth + 1) for x in v]
    return repr(v)[:120]


_sk = [0]


def _skolemize(g):
    """to prove (forall x. phi) /\\ ... it suffices to prove phi[c/x] for fresh constants c: removes the outermost universal
    quantifiers of the goal before it is negated (what the solver would do itself, but stable)"""
    if z3.is_quantifier(g) and g.is_forall():
        vs = []
        for k in range(g.num_vars()):
            _sk[0] += 1
            vs.append(z3.Const(f'sk!{_sk[0]}!{g.var_name(k)}', g.var_sort(k)))
        body = z3.substitute_vars(g.body(), *reversed(vs))
        return _skolemize(body)
    if z3.is_and(g):
        return z3.And(*[_skolemize(c) for c in g.children()])
    if z3.is_implies(g):
        return z3.Implies(g.arg(0), _skolemize(g.arg(1)))
    return g


def cvc5_check(smt2, timeout_ms):
    """Second opinion: returns 'unsat' | 'sat' | 'unknown'."""
    path = None
    try:
        with tempfile.NamedTemporaryFile('w', suffix='.smt2', delete=False, dir=os.environ.get('PYVC_TMP', None)) as f:
            f.write('(set-logic ALL)\n' + smt2 + '\n')
            path = f.name
        p = subprocess.run(['/usr/bin/cvc5', f'--tlimit={int(timeout_ms)}', path], capture_output=True, text=True,
                           timeout=timeout_ms / 1000 + 5)
        out = (p.stdout or '').strip().splitlines()
        r = out[0].strip() if out else 'unknown'
        return r if r in ('sat', 'unsat') else 'unknown'
    except Exception:
        return 'unknown'
    finally:
        if path:
            try:
                os.unlink(path)
            except OSError:
                pass


class Ctx:
    def __init__(self, cfg, prefix=()):
        self.cfg = cfg
        self.s = z3.Solver()
        self.s.set('timeout', cfg.branch_timeout_ms)
        self.s.set('random_seed', cfg.seed)
        self.prefix = list(prefix)
        self.decisions = []
        self.alts = []
        self.nfresh = 0
        self.vars = {}
        self.arrs = {}
        self.obls = []
        self.pure = 0
        self.trace = []
        self.globals = {}
        self.notes = []
        self.solver_ms = 0.0
        self.covers = {}

    # ---- fresh symbols -------------------------------------------------
    def _name(self, base):
        self.nfresh += 1
        return f'{base}#{self.nfresh}'

    def fresh_int(self, base='i'):
        n = self._name(base)
        c = z3.Int(n)
        self.vars[n] = c
        return Sym(c, 'int')

    def fresh_real(self, base='x', nan=False):
        n = self._name(base)
        c = z3.Real(n)
        self.vars[n] = c
        nf = None
        if nan:
            nf = z3.Bool(n + '.nan')
            self.vars[n + '.nan'] = nf
        return Sym(c, 'real', nf)

    def fresh_bool(self, base='b'):
        n = self._name(base)
        c = z3.Bool(n)
        self.vars[n] = c
        return Sym(c, 'bool')

    def fresh_str(self, base='s', among=None):
        from .values import str_code
        n = self._name(base)
        c = z3.Int(n)
        self.vars[n] = c
        v = Sym(c, 'str')
        if among is not None:
            self.s.add(z3.Or(*[c == str_code(x) for x in among]))
        return v

    def fresh_arr(self, base='a', n=None, np=True, cols=None, kind='real', nan=False):
        """Array of symbolic content; n: int | Sym | None (fresh non-negative length)."""
        name = self._name(base)
        if n is None:
            n = self.fresh_int(base + '.len')
            self.s.add(n.t >= 0)
        sort = z3.RealSort() if kind == 'real' else z3.IntSort()
        if cols is None:
            f = z3.Function(name, z3.IntSort(), sort)
            nf = z3.Function(name + '.nan', z3.IntSort(), z3.BoolSort()) if nan else None

            def fn(k, f=f, nf=nf, kind=kind):
                kt = z3num(k)
                return Sym(f(kt), kind, nf(kt) if nf is not None else None)
        else:
            f = z3.Function(name, z3.IntSort(), z3.IntSort(), sort)
            nf = z3.Function(name + '.nan', z3.IntSort(), z3.IntSort(), z3.BoolSort()) if nan else None

            def fn(k, f=f, nf=nf, cols=cols, kind=kind):
                kt = z3num(k)
                return Vec([Sym(f(kt, z3.IntVal(c)), kind, nf(kt, z3.IntVal(c)) if nf is not None else None)
                            for c in range(cols)])
        a = Arr(n, fn, np=np, cols=cols, tag=name)
        self.arrs[name] = (n, f, cols, nf)
        return a

    # ---- path condition -------------------------------------------------
    def assume(self, b):
        if self.pure:
            raise NotPure()
        if isinstance(b, bool):
            if not b:
                raise PathEnd()
            return
        self.s.add(z3bool(b))

    def timed_check(self, solver, timeout_ms):
        """solver.check() under z3's own timeout; a z3 exception is 'unknown'.  (A watchdog thread that interrupts the context after
        the deadline was tried and dropped: threads and the forked workers / forked solver calls do not mix - workers died or hung.)"""
        solver.set('timeout', int(timeout_ms))
        try:
            return solver.check()
        except z3.Z3Exception:
            return z3.unknown

    def forked_check(self, solver, timeout_ms, want_model=False):
        """run solver.check() in a forked child that is killed at the deadline: z3's own timeout is not honoured inside
        some nonlinear-arithmetic procedures.  Returns (z3 result, model dict | None)."""
        import pickle
        import select
        import signal
        rfd, wfd = os.pipe()
        pid = os.fork()
        if pid == 0:
            try:
                os.close(rfd)
                solver.set('timeout', int(timeout_ms))
                r = solver.check()
                md = None
                if r == z3.sat and want_model:
                    md = _plain(self.model_dict(solver.model()))
                os.write(wfd, pickle.dumps((str(r), md)))
            except BaseException:
                pass
            finally:
                os._exit(0)
        os.close(wfd)
        res = ('unknown', None)
        try:
            ready, _, _ = select.select([rfd], [], [], timeout_ms / 1000.0 + 2.0)
            if ready:
                buf = b''
                while True:
                    chunk = os.read(rfd, 1 << 16)
                    if not chunk:
                        break
                    buf += chunk
                if buf:
                    res = pickle.loads(buf)
        finally:
            os.close(rfd)
            try:
                os.kill(pid, signal.SIGKILL)
            except ProcessLookupError:
                pass
            os.waitpid(pid, 0)
        r = {'sat': z3.sat, 'unsat': z3.unsat}.get(res[0], z3.unknown)
        return r, res[1]

    def raced_check(self, solver, timeout_ms, want_model=False, seeds=None):
        """the same query on fresh solvers with different random seeds, each in a forked child, all started together; the first
        definite answer wins and the others are killed at once (all of them at the deadline).  z3's verdict time on nonlinear and
        div/mod queries depends on the seed by orders of magnitude (0.5 s with most seeds, never with one), and inside the nonlinear
        procedures it does not look at its own timeout - a single in-process attempt can hang a task for good."""
        import pickle
        import select
        import signal
        seeds = seeds or [self.cfg.seed, self.cfg.seed + 7, self.cfg.seed + 101, self.cfg.seed + 1009]
        assertions = list(solver.assertions())
        kids = {}
        # the portfolio: the solver handed in as it is (an incremental solver keeps what it learnt on this path and does no
        # preprocessing - often the fastest on these queries), the same with another seed, and fresh solvers with further seeds
        plan = [('as-is', seeds[0])] + [('as-is', sd) for sd in seeds[1:2]] + [('fresh', sd) for sd in seeds[2:]] + [('fresh', seeds[0])]
        for how, sd in plan:
            rfd, wfd = os.pipe()
            pid = os.fork()
            if pid == 0:
                try:
                    os.close(rfd)
                    if how == 'as-is':
                        fs = solver
                        if sd != seeds[0]:
                            fs.set('random_seed', int(sd))
                    else:
                        fs = z3.Solver()
                        fs.set('random_seed', int(sd))
                        for a_ in assertions:
                            fs.add(a_)
                    fs.set('timeout', int(timeout_ms))
                    r = fs.check()
                    md = None
                    if r == z3.sat and want_model:
                        md = _plain(self.model_dict(fs.model()))
                    os.write(wfd, pickle.dumps((str(r), md)))
                except BaseException:
                    pass
                finally:
                    os._exit(0)
            os.close(wfd)
            kids[rfd] = pid
        res = ('unknown', None)
        deadline = time.time() + timeout_ms / 1000.0 + 2.0
        open_fds = set(kids)
        try:
            while open_fds and res[0] == 'unknown':
                left = deadline - time.time()
                if left <= 0:
                    break
                ready, _, _ = select.select(list(open_fds), [], [], left)
                for rfd in ready:
                    buf = b''
                    while True:
                        chunk = os.read(rfd, 1 << 16)
                        if not chunk:
                            break
                        buf += chunk
                    open_fds.discard(rfd)
                    if buf:
                        try:
                            got = pickle.loads(buf)
                        except Exception:
                            continue
                        if got[0] in ('sat', 'unsat'):
                            res = got
                            break
        finally:
            for rfd, pid in kids.items():
                try:
                    os.close(rfd)
                except OSError:
                    pass
                try:
                    os.kill(pid, signal.SIGKILL)
                except ProcessLookupError:
                    pass
                try:
                    os.waitpid(pid, 0)
                except ChildProcessError:
                    pass
        r = {'sat': z3.sat, 'unsat': z3.unsat}.get(res[0], z3.unknown)
        return r, res[1]

    def feasible(self, t):
        self.s.push()
        self.s.add(t)
        t0 = time.time()
        if self.cfg.extra.get('fork_solver'):
            r, _ = self.raced_check(self.s, self.cfg.branch_timeout_ms, seeds=[self.cfg.seed, self.cfg.seed + 7, self.cfg.seed + 101])
        else:
            r = self.timed_check(self.s, self.cfg.branch_timeout_ms)
        self.solver_ms += (time.time() - t0) * 1000
        self.s.pop()
        return r != z3.unsat

    def branch(self, b):
        """Decide a possibly symbolic condition; forks the exploration when both sides are feasible."""
        if isinstance(b, bool):
            return b
        if self.pure:
            raise NotPure()
        t = z3bool(b)
        i = len(self.decisions)
        if i < len(self.prefix):
            d = self.prefix[i]
        else:
            can_t = self.feasible(t)
            can_f = self.feasible(z3.Not(t))
            if can_t and can_f:
                d = True
                self.alts.append(self.decisions + [False])
            elif can_t:
                d = True
            elif can_f:
                d = False
            else:
                raise PathEnd()
        self.decisions.append(d)
        self.s.add(t if d else z3.Not(t))
        return d

    def choose(self, n):
        """Demonic choice among n alternatives (used for loop cut points)."""
        if self.pure:
            raise NotPure()
        i = len(self.decisions)
        if i < len(self.prefix):
            d = self.prefix[i]
        else:
            d = 0
            for j in range(1, n):
                self.alts.append(self.decisions + [j])
        self.decisions.append(d)
        return d

    # ---- obligations ----------------------------------------------------
    def prove(self, goal, oid, info=None):
        if self.pure:
            raise NotPure()
        rec = {'id': oid, 'task': self.cfg.task_id, 'path': ''.join(str(int(d)) for d in self.decisions)}
        if info:
            rec['info'] = _plain(info)
        if isinstance(goal, bool):
            if goal:
                rec.update(status='proved', backend='trivial', ms=0.0)
                self.obls.append(rec)
                return True
            # concretely false on this path: a model of the path condition is the counterexample
            t0 = time.time()
            fmodel = None
            if self.cfg.extra.get('fork_solver'):
                r, fmodel = self.raced_check(self.s, self.cfg.prove_timeout_ms, want_model=True)
            else:
                # a must-fail clause (vacuity guard) needs one path that refutes it; a path whose quantified context the solver
                # cannot build a model for is left 'unknown' after a short budget
                r = self.timed_check(self.s, min(self.cfg.prove_timeout_ms, 15000) if oid.endswith('.mustfail') else self.cfg.prove_timeout_ms)
            self.s.set('timeout', self.cfg.branch_timeout_ms)
            ms = (time.time() - t0) * 1000
            self.solver_ms += ms
            if r == z3.unsat:
                rec.update(status='proved', backend='z3', ms=ms, note='path infeasible')
                self.obls.append(rec)
                raise PathEnd()
            if r == z3.sat:
                rec.update(status='refuted', backend='z3', ms=ms, model=fmodel if fmodel is not None else self.model_dict(self.s.model()))
            else:
                rec.update(status='unknown', backend='z3', ms=ms, detail='goal is false but path feasibility unknown')
            self.obls.append(rec)
            return False        # keep going: later obligations of this path are still generated (nothing was assumed)
        g = z3bool(goal)
        self.s.push()
        self.s.add(z3.Not(_skolemize(g)))
        t0 = time.time()
        backend = 'z3'
        model = None
        forked = bool(self.cfg.extra.get('fork_solver'))
        # a must-fail clause (vacuity guard) only has to be *not proved*: a contradictory context is refuted at once, a path on which
        # the solver cannot build a model of the quantified context is left 'unknown' after a short budget (another path refutes it)
        guard = oid.endswith('.mustfail')
        if guard and forked:
            fs = z3.Solver()
            fs.set('random_seed', self.cfg.seed)
            for a_ in self.s.assertions():
                fs.add(a_)
            r, model = self.forked_check(fs, min(self.cfg.prove_timeout_ms, 15000), want_model=True)
            backend = 'z3-forked'
        elif forked:
            r, model = self.raced_check(self.s, self.cfg.prove_timeout_ms, want_model=True)
            backend = 'z3-forked'
        else:
            r = self.timed_check(self.s, min(self.cfg.prove_timeout_ms, 5000))      # quick incremental attempt; fresh solvers get the full budget
        ms = (time.time() - t0) * 1000
        if r == z3.unknown and guard:
            pass
        elif r == z3.unknown and not forked:
            # the short in-process attempt gave up (or the machine is busy): the same query goes to the portfolio - the path's own
            # incremental solver with the full budget and another seed, and fresh solvers (preprocessing) with further seeds - in
            # forked children that start together; the first definite answer wins
            t1 = time.time()
            r, model = self.raced_check(self.s, self.cfg.prove_timeout_ms, want_model=True)
            ms += (time.time() - t1) * 1000
            if r != z3.unknown:
                backend = 'z3-portfolio'
        if r == z3.sat:
            if model is None and not forked:
                try:
                    model = self.model_dict(self.s.model())
                except z3.Z3Exception:
                    model = {}
        elif r == z3.unknown and self.cfg.use_cvc5 and not guard:
            smt2 = self.s.to_smt2()
            t1 = time.time()
            r2 = cvc5_check(smt2, self.cfg.prove_timeout_ms)
            ms += (time.time() - t1) * 1000
            if r2 == 'unsat':
                r = z3.unsat
                backend = 'cvc5'
            elif r2 == 'sat':
                # a cvc5 'sat' without a usable model: leave undecided unless z3 can produce the model
                rec['detail'] = 'z3 unknown, cvc5 sat'
        self.s.set('timeout', self.cfg.branch_timeout_ms)
        self.s.pop()
        self.solver_ms += ms
        if r == z3.unsat:
            rec.update(status='proved', backend=backend, ms=ms)
        elif r == z3.sat:
            rec.update(status='refuted', backend=backend, ms=ms, model=model)
        else:
            rec.update(status='unknown', backend=backend, ms=ms, detail=rec.get('detail', 'solver returned unknown'))
        self.obls.append(rec)
        if r != z3.sat:
            self.s.add(g)       # continue under a goal that holds (or is undecided); never assume a refuted one
        return r == z3.unsat

    def cover(self, cid):
        """Vacuity guard: record that this program point is reachable under the path condition."""
        if self.covers.get(cid):
            return
        t0 = time.time()
        r = self.timed_check(self.s, max(self.cfg.branch_timeout_ms, 30000))
        self.s.set('timeout', self.cfg.branch_timeout_ms)
        self.solver_ms += (time.time() - t0) * 1000
        self.covers[cid] = (r == z3.sat) or self.covers.get(cid, False)

    def model_dict(self, m):
        out = {}
        for n, c in self.vars.items():
            try:
                out[n] = _val(m, c)
            except Exception:
                pass
        for n, (ln, f, cols, nf) in self.arrs.items():
            try:
                L = ln if isinstance(ln, int) else _val(m, ln.t)
                if not isinstance(L, int):
                    continue
                rows = []
                for k in range(max(0, min(L, 40))):
                    if cols is None:
                        rows.append(_val(m, f(z3.IntVal(k))))
                    else:
                        rows.append([_val(m, f(z3.IntVal(k), z3.IntVal(c))) for c in range(cols)])
                out[n] = {'len': L, 'rows': rows}
            except Exception:
                pass
        return out

    def note(self, s):
        self.notes.append(s)


def explore(task_fn, cfg):
    """Run task_fn(ctx) on every feasible path. Returns (obligation records, stats)."""
    work = [()]
    obls = []
    npaths = 0
    ms = 0.0
    covers = {}
    notes = []
    t0 = time.time()
    while work:
        prefix = work.pop()
        ctx = Ctx(cfg, prefix)
        try:
            task_fn(ctx)
        except PathEnd:
            pass
        except OutOfSubset as e:
            obls.append({'id': cfg.task_id + ':in-subset', 'task': cfg.task_id, 'status': 'out-of-subset', 'detail': str(e),
                         'path': ''.join(str(int(d)) for d in ctx.decisions)})
        except NotPure:
            obls.append({'id': cfg.task_id + ':in-subset', 'task': cfg.task_id, 'status': 'out-of-subset',
                         'detail': 'effect in pure context'})
        except RecursionError:
            obls.append({'id': cfg.task_id + ':in-budget', 'task': cfg.task_id, 'status': 'unknown',
                         'detail': 'term depth exceeded the recursion budget'})
        except Exception as e:
            if 'RecursionError' in str(e):
                obls.append({'id': cfg.task_id + ':in-budget', 'task': cfg.task_id, 'status': 'unknown',
                             'detail': 'term depth exceeded the recursion budget (solver binding)'})
                continue
            if type(e).__name__ != 'NotMergeable':
                raise
            obls.append({'id': cfg.task_id + ':in-subset', 'task': cfg.task_id, 'status': 'out-of-subset',
                         'detail': f'values of different kinds merged at a join point: {e}'})
        except RaiseSignal as e:
            obls.append({'id': cfg.task_id + ':no-unexpected-exception', 'task': cfg.task_id, 'status': 'refuted',
                         'detail': f'uncaught {e.exc}: {e.detail}', 'model': _path_model(ctx),
                         'path': ''.join(str(int(d)) for d in ctx.decisions)})
        obls.extend(ctx.obls)
        work.extend(tuple(a) for a in ctx.alts)
        for k, v in ctx.covers.items():
            covers[k] = covers.get(k, False) or v
        notes.extend(ctx.notes)
        ms += ctx.solver_ms
        npaths += 1
        if npaths >= cfg.max_paths and work:
            obls.append({'id': cfg.task_id + ':path-budget', 'task': cfg.task_id, 'status': 'unknown',
                         'detail': f'path budget {cfg.max_paths} exhausted'})
            break
    return obls, {'paths': npaths, 'solver_ms': ms, 'wall_s': time.time() - t0, 'covers': covers, 'notes': notes}


def _path_model(ctx):
    try:
        if ctx.timed_check(ctx.s, 30000) == z3.sat:
            return ctx.model_dict(ctx.s.model())
    except Exception:
        pass
    return None
