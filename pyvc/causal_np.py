"""numpy / math transfer functions of the causality prover (pyvc/causal.py).  Every rule states how the dependency type
`level(A[k]) <= max(k + lag, base)`, the constant region and the length are transformed.  A function that is not listed is
Unsupported (never treated as element-wise by default)."""
import z3

from .causal import (Unsupported, NotProved, ArrRef, ArrT, IntV, IntD, FloatV, BoolV, NT, N, lmax, lmin, ladd, simp, zt, mkint,
                     level_of, len_term, is_nan, same_const)

UNARY = {'abs', 'fabs', 'absolute', 'sqrt', 'log', 'log10', 'log2', 'log1p', 'exp', 'expm1', 'sin', 'cos', 'tan', 'arctan', 'arcsin', 'arccos',
         'sinh', 'cosh', 'tanh', 'degrees', 'radians', 'deg2rad', 'rad2deg', 'sign', 'square', 'negative', 'floor', 'ceil', 'rint', 'trunc',
         'reciprocal', 'cbrt', 'float64', 'float32', 'float_', 'double', 'real', 'around', 'round', 'round_', 'asarray', 'ascontiguousarray',
         'copy', 'array', 'asfarray', 'atleast_1d', 'squeeze', 'ravel'}
UNARY_BOOL = {'isnan', 'isfinite', 'isinf', 'logical_not', 'signbit'}
BINARY = {'add', 'subtract', 'multiply', 'divide', 'true_divide', 'power', 'float_power', 'mod', 'fmod', 'remainder', 'arctan2', 'hypot',
          'floor_divide'}
BINARY_NONAN = {'maximum', 'minimum', 'fmax', 'fmin', 'copysign'}
BINARY_BOOL = {'greater', 'less', 'greater_equal', 'less_equal', 'equal', 'not_equal', 'logical_and', 'logical_or', 'logical_xor', 'isclose'}
REDUCE = {'sum', 'mean', 'max', 'min', 'std', 'var', 'median', 'prod', 'nansum', 'nanmean', 'nanmax', 'nanmin', 'nanstd', 'nanvar', 'nanmedian',
          'average', 'amax', 'amin', 'ptp', 'any', 'all', 'argmax', 'argmin', 'nanargmax', 'nanargmin', 'count_nonzero', 'percentile', 'quantile'}
ACCUM = {'cumsum', 'cumprod', 'nancumsum', 'maximum.accumulate', 'minimum.accumulate', 'add.accumulate', 'multiply.accumulate'}
MATH_FLOAT = {'sqrt', 'log', 'log10', 'log2', 'exp', 'sin', 'cos', 'tan', 'atan', 'asin', 'acos', 'atan2', 'fabs', 'pow', 'hypot', 'degrees', 'radians',
              'copysign', 'fmod', 'tanh', 'sinh', 'cosh', 'log1p', 'expm1', 'erf', 'gamma'}


def shape_len(an, shape):
    """(length, cols) of a shape argument"""
    if isinstance(shape, (tuple, list)):
        if len(shape) == 1:
            return shape[0], None
        if len(shape) == 2:
            if not isinstance(shape[1], int):
                raise Unsupported('2-d shape with an abstract column count')
            return shape[0], shape[1]
        raise Unsupported('shape rank')
    return shape, None


def check_len(x):
    if isinstance(x, bool) or not isinstance(x, (int, IntV)) or isinstance(x, IntD):
        raise Unsupported('array length of type ' + type(x).__name__)
    return x


def scalar_or_none(v):
    return isinstance(v, (int, float, IntV, FloatV, BoolV, bool))


def call_ext(an, name, args, kwargs, node):
    if name.startswith('numpy.'):
        return call_np(an, name[6:], args, kwargs, node)
    if name.startswith('math.'):
        f = name[5:]
        import math
        if all(isinstance(a, (int, float)) and not isinstance(a, bool) for a in args) and hasattr(math, f):
            try:
                return getattr(math, f)(*args)
            except (ValueError, OverflowError, ZeroDivisionError):
                return float('nan')
        l = lmax(*[level_of(a) for a in args])
        if any(isinstance(a, ArrRef) for a in args):
            raise Unsupported('math function on an array')
        if f in MATH_FLOAT:
            return FloatV(l)
        if f in ('isnan', 'isinf', 'isfinite'):
            return BoolV(None, l)
        if f in ('floor', 'ceil', 'trunc'):
            if isinstance(args[0], IntV):
                return args[0]
            return an.havoc_int(l)
        raise Unsupported(name)
    if name == 'collections.namedtuple':
        from .causal import NTType
        fields = args[1] if len(args) > 1 else kwargs['field_names']
        if isinstance(fields, str):
            fields = fields.replace(',', ' ').split()
        return NTType(args[0], list(fields))
    if name in ('numba.njit', 'numba.jit'):
        raise Unsupported('numba decorator call')
    if name == 'functools.reduce':
        f, items = args[0], an.iterate(args[1])
        acc = items[0] if len(args) < 3 else args[2]
        for x in (items[1:] if len(args) < 3 else items):
            acc = an.call(f, [acc, x], {}, node)
        return acc
    if name == 'operator.mul':
        return an.binop('Mult', args[0], args[1])
    raise Unsupported('external function ' + name)


def copy_of(an, ref, **kw):
    t = an.T(ref)
    return an.new_arr(t.with_(site=None, view_of=None, **kw))


def call_np(an, f, args, kwargs, node):
    kw = dict(kwargs)
    if f.startswith('lib.stride_tricks.'):
        f = f[len('lib.stride_tricks.'):]
    # ---- creation
    if f in ('full', 'zeros', 'ones', 'empty'):
        shape = args[0] if args else kw['shape']
        ln, cols = shape_len(an, shape)
        check_len(ln)
        if f == 'full':
            fv = args[1] if len(args) > 1 else kw['fill_value']
        else:
            fv = {'zeros': 0.0, 'ones': 1.0, 'empty': None}[f]
        base = None
        if fv is not None and not isinstance(fv, (int, float)):
            base, fv = level_of(fv), None
        return an.alloc(node, ln, fv, '2d' if cols else '1d', cols, base)
    if f in ('full_like', 'zeros_like', 'ones_like', 'empty_like'):
        t = an.T(args[0]) if isinstance(args[0], ArrRef) else None
        if t is None:
            raise Unsupported(f + ' of a non-array')
        if f == 'full_like':
            fv = args[1] if len(args) > 1 else kw['fill_value']
        else:
            fv = {'zeros_like': 0.0, 'ones_like': 1.0, 'empty_like': None}[f]
        base = None
        if fv is not None and not isinstance(fv, (int, float)):
            base, fv = level_of(fv), None
        if t.kind == 'win':
            raise Unsupported(f + ' of windows')
        return an.alloc(node, t.len, fv, t.kind, t.cols, base)
    if f == 'arange':
        a = [x for x in args]
        if len(a) == 1:
            ln = a[0]
        elif len(a) >= 2 and (len(a) == 2 or a[2] == 1):
            ln = an.binop('Sub', a[1], a[0])
        else:
            if all(isinstance(x, (int, float)) for x in a):
                import numpy
                return an.new_arr(ArrT(len(numpy.arange(*a)), None, None))
            raise Unsupported('arange with a step')
        if isinstance(ln, float):
            ln = int(ln)
        check_len(ln)
        return an.new_arr(ArrT(ln, None, lmax(*[level_of(x) for x in a]), site=None))
    if f == 'linspace':
        num = args[2] if len(args) > 2 else kw.get('num', 50)
        check_len(num)
        return an.new_arr(ArrT(num, None, lmax(level_of(args[0]), level_of(args[1]))))
    if f in ('array', 'asarray', 'ascontiguousarray', 'asfarray', 'copy', 'atleast_1d', 'squeeze', 'ravel', 'float64', 'real') and args and isinstance(args[0], ArrRef):
        if f in ('asarray', 'ascontiguousarray', 'atleast_1d', 'squeeze', 'ravel'):
            t = an.T(args[0])
            return an.new_arr(t.with_(site=None, view_of=args[0].id))
        return copy_of(an, args[0])
    if f in ('array', 'asarray') and args and isinstance(args[0], (list, tuple)):
        items = list(args[0])
        if any(isinstance(x, (ArrRef, list, tuple)) for x in items):
            raise Unsupported('array of arrays')
        base = lmax(*[level_of(x) for x in items])
        fill, cupto = None, 0
        if items and all(isinstance(x, (int, float)) for x in items) and all(same_const(x, items[0]) for x in items):
            fill, cupto = items[0], len(items)
        return an.new_arr(ArrT(len(items), None, base, cupto, fill))
    if f in ('float64', 'float32', 'float_', 'double', 'int64', 'int32', 'int_') and args and scalar_or_none(args[0]):
        v = args[0]
        if f.startswith('int'):
            return v if isinstance(v, (int, IntV)) else an.havoc_int(level_of(v))
        return v if isinstance(v, (float, FloatV)) else (float(v) if isinstance(v, int) else FloatV(level_of(v)))
    # ---- scalars through numpy functions
    arr_args = [a for a in args if isinstance(a, ArrRef)]
    if not arr_args and f in UNARY | UNARY_BOOL | BINARY | BINARY_NONAN | BINARY_BOOL | {'where', 'clip', 'nan_to_num', 'isnan'} \
            and all(scalar_or_none(a) for a in args):
        l = lmax(*[level_of(a) for a in args])
        if f in UNARY_BOOL | BINARY_BOOL:
            if f == 'isnan' and isinstance(args[0], float):
                return is_nan(args[0])
            return BoolV(None, l)
        if all(isinstance(a, (int, float)) and not isinstance(a, bool) for a in args):
            import numpy
            try:
                with numpy.errstate(all='ignore'):
                    r = getattr(numpy, f)(*args)
                return float(r)
            except Exception:
                raise Unsupported('numpy scalar call ' + f)
        return FloatV(l)
    # ---- element-wise
    if f in UNARY and arr_args:
        r = an.elementwise([args[0]], arith=f not in ('sign', 'floor', 'ceil', 'rint', 'trunc', 'around', 'round', 'round_'))
        return r
    if f in UNARY_BOOL and arr_args:
        return an.elementwise([args[0]], arith=False, isbool=True)
    if f in BINARY and arr_args:
        return an.elementwise(list(args[:2]), arith=True)
    if f in BINARY_NONAN and arr_args:
        return an.elementwise(list(args[:2]), arith=False)
    if f in BINARY_BOOL and arr_args:
        return an.elementwise(list(args[:2]), arith=False, isbool=True)
    if f == 'where':
        if len(args) == 3:
            return an.elementwise(list(args), arith=False)
        raise Unsupported('np.where with one argument')
    if f == 'clip':
        ops = list(args[:3]) + [kw[k] for k in ('a_min', 'a_max') if k in kw]
        return an.elementwise([o for o in ops if o is not None], arith=False)
    if f == 'nan_to_num':
        t = an.T(args[0])
        nanv = kw.get('nan', 0.0)
        r = an.elementwise([args[0]], arith=False)
        if t.fill is not None and is_nan(t.fill) and isinstance(nanv, (int, float)):
            an.st.heap[r.id] = an.T(r).with_(fill=float(nanv), cupto=t.cupto)
        elif t.fill is not None and not is_nan(t.fill):
            an.st.heap[r.id] = an.T(r).with_(fill=t.fill, cupto=t.cupto)
        return r
    if f in ('maximum.reduce', 'minimum.reduce', 'add.reduce') and args and isinstance(args[0], (list, tuple)):
        return an.elementwise(list(args[0]), arith=False)
    # ---- reductions
    if f in REDUCE or f == 'dot' or f == 'vdot' or f == 'inner':
        if f in ('dot', 'vdot', 'inner'):
            return np_dot(an, args[0], args[1])
        a = args[0]
        axis = kw.get('axis', args[1] if len(args) > 1 and f not in ('percentile', 'quantile') else None)
        if isinstance(a, (list, tuple)):
            l = lmax(*[level_of(x) for x in a])
            if any(isinstance(x, ArrRef) for x in a):
                if axis == 0:
                    return an.elementwise(list(a), arith=False)
                raise Unsupported('reduction over a list of arrays')
            return FloatV(l)
        if not isinstance(a, ArrRef):
            return a
        w = kw.get('weights')
        return reduce_axis(an, a, axis, extra=w, intres=f in ('argmax', 'argmin', 'nanargmax', 'nanargmin', 'count_nonzero'), boolres=f in ('any', 'all'))
    if f in ACCUM:
        a = args[0]
        t = an.T(a)
        if t.kind != '1d':
            raise Unsupported('accumulate over ' + t.kind)
        keep = t.fill is not None and (is_nan(t.fill) or (t.fill == 0 and f in ('cumsum', 'add.accumulate', 'nancumsum')))
        return an.new_arr(ArrT(t.len, t.lag, t.base, t.cupto if keep else 0, t.fill if keep else None))
    if f == 'diff':
        a = args[0]
        t = an.T(a)
        if t.kind != '1d':
            raise Unsupported('diff of ' + t.kind)
        nn = args[1] if len(args) > 1 else kw.get('n', 1)
        if not (isinstance(nn, int) and not isinstance(nn, bool) and 1 <= nn <= 512) or (nn != 1 and ('prepend' in kw or 'append' in kw)):
            raise Unsupported('diff order')
        pre = kw.get('prepend')
        if 'append' in kw:
            raise Unsupported('diff append')
        if pre is not None:
            if isinstance(pre, ArrRef):
                tp = an.T(pre)
                if not (isinstance(tp.len, int) and tp.len == 1):
                    raise Unsupported('diff prepend length')
                pl = tp.base if tp.lag is None else lmax(tp.base, tp.lag)
            elif isinstance(pre, (list, tuple)):
                if len(pre) != 1:
                    raise Unsupported('diff prepend length')
                pl = level_of(pre[0])
            else:
                pl = level_of(pre)
            return an.new_arr(ArrT(t.len, t.lag, lmax(t.base, pl)))
        # the difference of order m has len - m entries (none when the input is shorter) and entry k reads a[k .. k + m]
        ln = an.binop('Sub', t.len, nn)
        if nn != 1:
            ln = an.call_builtin('max', [ln, 0], {}, node)
        keep = t.fill is not None and is_nan(t.fill)
        cup = simp(zt(t.cupto) - nn) if keep else 0
        return an.new_arr(ArrT(ln, ladd(t.lag, nn) if t.lag is not None else None, t.base, cup if keep else 0, t.fill if keep else None))
    if f in ('concatenate', 'hstack', 'append', 'insert'):
        if f == 'append':
            parts = [args[0], args[1]]
        elif f == 'insert':
            if not (isinstance(args[1], int) and args[1] == 0):
                raise Unsupported('insert position')
            parts = [args[2], args[0]]
        else:
            parts = list(args[0])
        return concatenate(an, parts)
    if f == 'sliding_window_view':
        a = args[0]
        w = args[1] if len(args) > 1 else kw.get('window_shape')
        if isinstance(w, (tuple, list)) and len(w) == 1:
            w = w[0]
        t = an.T(a)
        if t.kind != '1d' or not isinstance(w, int):
            raise Unsupported('sliding window form')
        ln = an.binop('Add', an.binop('Sub', t.len, w), 1)
        if not an.prove(zt(len_term(ln)) >= 0):
            # numpy raises when the window is longer than the array: no run to compare
            an.assume(zt(len_term(ln)) >= 0)
        return an.new_arr(ArrT(ln, t.lag, t.base, 0, None, 'win', w, view_of=a.id))
    if f == 'convolve':
        return convolve(an, args, kw)
    if f in ('vstack', 'column_stack', 'stack', 'row_stack'):
        raise Unsupported(f)
    if f == 'errstate' or f == 'seterr':
        return None
    if f == 'isscalar':
        return not isinstance(args[0], ArrRef)
    if f == 'flip' and isinstance(args[0], ArrRef) and an.T(args[0]).lag is None:
        return copy_of(an, args[0], cupto=0, fill=None)
    raise Unsupported('numpy.' + f)


def reduce_all(an, a):
    return reduce_axis(an, a, None)


def reduce_axis(an, a, axis, extra=None, intres=False, boolres=False):
    t = an.T(a)
    el = None
    if isinstance(extra, ArrRef):
        te = an.T(extra)
        el = lmax(te.base, N if te.lag is not None else None)
    if t.kind == '1d':
        if axis not in (None, 0, -1):
            raise Unsupported('axis of a 1-d reduction')
        lt = len_term(t.len)
        l = lmax(ladd(simp(zt(lt) - 1), t.lag) if t.lag is not None else None, t.base, level_of(t.len) if isinstance(t.len, IntV) else None, el)
        if intres:
            return an.havoc_int(l)
        if boolres:
            return BoolV(None, l)
        return FloatV(l)
    if t.kind == 'win':
        if axis in (1, -1):
            w = t.cols
            lag = ladd(t.lag, w - 1) if t.lag is not None else None
            if t.rowlag is not None:
                lag = lmax(lag, t.rowlag) if lag is not None else t.rowlag
            return an.new_arr(ArrT(t.len, lag, lmax(t.base, el)))
        raise Unsupported('reduction of windows along axis ' + str(axis))
    if t.kind == '2d':
        if axis in (1, -1):
            return an.new_arr(ArrT(t.len, t.lag, lmax(t.base, el)))
        raise Unsupported('reduction of a 2-d array along axis ' + str(axis))
    raise Unsupported('reduction of ' + t.kind)


def np_dot(an, a, b):
    if isinstance(a, ArrRef) and isinstance(b, ArrRef):
        ta, tb = an.T(a), an.T(b)
        if ta.kind == 'win' and tb.kind == '1d' and tb.lag is None:
            lag = ladd(ta.lag, ta.cols - 1) if ta.lag is not None else None
            if ta.rowlag is not None:
                lag = lmax(lag, ta.rowlag) if lag is not None else ta.rowlag
            return an.new_arr(ArrT(ta.len, lag, lmax(ta.base, tb.base)))
        if ta.kind == '1d' and tb.kind == '1d':
            la = reduce_axis(an, a, None)
            lb = reduce_axis(an, b, None)
            return FloatV(lmax(la.lvl, lb.lvl))
    raise Unsupported('dot product form')


def concatenate(an, parts):
    off = 0
    lag = None
    base = None
    fill, cupto, contiguous = None, 0, True
    off_l = None
    for p in parts:
        if isinstance(p, (list, tuple)):
            items = list(p)
            if any(isinstance(x, (ArrRef, list, tuple)) for x in items):
                raise Unsupported('nested concatenate part')
            pl, plen, plag = lmax(*[level_of(x) for x in items]), len(items), None
            pfill = items[0] if items and all(isinstance(x, (int, float)) and same_const(x, items[0]) for x in items) else None
            pcup = plen if pfill is not None else 0
        elif isinstance(p, ArrRef):
            t = an.T(p)
            if t.kind != '1d':
                raise Unsupported('concatenate of ' + t.kind)
            pl, plen, plag = t.base, t.len, t.lag
            pfill, pcup = t.fill, t.cupto
        elif scalar_or_none(p) and p is not None and not isinstance(p, (bool, BoolV)):
            # numpy treats a scalar part (np.append(arr, x)) as a one-element array
            pl, plen, plag = level_of(p), 1, None
            pfill = p if isinstance(p, (int, float)) else None
            pcup = 1 if pfill is not None else 0
        else:
            raise Unsupported('concatenate part ' + type(p).__name__)
        offt = len_term(off)
        base = lmax(base, pl, off_l)
        if plag is not None:
            lag = lmax(lag, simp(zt(plag) - zt(offt))) if lag is not None else simp(zt(plag) - zt(offt))
        if contiguous:
            if pfill is not None and (fill is None or same_const(fill, pfill)):
                fill = pfill
                cupto = simp(zt(offt) + zt(pcup))
                # the region continues only if this whole part is constant
                contiguous = an.prove(zt(pcup) >= zt(len_term(plen)))
            else:
                contiguous = False
        off = an.binop('Add', off, plen)
        off_l = lmax(off_l, level_of(off) if isinstance(off, IntV) else None)
    return an.new_arr(ArrT(off, lag, base, cupto if fill is not None else 0, fill))


def convolve(an, args, kw):
    a, v = args[0], args[1]
    mode = args[2] if len(args) > 2 else kw.get('mode', 'full')
    if not (isinstance(a, ArrRef) and isinstance(v, ArrRef)):
        raise Unsupported('convolve operands')
    ta, tv = an.T(a), an.T(v)
    if ta.lag is None and tv.lag is not None and mode in ('full', 'valid'):
        ta, tv = tv, ta
    if tv.lag is not None or ta.kind != '1d' or tv.kind != '1d':
        raise Unsupported('convolution of two series')
    w = tv.len
    if not isinstance(w, int):
        if mode == 'full' and isinstance(w, IntV) and not isinstance(w, IntD):
            # out[j] = sum_{t <= j} a[t] v[j - t]: position j depends on a[0..j] whatever the kernel length is
            ln = an.binop('Sub', an.binop('Add', ta.len, w), 1)
            keep = ta.fill is not None and is_nan(ta.fill)
            return an.new_arr(ArrT(ln, ta.lag, lmax(ta.base, tv.base, level_of(w)), ta.cupto if keep else 0, ta.fill if keep else None))
        raise Unsupported('kernel length')
    keep = ta.fill is not None and is_nan(ta.fill)
    base = lmax(ta.base, tv.base)
    if mode == 'valid':
        ln = an.binop('Add', an.binop('Sub', ta.len, w), 1)
        if not an.prove(zt(len_term(ln)) >= 1):
            # shorter input than kernel: numpy swaps the roles; the result length is then w - n + 1
            raise Unsupported('valid convolution with a kernel that may be longer than the series')
        return an.new_arr(ArrT(ln, ladd(ta.lag, w - 1) if ta.lag is not None else None, base, ta.cupto if keep else 0, ta.fill if keep else None))
    if mode == 'full':
        ln = an.binop('Sub', an.binop('Add', ta.len, w), 1)
        return an.new_arr(ArrT(ln, ta.lag, base, ta.cupto if keep else 0, ta.fill if keep else None))
    if mode == 'same':
        if not an.prove(zt(len_term(ta.len)) >= w):
            raise Unsupported('same-mode convolution with a kernel that may be longer than the series')
        return an.new_arr(ArrT(ta.len, ladd(ta.lag, (w - 1) // 2) if ta.lag is not None else None, base))
    raise Unsupported('convolve mode')


def call_method(an, obj, name, args, kwargs, node):
    if isinstance(obj, ArrRef):
        t = an.T(obj)
        if name in ('sum', 'mean', 'max', 'min', 'std', 'var', 'prod', 'any', 'all', 'argmax', 'argmin', 'ptp'):
            axis = kwargs.get('axis', args[0] if args else None)
            return reduce_axis(an, obj, axis, intres=name in ('argmax', 'argmin'), boolres=name in ('any', 'all'))
        if name in ('copy', 'astype', 'flatten', 'ravel', 'squeeze', 'view', '__array__'):
            if name in ('ravel', 'squeeze', 'view'):
                return an.new_arr(t.with_(site=None, view_of=obj.id))
            return copy_of(an, obj)
        if name == 'cumsum':
            return call_np(an, 'cumsum', [obj], {}, node)
        if name == 'fill':
            an.setitem(obj, slice(None, None, None), args[0], node)
            return None
        if name == 'dot':
            return np_dot(an, obj, args[0])
        if name == 'clip':
            return an.elementwise([obj] + [a for a in args if a is not None], arith=False)
        if name == 'round':
            return an.elementwise([obj], arith=False)
        if name == 'tolist':
            raise Unsupported('tolist')
        if name == 'item':
            raise Unsupported('item')
        if name == 'reshape':
            shp = args[0] if len(args) == 1 else tuple(args)
            if shp == -1 or shp == (-1,):
                return an.new_arr(t.with_(site=None, view_of=obj.id))
            raise Unsupported('reshape')
        raise Unsupported('array method ' + name)
    if isinstance(obj, (FloatV, IntV)):
        if name in ('item', 'astype'):
            return obj
    if isinstance(obj, list):
        if name == 'append':
            if an.symloops:
                raise Unsupported('list append in a symbolic loop')
            obj.append(args[0])
            return None
        if name == 'extend':
            if an.symloops:
                raise Unsupported('list extend in a symbolic loop')
            obj.extend(an.iterate(args[0]))
            return None
    if isinstance(obj, (list, tuple, dict, str)):
        if all(isinstance(a, (int, float, str, bool, type(None))) for a in args):
            try:
                return getattr(obj, name)(*args, **kwargs)
            except Exception as ex:
                raise Unsupported(f'python method {name}: {ex}')
    raise Unsupported(f'method {name} of {type(obj).__name__}')
