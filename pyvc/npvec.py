"""numpy over arrays of CONCRETE length with symbolic elements (used by the bounded indicator checks):
every operation is computed element by element, so results are exact terms over the inputs; transcendental functions
are uninterpreted (congruence only)."""
import math
from fractions import Fraction
import z3
from .values import Sym, NAN, Vec, Arr, Obj, Opaque, OutOfSubset, z3num, z3real, z3bool, mk_bool, mk_num, nan_of, is_conc_num, kind_of
from .engine import RaiseSignal, NotPure
from . import ops, lib

MAXN = 4096


class Mat:
    """2-D array with concrete shape: list of Vec rows"""
    def __init__(self, rows, ncols=None):
        self.rows = rows
        self.ncols = ncols if ncols is not None else (len(rows[0].e) if rows else 0)


_UF = {}


def uf(name, *xs):
    """uninterpreted real function application (sqrt, log, exp, cos, ...): only congruence is known"""
    lib.used(f'{name} (uninterpreted: congruence only)')
    if any(x is NAN for x in xs):
        return NAN
    if all(is_conc_num(x) for x in xs):
        try:
            f = {'sqrt': math.sqrt, 'log': math.log, 'exp': math.exp, 'cos': math.cos, 'sin': math.sin, 'arctan': math.atan,
                 'tan': math.tan, 'log10': math.log10, 'arcsin': math.asin, 'arccos': math.acos, 'tanh': math.tanh}.get(name)
            if f is not None and len(xs) == 1:
                r = f(float(xs[0]))
                fr = Fraction(r).limit_denominator(10 ** 15)
                return fr
            if name == 'pow' and len(xs) == 2 and xs[0] > 0:
                return Fraction(float(xs[0]) ** float(xs[1])).limit_denominator(10 ** 15)
        except (ValueError, OverflowError):
            return NAN
    key = (name, len(xs))
    if key not in _UF:
        _UF[key] = z3.Function('uf_' + name, *([z3.RealSort()] * len(xs) + [z3.RealSort()]))
    nan = None
    for x in xs:
        n = nan_of(x)
        if n is not None:
            nan = n if nan is None else z3.Or(nan, n)
    return mk_num(_UF[key](*[z3real(x) for x in xs]), nan)


def vec_of(v):
    """Vec view of anything 1-D with concrete length"""
    if isinstance(v, Vec):
        return v
    if isinstance(v, Arr) and isinstance(v.n, int) and v.cols is None and v.n <= MAXN:
        return Vec([v.fn(k) for k in range(v.n)])
    if isinstance(v, (list, tuple)) and all(not isinstance(x, (list, tuple, Vec, Arr)) for x in v):
        return Vec(list(v))
    return None


def mat_of(v):
    if isinstance(v, Mat):
        return v
    if isinstance(v, Arr) and isinstance(v.n, int) and v.cols is not None and v.n <= MAXN:
        return Mat([Vec(list(v.fn(k).e)) for k in range(v.n)], v.cols)
    return None


def np_div(a, b):
    """numpy elementwise true division: x/0 is inf/nan with a warning, not an exception (rendered as NaN, A-1)"""
    if a is NAN or b is NAN:
        return NAN
    if is_conc_num(b):
        if b == 0:
            return NAN
        return ops.arith('/', a, b)
    zero = z3real(b) == 0
    r = ops.arith('/', a, b)
    n = nan_of(r)
    nan = zero if n is None else z3.Or(n, zero)
    return mk_num(z3real(r), nan)


def vsum(xs):
    r = Fraction(0)
    for x in xs:
        r = ops.arith('+', r, x)
    return r


def vmean(xs):
    if not xs:
        return NAN
    return ops.arith('/', vsum(xs), len(xs))


def vvar(xs, ddof=0):
    m = vmean(xs)
    if len(xs) - ddof <= 0:
        return NAN
    return ops.arith('/', vsum([ops.arith('*', ops.arith('-', x, m), ops.arith('-', x, m)) for x in xs]), len(xs) - ddof)


def vmaxl(xs):
    r = xs[0]
    for x in xs[1:]:
        r = ops.np_max2(r, x)
    return r


def vminl(xs):
    r = xs[0]
    for x in xs[1:]:
        r = ops.np_min2(r, x)
    return r


def nanfilter(xs):
    out = []
    for x in xs:
        if x is NAN:
            continue
        if nan_of(x) is not None:
            raise OutOfSubset('nan-aware reduction over possibly-NaN symbolic values')
        out.append(x)
    return out


def _shape(a):
    if isinstance(a, (tuple, list)):
        if len(a) == 1:
            return a[0], None
        if len(a) == 2:
            return a[0], a[1]
        raise OutOfSubset('nd shape')
    return a, None


def filled(shape, val):
    n, m = _shape(shape)
    if not isinstance(n, int) or (m is not None and not isinstance(m, int)):
        return None
    if n < 0:
        raise RaiseSignal('ValueError', 'negative dimensions are not allowed')
    if n > MAXN:
        return None
    if m is None:
        return Vec([val] * n)
    return Arr(n, (lambda k, rows=[Vec([val] * m) for _ in range(n)]: ops.pick(rows, k)), np=True, cols=m)


def install():
    E = lib._EXT
    if E is None:
        lib.ext_call('math.floor')
        E = lib._EXT
    old = dict(E)

    def wrap_fill(name, val_of):
        prev = old.get(name)

        def f(i, a, k):
            v = filled(a[0], val_of(a, k))
            if v is not None:
                return v
            return prev(i, a, k)
        E[name] = f
    wrap_fill('numpy.zeros', lambda a, k: Fraction(0))
    wrap_fill('numpy.empty', lambda a, k: Fraction(0))
    wrap_fill('numpy.full', lambda a, k: a[1] if len(a) > 1 else k['fill_value'])
    E['numpy.ones'] = lambda i, a, k: filled(a[0], Fraction(1)) or lib._np_filled(i, *(_shape(a[0])), Fraction(1))

    def like(name, val_of):
        prev = old.get(name)

        def f(i, a, k):
            v = vec_of(a[0])
            if v is not None:
                return Vec([val_of(a, k)] * len(v.e))
            return prev(i, a, k)
        E[name] = f
    like('numpy.zeros_like', lambda a, k: Fraction(0))
    like('numpy.empty_like', lambda a, k: Fraction(0))
    like('numpy.ones_like', lambda a, k: Fraction(1))
    like('numpy.full_like', lambda a, k: a[1] if len(a) > 1 else k['fill_value'])

    def _arange(i, a, k):
        if all(isinstance(x, int) for x in a):
            return Vec(list(range(*a)))
        raise OutOfSubset('arange with symbolic bounds')
    E['numpy.arange'] = _arange

    prev_array = old['numpy.array']

    def _array(i, a, k):
        v = a[0]
        if isinstance(v, Arr) and isinstance(v.n, int) and v.cols is None:
            return vec_of(v)
        if isinstance(v, Mat):
            return v
        if isinstance(v, (list, tuple)) and v and all(isinstance(x, Vec) for x in v):
            return Arr(len(v), (lambda kk, rows=[Vec(list(x.e)) for x in v]: ops.pick(rows, kk)), np=True, cols=len(v[0].e))
        return prev_array(i, a, k)
    E['numpy.array'] = _array
    E['numpy.asarray'] = _array
    E['numpy.ascontiguousarray'] = _array
    E['numpy.copy'] = lambda i, a, k: (Vec(list(vec_of(a[0]).e)) if vec_of(a[0]) is not None else lib.np_copy(a[0]))
    E['numpy.errstate'] = lambda i, a, k: Opaque('errstate')
    E['numpy.seterr'] = lambda i, a, k: Opaque('seterr')

    def red(name, f, nanaware=False):
        prev = old.get('numpy.' + name)

        def g(i, a, k):
            axis = k.get('axis', a[1] if len(a) > 1 else None)
            m = mat_of(a[0]) if not isinstance(a[0], Vec) else None
            if m is not None:
                if axis == 1 or axis == -1:
                    return Vec([f(nanfilter(r.e) if nanaware else r.e) for r in m.rows])
                if axis == 0:
                    return Vec([f([r.e[c] for r in m.rows]) for c in range(m.ncols)])
                return f([x for r in m.rows for x in r.e])
            v = vec_of(a[0])
            if v is not None:
                xs = nanfilter(v.e) if nanaware else v.e
                if not xs and name in ('max', 'min', 'amax', 'amin'):
                    raise RaiseSignal('ValueError', 'zero-size array to reduction operation')
                return f(xs)
            if prev is not None:
                return prev(i, a, k)
            raise OutOfSubset(f'numpy.{name} of {kind_of(a[0])}')
        E['numpy.' + name] = g
        return g
    red('sum', vsum)
    red('nansum', vsum, True)
    red('mean', vmean)
    red('nanmean', vmean, True)
    red('max', vmaxl)
    red('min', vminl)
    red('amax', vmaxl)
    red('amin', vminl)
    red('nanmax', vmaxl, True)
    red('nanmin', vminl, True)

    def _std(i, a, k):
        ddof = k.get('ddof', 0)
        axis = k.get('axis', a[1] if len(a) > 1 else None)
        m = mat_of(a[0]) if not isinstance(a[0], Vec) else None
        if m is not None and axis in (1, -1):
            return Vec([uf('sqrt', vvar(r.e, ddof)) for r in m.rows])
        v = vec_of(a[0])
        if v is None:
            raise OutOfSubset('std of ' + kind_of(a[0]))
        return uf('sqrt', vvar(v.e, ddof))
    E['numpy.std'] = _std
    E['numpy.nanstd'] = _std

    def _var(i, a, k):
        v = vec_of(a[0])
        if v is None:
            raise OutOfSubset('var')
        return vvar(v.e, k.get('ddof', 0))
    E['numpy.var'] = _var

    def ew1(f):
        return lambda i, a, k: lib.elementwise1(i, f, vec_of(a[0]) if vec_of(a[0]) is not None and not isinstance(a[0], (Sym, int, Fraction)) else a[0])
    for nm in ('sqrt', 'log', 'exp', 'cos', 'sin', 'tan', 'arctan', 'log10', 'arcsin', 'arccos', 'tanh'):
        E['numpy.' + nm] = ew1(lambda x, nm=nm: uf(nm, x))
        E['math.' + {'arctan': 'atan', 'arcsin': 'asin', 'arccos': 'acos'}.get(nm, nm)] = (lambda i, a, k, nm=nm: uf(nm, a[0]))
    E['numpy.fabs'] = ew1(ops.absval)
    E['numpy.degrees'] = ew1(lambda x: ops.arith('*', x, Fraction(180) / Fraction(math.pi).limit_denominator(10 ** 12)))
    E['numpy.sign'] = ew1(lambda x: ops.ite(z3real(x) > 0, 1, ops.ite(z3real(x) < 0, -1, 0)) if isinstance(x, Sym) else ((x > 0) - (x < 0)))
    E['numpy.square'] = ew1(lambda x: ops.arith('*', x, x))
    E['numpy.logical_not'] = ew1(lambda x: ops.lnot(ops.truthy(x)))
    E['numpy.logical_and'] = lambda i, a, k: lib.elementwise2(i, lambda x, y: ops.land(ops.truthy(x), ops.truthy(y)), a[0], a[1])
    E['numpy.logical_or'] = lambda i, a, k: lib.elementwise2(i, lambda x, y: ops.lor(ops.truthy(x), ops.truthy(y)), a[0], a[1])
    E['numpy.greater'] = lambda i, a, k: lib.elementwise2(i, lambda x, y: ops.compare('>', x, y), a[0], a[1])
    def _divide(i, a, k):
        q = lib.elementwise2(i, np_div, a[0], a[1])
        if 'where' in k:
            out = k.get('out')
            if out is None:
                raise OutOfSubset('np.divide(where=...) without out')
            return lib._where3(i, k['where'], q, out)
        return q
    E['numpy.divide'] = _divide
    E['numpy.multiply'] = lambda i, a, k: lib.elementwise2(i, lambda x, y: ops.arith('*', x, y), a[0], a[1])
    E['numpy.subtract'] = lambda i, a, k: lib.elementwise2(i, lambda x, y: ops.arith('-', x, y), a[0], a[1])
    E['numpy.add'] = lambda i, a, k: lib.elementwise2(i, lambda x, y: ops.arith('+', x, y), a[0], a[1])

    def _power(i, a, k):
        p = a[1]

        def f(x, p=p):
            if isinstance(p, int) and not isinstance(p, bool):
                return ops.arith('**', x, p)
            if isinstance(p, Fraction) and p.denominator == 1:
                return ops.arith('**', x, int(p))
            if isinstance(p, Fraction) and p == Fraction(1, 2):
                return uf('sqrt', x)
            return uf('pow', x, p)
        if isinstance(p, (Vec, Arr)):
            return lib.elementwise2(i, lambda x, y: uf('pow', x, y), a[0], p)
        return lib.elementwise1(i, f, a[0])
    E['numpy.power'] = _power

    def _cumsum(i, a, k):
        v = vec_of(a[0])
        if v is None:
            raise OutOfSubset('cumsum')
        out, acc = [], Fraction(0)
        for x in v.e:
            acc = ops.arith('+', acc, x)
            out.append(acc)
        return Vec(out)
    E['numpy.cumsum'] = _cumsum

    def _cumprod(i, a, k):
        v = vec_of(a[0])
        out, acc = [], Fraction(1)
        for x in v.e:
            acc = ops.arith('*', acc, x)
            out.append(acc)
        return Vec(out)
    E['numpy.cumprod'] = _cumprod

    def _diff(i, a, k):
        v = vec_of(a[0])
        if v is None:
            raise OutOfSubset('diff')
        n = k.get('n', a[1] if len(a) > 1 else 1)
        if not isinstance(n, int):
            raise OutOfSubset('diff order')
        xs = list(v.e)
        for _ in range(n):
            xs = [ops.arith('-', xs[j + 1], xs[j]) for j in range(len(xs) - 1)]
        return Vec(xs)
    E['numpy.diff'] = _diff

    def _convolve(i, a, k):
        x, w = vec_of(a[0]), vec_of(a[1])
        mode = k.get('mode', a[2] if len(a) > 2 else 'full')
        if x is None or w is None:
            raise OutOfSubset('convolve operands')
        n, m = len(x.e), len(w.e)
        full = []
        for j in range(n + m - 1):
            acc = Fraction(0)
            for t in range(m):
                if 0 <= j - t < n:
                    acc = ops.arith('+', acc, ops.arith('*', x.e[j - t], w.e[t]))
            full.append(acc)
        if mode == 'full':
            return Vec(full)
        if mode == 'valid':
            lo, hi = min(n, m) - 1, max(n, m)
            return Vec(full[lo:hi])
        if mode == 'same':
            lo = (min(n, m) - 1) // 2 if n >= m else (m - 1) // 2
            return Vec(full[lo:lo + max(n, m)])
        raise OutOfSubset('convolve mode')
    E['numpy.convolve'] = _convolve

    def _swv(i, a, k):
        v = vec_of(a[0])
        w = k.get('window_shape', a[1] if len(a) > 1 else None)
        if isinstance(w, tuple):
            w = w[0]
        if v is None or not isinstance(w, int):
            m = mat_of(a[0])
            raise OutOfSubset('sliding_window_view operands')
        if w > len(v.e):
            raise RaiseSignal('ValueError', 'window shape cannot be larger than input array shape')
        rows = [Vec(v.e[j:j + w]) for j in range(len(v.e) - w + 1)]
        return Arr(len(rows), (lambda kk, rows=rows: ops.pick(rows, kk)), np=True, cols=w)
    E['numpy.lib.stride_tricks.sliding_window_view'] = _swv

    def _acc(f):
        def g(i, a, k):
            v = vec_of(a[0])
            out, cur = [], None
            for x in v.e:
                cur = x if cur is None else f(cur, x)
                out.append(cur)
            return Vec(out)
        return g
    E['numpy.maximum.accumulate'] = _acc(ops.np_max2)
    E['numpy.minimum.accumulate'] = _acc(ops.np_min2)

    def _nan_to_num(i, a, k):
        rep = k.get('nan', Fraction(0))

        def f(x):
            n = nan_of(x)
            if x is NAN:
                return rep
            if n is None:
                return x
            return ops.ite(n, rep, Sym(x.t, x.k))
        return lib.elementwise1(i, f, a[0])
    E['numpy.nan_to_num'] = _nan_to_num

    def _roll(i, a, k):
        v = vec_of(a[0])
        s = a[1]
        if v is None or not isinstance(s, int):
            raise OutOfSubset('roll')
        n = len(v.e)
        return Vec([v.e[(j - s) % n] for j in range(n)]) if n else Vec([])
    E['numpy.roll'] = _roll

    def _clip(i, a, k):
        lo = a[1] if len(a) > 1 else k.get('a_min')
        hi = a[2] if len(a) > 2 else k.get('a_max')
        return lib.elementwise1(i, lambda x: ops.np_min2(ops.np_max2(x, lo), hi), a[0])
    E['numpy.clip'] = _clip

    def _dot(i, a, k):
        m = mat_of(a[0]) if not isinstance(a[0], Vec) else None
        if m is not None:
            y = vec_of(a[1])
            if y is None or len(y.e) != m.ncols:
                raise OutOfSubset('dot shapes')
            return Vec([vsum([ops.arith('*', p, q) for p, q in zip(r.e, y.e)]) for r in m.rows])
        x, y = vec_of(a[0]), vec_of(a[1])
        if x is None or y is None or len(x.e) != len(y.e):
            raise OutOfSubset('dot')
        return vsum([ops.arith('*', p, q) for p, q in zip(x.e, y.e)])
    E['numpy.dot'] = _dot

    def _average(i, a, k):
        x = vec_of(a[0])
        w = k.get('weights')
        if w is None:
            return vmean(x.e)
        w = vec_of(w)
        if w is None or x is None or len(w.e) != len(x.e):
            raise OutOfSubset('average with weights')
        return ops.arith('/', vsum([ops.arith('*', p, q) for p, q in zip(x.e, w.e)]), vsum(w.e))
    E['numpy.average'] = _average
    def _append(i, a, k):
        x = vec_of(a[0])
        y = vec_of(a[1]) if isinstance(a[1], (Vec, Arr, list, tuple)) else Vec([a[1]])
        if x is None or y is None:
            raise OutOfSubset('np.append')
        return Vec(list(x.e) + list(y.e))
    E['numpy.append'] = _append

    def _reduce_ufunc(f):
        def g(i, a, k):
            items = [vec_of(x) if isinstance(x, (Vec, Arr, list, tuple)) else x for x in i.iterate(a[0])]
            r = items[0]
            for x in items[1:]:
                r = lib.elementwise2(i, f, r, x)
            return r
        return g
    E['numpy.maximum.reduce'] = _reduce_ufunc(ops.np_max2)
    E['numpy.minimum.reduce'] = _reduce_ufunc(ops.np_min2)
    E['numpy.isfinite'] = lambda i, a, k: lib.elementwise1(i, lambda x: (x is not NAN) if nan_of(x) is None else ops.lnot(mk_bool(nan_of(x))),
                                                           vec_of(a[0]) if vec_of(a[0]) is not None and not isinstance(a[0], Sym) else a[0])

    def _reduce(i, a, k):
        f, seq = a[0], a[1]
        items = i.iterate(seq)
        acc = a[2] if len(a) > 2 else items.pop(0)
        for x in items:
            acc = i.call(f, [acc, x])
        return acc
    E['functools.reduce'] = _reduce
    E['numpy.median'] = lambda i, a, k: (_ for _ in ()).throw(OutOfSubset('median needs sorting of symbolic values'))

    prev_isnan = old['numpy.isnan']
    E['numpy.isnan'] = lambda i, a, k: prev_isnan(i, [vec_of(a[0]) if isinstance(a[0], Arr) and vec_of(a[0]) is not None else a[0]], k)

    prev_where = old['numpy.where']

    def _where(i, a, k):
        if len(a) == 3:
            c = vec_of(a[0]) if isinstance(a[0], Arr) else a[0]
            x = vec_of(a[1]) if isinstance(a[1], Arr) and vec_of(a[1]) is not None else a[1]
            y = vec_of(a[2]) if isinstance(a[2], Arr) and vec_of(a[2]) is not None else a[2]
            return prev_where(i, [c if c is not None else a[0], x, y], k)
        return prev_where(i, a, k)
    E['numpy.where'] = _where
    E['numpy.vstack'] = lambda i, a, k: _array(i, [list(i.iterate(a[0]))], {})


def vec_methods(interp, v, name):
    """extra ndarray methods for concrete-length vectors / matrices"""
    from .interp import Builtin
    E = lib._EXT
    if isinstance(v, Vec) or (isinstance(v, Arr) and v.np and isinstance(v.n, int)):
        if name in ('sum', 'mean', 'max', 'min', 'std', 'var', 'cumsum', 'nanmax', 'nanmin'):
            f = E.get('numpy.' + name)
            if f is not None:
                return Builtin(name, lambda i, a, k, v=v, f=f: f(i, [v] + list(a), k))
        if name == 'size':
            if isinstance(v, Vec):
                return len(v.e)
            return v.n if v.cols is None else v.n * v.cols
        if name == 'flatten' or name == 'ravel':
            return Builtin(name, lambda i, a, k, v=v: vec_of(v) if vec_of(v) is not None else v)
        if name == 'fill':
            def fill(i, a, k, v=v):
                if not isinstance(v, Vec):
                    raise OutOfSubset('fill')
                v.e = [a[0]] * len(v.e)
            return Builtin('fill', fill)
        if name == 'dtype':
            return Opaque('dtype')
        if name == 'astype':
            def astype(i, a, k, v=v):
                t = a[0]
                nm = getattr(t, 'name', None)
                vv = vec_of(v)
                if vv is None:
                    raise OutOfSubset('astype on a matrix')
                if nm in ('float', 'numpy.float64', 'numpy.float32') or (isinstance(t, str) and 'float' in t):
                    return Vec(list(vv.e))
                if nm == 'bool':
                    return Vec([ops.truthy(x) for x in vv.e])
                raise OutOfSubset('astype ' + str(nm))
            return Builtin('astype', astype)
        if name == 'reshape':
            def reshape(i, a, k, v=v):
                shp = a[0] if len(a) == 1 and isinstance(a[0], tuple) else tuple(a)
                vv = vec_of(v)
                if vv is not None and (shp == (-1,) or shp == (len(vv.e),)):
                    return vv
                raise OutOfSubset('reshape')
            return Builtin('reshape', reshape)
    return None
