"""Extraction of the real source: every run re-reads /repo's working tree and hands the real
FunctionDef / ClassDef nodes to the interpreter.  Nothing is translated or copied."""
import ast
import hashlib
import os

REPO_ROOT = os.environ.get('PYVC_REPO', '/repo')


class ModInfo:
    def __init__(self, name, path, src, tree, is_pkg):
        self.name = name
        self.path = path
        self.src = src
        self.tree = tree
        self.is_pkg = is_pkg
        self.top = {}      # name -> ast node (FunctionDef/ClassDef/Assign value/Import alias)
        self._index()

    def _index(self):
        for st in self.tree.body:
            self._index_stmt(st)

    def _index_stmt(self, st):
        if isinstance(st, (ast.FunctionDef, ast.AsyncFunctionDef, ast.ClassDef)):
            self.top[st.name] = st
        elif isinstance(st, ast.Assign):
            for t in st.targets:
                if isinstance(t, ast.Name):
                    self.top[t.id] = st
                elif isinstance(t, ast.Tuple):
                    for e in t.elts:
                        if isinstance(e, ast.Name):
                            self.top[e.id] = st
        elif isinstance(st, ast.AnnAssign) and isinstance(st.target, ast.Name) and st.value is not None:
            self.top[st.target.id] = st
        elif isinstance(st, ast.Import):
            for a in st.names:
                if a.asname:
                    self.top[a.asname] = ('import', a.name)
                else:
                    self.top[a.name.split('.')[0]] = ('import', a.name.split('.')[0])
        elif isinstance(st, ast.ImportFrom):
            mod = st.module or ''
            if st.level:
                parts = self.name.split('.')
                if not self.is_pkg:
                    parts = parts[:-1]
                parts = parts[:len(parts) - (st.level - 1)]
                mod = '.'.join(parts + ([st.module] if st.module else []))
            for a in st.names:
                if a.name == '*':
                    self.star = getattr(self, 'star', []) + [mod]
                    continue
                self.top[a.asname or a.name] = ('from', mod, a.name)
        elif isinstance(st, (ast.If, ast.Try)):
            # module-level conditionals: index both arms (first definition wins is irrelevant here)
            for sub in ast.iter_child_nodes(st):
                if isinstance(sub, ast.stmt):
                    self._index_stmt(sub)


class RepoFunc:
    def __init__(self, qual, node, mod, cls=None):
        self.qual = qual
        self.node = node
        self.mod = mod
        self.cls = cls
        self.decorators = [_dec_name(d) for d in node.decorator_list]

    @property
    def is_property(self):
        return 'property' in self.decorators

    @property
    def is_static(self):
        return 'staticmethod' in self.decorators

    @property
    def is_classmethod(self):
        return 'classmethod' in self.decorators

    def __repr__(self):
        return f'RepoFunc<{self.qual}>'


def _dec_name(d):
    if isinstance(d, ast.Call):
        d = d.func
    if isinstance(d, ast.Name):
        return d.id
    if isinstance(d, ast.Attribute):
        return d.attr
    return '?'


class RepoClass:
    def __init__(self, qual, node, mod):
        self.qual = qual
        self.node = node
        self.mod = mod
        self.members = {}
        for st in node.body:
            if isinstance(st, (ast.FunctionDef, ast.AsyncFunctionDef)):
                # property setters share the name: keep the getter (first)
                decs = [_dec_name(d) for d in st.decorator_list]
                if 'setter' in decs:
                    self.members.setdefault(st.name + '.setter', RepoFunc(f'{qual}.{st.name}.setter', st, mod, self))
                    continue
                self.members[st.name] = RepoFunc(f'{qual}.{st.name}', st, mod, self)
            elif isinstance(st, ast.Assign):
                for t in st.targets:
                    if isinstance(t, ast.Name):
                        self.members[t.id] = st
            elif isinstance(st, ast.AnnAssign) and isinstance(st.target, ast.Name) and st.value is not None:
                self.members[st.target.id] = st

    @property
    def name(self):
        return self.node.name

    def __repr__(self):
        return f'RepoClass<{self.qual}>'


class Repo:
    def __init__(self, root=None):
        self.root = root or REPO_ROOT
        self.mods = {}
        self.classes = {}

    def has_module(self, name):
        return self._path(name) is not None

    def _path(self, name):
        base = os.path.join(self.root, *name.split('.'))
        if os.path.isfile(base + '.py'):
            return base + '.py', False
        if os.path.isfile(os.path.join(base, '__init__.py')):
            return os.path.join(base, '__init__.py'), True
        return None

    def module(self, name):
        m = self.mods.get(name)
        if m is None:
            p = self._path(name)
            if p is None:
                raise KeyError(f'no repo module {name}')
            path, is_pkg = p
            with open(path, encoding='utf-8') as f:
                src = f.read()
            m = ModInfo(name, path, src, ast.parse(src, filename=path), is_pkg)
            self.mods[name] = m
        return m

    def cls(self, mod, node):
        key = (mod.name, node.name, node.lineno)
        c = self.classes.get(key)
        if c is None:
            c = RepoClass(f'{mod.name}.{node.name}', node, mod)
            self.classes[key] = c
        return c

    def find(self, qual):
        """'pkg.mod.func' | 'pkg.mod.Class' | 'pkg.mod.Class.method' -> RepoFunc / RepoClass."""
        parts = qual.split('.')
        for cut in range(len(parts), 0, -1):
            modname = '.'.join(parts[:cut])
            if self._path(modname) is None:
                continue
            mod = self.module(modname)
            rest = parts[cut:]
            if not rest:
                continue
            node = mod.top.get(rest[0])
            if node is None:
                continue
            if isinstance(node, ast.ClassDef):
                c = self.cls(mod, node)
                if len(rest) == 1:
                    return c
                m = c.members.get('.'.join(rest[1:]))
                if isinstance(m, RepoFunc):
                    return m
                raise KeyError(f'{qual}: no such member')
            if isinstance(node, (ast.FunctionDef, ast.AsyncFunctionDef)) and len(rest) == 1:
                return RepoFunc(qual, node, mod)
        raise KeyError(f'{qual}: not found in {self.root}')

    def sha(self, fn):
        seg = ast.get_source_segment(fn.mod.src, fn.node) or ''
        return hashlib.sha256(seg.encode()).hexdigest()


def nested_functions(fn_node):
    """loops / nested defs of a function in source order (for ordinal-keyed sidecar entries)."""
    loops = []
    for n in ast.walk(fn_node):
        if isinstance(n, (ast.For, ast.While)):
            loops.append(n)
    loops.sort(key=lambda n: (n.lineno, n.col_offset))
    return loops
