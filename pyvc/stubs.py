"""Mode preconditions and environment stubs shared by the harnesses (assumptions A-3, A-5, A-6)."""
from .values import Opaque


def const(v):
    return lambda interp, args, kwargs: v


def backtest_mode(unit_testing=False):
    """jh.is_*() fixed by the mode precondition `mode == backtest` (A-6)."""
    J = 'jesse.helpers.'
    return {
        J + 'is_livetrading': const(False), J + 'is_live': const(False), J + 'is_paper_trading': const(False),
        J + 'is_backtesting': const(True), J + 'is_optimizing': const(False), J + 'is_unit_testing': const(unit_testing),
        J + 'is_debugging': const(False), J + 'is_debuggable': const(False), J + 'is_importing_candles': const(False),
        J + 'should_execute_silently': const(unit_testing),
        J + 'generate_unique_id': lambda i, a, k: Opaque('uuid'),
        J + 'generate_short_unique_id': lambda i, a, k: Opaque('uuid'),
        J + 'app_mode': const('backtest'),
    }
