"""Native replay for C19."""
import random
import contracts.C19 as K
from native.tol import wrap, T


def _decode_check(ty, lo, hi, g, g2=None):
    from jesse.helpers import dna_to_hp
    d = [{'name': 'p', 'type': ty, 'min': lo, 'max': hi}]
    try:
        v = dna_to_hp(d, chr(g))['p']
    except Exception as ex:
        return f'dna_to_hp raised {type(ex).__name__}: {ex}'
    env = {'lo': wrap(lo), 'hi': wrap(hi), 'g': g, 'v': wrap(v), 'FIRST': K.FIRST, 'LAST': K.LAST,
           'decode_float': lambda a, b, c: T(K.decode_float(float(a), float(b), c)),
           'round_half_even': lambda x: round(float(x))}
    ens = K.FLOAT_ENSURES if ty is float else K.INT_ENSURES
    bad = [n for n, t in ens.items() if not eval(t, {}, env)]
    if ty is int and not isinstance(v, int):
        bad.append('result-is-int')
    if g2 is not None:
        v2 = dna_to_hp(d, chr(g2))['p']
        env.update(g2=g2, v2=wrap(v2))
        if not eval(K.FLOAT_MONOTONE if ty is float else K.INT_MONOTONE, {}, env):
            bad.append('monotone')
    if bad:
        return f'dna_to_hp([{ty.__name__} {lo}..{hi}], {chr(g)!r} (code {g})) = {v!r} violates {bad}'
    return None


def _precedence_check(explicit, dna, decl):
    """run a real isolated backtest and read strategy.hp"""
    import numpy as np
    from jesse.strategies import Strategy
    from jesse import research
    seen = {}

    class S(Strategy):
        def hyperparameters(self):
            return decl

        def dna(self):
            return dna

        def should_long(self):
            seen['hp'] = None if self.hp is None else dict(self.hp)
            return False

        def should_short(self):
            return False

        def should_cancel_entry(self):
            return False

        def go_long(self):
            pass

        def go_short(self):
            pass

    n = 30
    ts0 = 1609459200000
    c = np.array([[ts0 + i * 60000, 100, 100, 101, 99, 10] for i in range(n)], dtype=float)
    cfg = {'starting_balance': 10000, 'fee': 0, 'type': 'futures', 'futures_leverage': 2, 'futures_leverage_mode': 'cross',
           'exchange': 'Sandbox', 'warm_up_candles': 0}
    routes = [{'exchange': 'Sandbox', 'strategy': S, 'symbol': 'BTC-USDT', 'timeframe': '1m'}]
    candles = {'Sandbox-BTC-USDT': {'exchange': 'Sandbox', 'symbol': 'BTC-USDT', 'candles': c}}
    research.backtest(cfg, routes, [], candles, hyperparameters=explicit)
    want = K.expected_hp(explicit, dna, decl)
    got = seen.get('hp')
    if want is None or got is None:
        ok = want is None and got is None
    else:
        ok = set(want) == set(got) and all(abs(float(want[k]) - float(got[k])) < 1e-9 for k in want)
    return None if ok else f'strategy.hp = {got!r}, expected {want!r} (explicit={explicit!r}, dna={dna!r}, declared={decl!r})'


def float_range_grid():
    """BOUNDED stand-in for assumption A-1: the decoded value must lie inside [min, max] in binary floating point, too (a value one
    ulp above the declared maximum is out of range for whatever consumes it)"""
    from jesse.helpers import dna_to_hp
    n = 0
    for lo in (0, 0.01, 0.5, -1.5, -50, 3, 10, 0.25, 1e-5):
        for w in (0.5, 1, 2, 7, 7.5, 15, 30, 60, 79, 99.99, 100, 158, 1000, 0.001):
            hi = lo + w
            for ty in (float, int):
                a, b = (lo, hi) if ty is float else (int(lo), int(lo) + max(1, int(w)))
                for g in range(K.FIRST, K.LAST + 1):
                    n += 1
                    v = dna_to_hp([{'name': 'p', 'type': ty, 'min': a, 'max': b}], chr(g))['p']
                    if not (a <= v <= b):
                        return f'dna_to_hp([{ty.__name__} {a}..{b}], {chr(g)!r} (code {g})) = {v!r} lies outside the declared range', n
    return None, n


def _inherited_defaults():
    """two sessions in one process: a strategy with declared defaults, then a subclass that declares other defaults - the subclass
    must see its own"""
    import numpy as np
    from jesse.strategies import Strategy
    from jesse import research
    seen = {}

    class Parent(Strategy):
        def hyperparameters(self):
            return [{'name': 'period', 'type': int, 'min': 5, 'max': 60, 'default': 14}, {'name': 'mult', 'type': float, 'min': 1, 'max': 5, 'default': 2.0}]

        def should_long(self):
            seen[type(self).__name__] = None if self.hp is None else dict(self.hp)
            return False

        def should_short(self): return False
        def should_cancel_entry(self): return False
        def go_long(self): pass
        def go_short(self): pass

    class Child(Parent):
        def hyperparameters(self):
            return [{'name': 'period', 'type': int, 'min': 5, 'max': 60, 'default': 50}, {'name': 'mult', 'type': float, 'min': 1, 'max': 5, 'default': 3.5}]

    ts0 = 1609459200000
    c = np.array([[ts0 + i * 60000, 100, 100, 101, 99, 10] for i in range(30)], dtype=float)
    cfg = {'starting_balance': 10000, 'fee': 0, 'type': 'futures', 'futures_leverage': 2, 'futures_leverage_mode': 'cross',
           'exchange': 'Sandbox', 'warm_up_candles': 0}
    for S in (Parent, Child):
        research.backtest(cfg, [{'exchange': 'Sandbox', 'strategy': S, 'symbol': 'BTC-USDT', 'timeframe': '1m'}], [],
                          {'Sandbox-BTC-USDT': {'exchange': 'Sandbox', 'symbol': 'BTC-USDT', 'candles': c.copy()}})
    if seen.get('Child') != {'period': 50, 'mult': 3.5} or seen.get('Parent') != {'period': 14, 'mult': 2.0}:
        return f'declared defaults: parent strategy sees {seen.get("Parent")}, its subclass (defaults 50 / 3.5) sees {seen.get("Child")}'
    return None


def replay(pl):
    if pl['obligation'].startswith('float-grid'):
        d, n = float_range_grid()
        return {'confirmed': bool(d), 'detail': d or f'{n} decodes on the grid stay inside their declared range in binary floats', 'cases': n}
    m = pl['m']
    ob = pl['obligation']
    rng = random.Random(pl.get('seed', 0))
    if ob.startswith('dna_to_hp.float') or ob.startswith('dna_to_hp.int'):
        ty = float if '.float' in ob else int
        for mm in [m] + pl.get('others', []):
            lo, hi = mm.get('lo', 0), mm.get('hi', 1)
            if ty is int:
                lo, hi = int(lo), int(hi)
            d = _decode_check(ty, lo, hi, int(mm.get('g', 40)), int(mm.get('g2', 41)))
            if d:
                return {'confirmed': True, 'detail': d}
        for _ in range(300):
            lo = rng.choice([-50, -1.5, 0, 0.25, 3, 10])
            hi = lo + rng.choice([0.5, 1, 2, 7, 79, 158, 1000])
            if ty is int:
                lo, hi = int(lo), int(hi) + 1
            for g in range(K.FIRST, K.LAST + 1):
                d = _decode_check(ty, lo, hi, g, min(K.LAST, g + 1))
                if d:
                    return {'confirmed': True, 'detail': d}
        return {'confirmed': False, 'detail': 'real dna_to_hp satisfies every clause on the model and on 300 ranges x 80 genes'}
    if ob.startswith('dna_to_hp') or ob.startswith('frame'):
        from jesse.helpers import dna_to_hp
        decls = [
            [{'name': 'p0', 'type': float, 'min': 0.5, 'max': 7.25}, {'name': 'p1', 'type': int, 'min': -3, 'max': 40},
             {'name': 'p2', 'type': float, 'min': -1, 'max': 1}],
            # the same names declared with other ranges (another strategy decoded earlier in the same process)
            [{'name': 'p0', 'type': float, 'min': 100.0, 'max': 200.0}, {'name': 'p1', 'type': int, 'min': 50, 'max': 90},
             {'name': 'p2', 'type': float, 'min': 10, 'max': 11}],
            # a parameter pinned to one value (min == max) in a non-last position
            [{'name': 'p0', 'type': float, 'min': 0.5, 'max': 7.25}, {'name': 'p1', 'type': int, 'min': 20, 'max': 20},
             {'name': 'p2', 'type': float, 'min': -1, 'max': 1}],
        ]
        for it in range(2000):
            decl = decls[it % len(decls)]
            genes = [rng.randint(K.FIRST, K.LAST) for _ in range(3)]
            try:
                got = dna_to_hp(decl, ''.join(chr(g) for g in genes))
            except Exception as ex:
                return {'confirmed': True, 'detail': f'dna_to_hp raised {type(ex).__name__}: {ex}'}
            for k in range(3):
                w = K.decode(decl[k], genes[k])
                if f'p{k}' not in got or abs(got[f'p{k}'] - w) > 1e-9:
                    return {'confirmed': True, 'detail': f'declaration {decl[k]}, genes {genes} (after other declarations were decoded in the '
                                                         f'same process): hp[p{k}] = {got.get(f"p{k}")!r}, decode of its own gene is {w!r}'}
        try:
            dna_to_hp([{'name': 's', 'type': str, 'min': 0, 'max': 1}], '5')
            return {'confirmed': True, 'detail': 'a str-typed declaration is not rejected'}
        except TypeError:
            pass
        return {'confirmed': False, 'detail': 'real dna_to_hp decodes every gene independently on 2000 random DNAs'}
    if ob.startswith('alphabet'):
        import inspect
        from jesse.modes.optimize_mode.Optimize import Optimizer
        cs = inspect.signature(Optimizer.__init__).parameters['charset'].default
        ok = sorted(ord(c) for c in cs) == list(range(K.FIRST, K.LAST + 1))
        return {'confirmed': not ok, 'detail': f'charset default {cs!r}'}
    if ob.startswith('precedence'):
        d = _inherited_defaults()
        if d:
            return {'confirmed': True, 'detail': d}
        # defaults at the ends of the range and equal to zero are legal declarations
        for decl0 in ([{'name': 'a', 'type': float, 'min': -1.0, 'max': 1.0, 'default': 0.0}, {'name': 'b', 'type': int, 'min': -10, 'max': 10, 'default': 0}],
                      [{'name': 'a', 'type': float, 'min': 0.5, 'max': 4.0, 'default': 0.5}, {'name': 'b', 'type': int, 'min': 2, 'max': 60, 'default': 60}]):
            d = _precedence_check(None, '', decl0)
            if d:
                return {'confirmed': True, 'detail': d}
        decl2 = [{'name': 'a', 'type': float, 'min': 0.5, 'max': 4.0, 'default': 1.25},
                 {'name': 'b', 'type': int, 'min': 2, 'max': 60, 'default': 14}]
        for explicit in (None, {'a': 3.5, 'b': 7}):
            # genes that are special characters elsewhere (backslash, brackets, quotes-free punctuation) are letters of the alphabet, too
            for dna in ('', 'K]', '\\\\', '\\(', 'w\\', '`^'):
                for decl in ([], decl2):
                    if dna and not decl:
                        continue
                    d = _precedence_check(explicit, dna, decl)
                    if d:
                        return {'confirmed': True, 'detail': d}
        return {'confirmed': False, 'detail': 'real backtests expose the expected hp for all combinations'}
    return {'confirmed': False, 'detail': f'no native replay for {ob}'}


def replay_finding(entry):
    return {'confirmed': False, 'detail': 'no findings recorded for C19'}
