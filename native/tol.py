"""Tolerant float for native evaluation of real-valued contract clauses (A-1): a counterexample found
over the reals is only *confirmed* natively when the clause fails by more than rounding noise."""
import math

EPS = 1e-9


class T(float):
    def _tol(self, o):
        return EPS * max(1.0, abs(float(self)), abs(float(o)))

    def __le__(self, o): return float(self) <= float(o) + self._tol(o)
    def __lt__(self, o): return float(self) < float(o) + self._tol(o)
    def __ge__(self, o): return float(self) >= float(o) - self._tol(o)
    def __gt__(self, o): return float(self) > float(o) - self._tol(o)
    def __eq__(self, o): return abs(float(self) - float(o)) <= self._tol(o)
    def __ne__(self, o): return not self.__eq__(o)
    __hash__ = float.__hash__

    def __add__(self, o): return T(float(self) + float(o))
    __radd__ = __add__
    def __sub__(self, o): return T(float(self) - float(o))
    def __rsub__(self, o): return T(float(o) - float(self))
    def __mul__(self, o): return T(float(self) * float(o))
    __rmul__ = __mul__
    def __truediv__(self, o): return T(float(self) / float(o))
    def __rtruediv__(self, o): return T(float(o) / float(self))
    def __neg__(self): return T(-float(self))
    def __abs__(self): return T(abs(float(self)))
    def __pow__(self, o): return T(float(self) ** float(o))
    def __rpow__(self, o): return T(float(o) ** float(self))


def wrap(v):
    if isinstance(v, bool) or v is None or isinstance(v, str):
        return v
    if isinstance(v, (int, float)):
        return T(v)
    try:
        import numpy as np
        if isinstance(v, np.floating):
            return T(float(v))
        if isinstance(v, np.ndarray):
            return [wrap(x) for x in v.tolist()]
    except ImportError:
        pass
    if isinstance(v, (list, tuple)):
        return type(v)(wrap(x) for x in v)
    return v
