"""Native replay for C15: independent straightforward implementations of the textbook definitions."""
import math
import numpy as np
import contracts.C15 as K
from native import indic

nan = float('nan')
K.nan = nan


def eq(a, b):
    return indic.close_enough(np.asarray(a, dtype=float), np.asarray(b, dtype=float), 1e-8)


def dispatcher(P=7):
    import jesse.indicators as ta
    c = indic.candles(max(120, 3 * P), 2)
    for m, name in K.MATYPES.items():
        f = getattr(ta, name)
        for seq in (True, False):
            for st in ('close', 'hl2'):
                try:
                    want = f(c, source_type=st, sequential=seq) if name in K.NO_PERIOD else f(c, P, source_type=st, sequential=seq)
                except Exception as ex:
                    continue
                try:
                    got = ta.ma(c, P, matype=m, source_type=st, sequential=seq)
                except Exception as ex:
                    return f'ma(matype={m}) raised {type(ex).__name__}: {ex} although {name} works'
                if not eq(np.atleast_1d(got), np.atleast_1d(want)):
                    return f'ma(period={P}, matype={m}, source_type={st}, sequential={seq}) differs from {name}() on the same arguments'
    for m in K.INVALID_MATYPES:
        try:
            ta.ma(c, P, matype=m)
            return f'ma(matype={m}) did not raise'
        except ValueError:
            pass
    return None


def definitions():
    import jesse.indicators as ta
    for seed in (0, 1):
        c = indic.candles(90, seed, 'random' if seed == 0 else 'spikes')
        close, high, low, vol = c[:, 2].tolist(), c[:, 3].tolist(), c[:, 4].tolist(), c[:, 5].tolist()
        for p in (2, 3, 5, 14, 30):
            for name in ('sma', 'wma', 'roc', 'mom'):
                got = getattr(ta, name)(c, p, sequential=True)
                want = getattr(K, name)(close, p)
                if not eq(got, want):
                    j = next(i for i in range(len(want)) if not eq(got[i:i + 1], [want[i]]))
                    return f'{name}(period={p})[{j}] = {got[j]} but the window definition gives {want[j]}'
            e = ta.ema(c, p, sequential=True)
            a = 2 / (p + 1)
            for j in range(p, len(close)):
                if not eq([e[j]], [a * close[j] + (1 - a) * e[j - 1]]):
                    return f'ema(period={p})[{j}] = {e[j]} violates e[j] = a*x[j] + (1-a)*e[j-1] with a = 2/(p+1)'
            if not eq([e[p - 1]], [sum(close[:p]) / p]):
                return f'ema(period={p}) seed {e[p - 1]} is not the mean of the first {p} values'
            w = ta.wilders(c, p, sequential=True)
            for j in range(1, len(close)):
                if not eq([w[j]], [(w[j - 1] * (p - 1) + close[j]) / p]):
                    return f'wilders(period={p})[{j}] violates the Wilder recurrence'
            r = ta.rsi(c, p, sequential=True)
            # Wilder's definition, also on tiny prices and on a strictly rising series (adversarial inputs of the statement)
            for scale, series_ in ((1.0, close), (1e-8, close), (1e6, close), (1e-8, [1.0 + 0.01 * j for j in range(len(close))])):
                xs = [v * scale for v in series_]
                got = ta.rsi(np.array(xs), p, sequential=True)
                want = K.rsi_wilder(xs, p)
                if not indic.close_enough(np.asarray(got, dtype=float), np.asarray(want, dtype=float), 1e-6):
                    j = next(i for i in range(len(want)) if not indic.close_enough(np.asarray(got[i:i + 1], dtype=float), np.asarray([want[i]], dtype=float), 1e-6))
                    return f'rsi(period={p})[{j}] = {got[j]} on prices scaled by {scale} but Wilder\'s definition gives {want[j]}'
            rr = r[~np.isnan(r)]
            if len(rr) and (rr.min() < -1e-9 or rr.max() > 100 + 1e-9):
                return f'rsi(period={p}) leaves [0, 100]: {rr.min()} .. {rr.max()}'
            wr = ta.willr(c, p, sequential=True)
            ww = wr[~np.isnan(wr)]
            if len(ww) and (ww.min() < -100 - 1e-9 or ww.max() > 1e-9):
                return f'willr(period={p}) leaves [-100, 0]'
            at = ta.atr(c, p, sequential=True)
            for j in range(1, len(close)):
                if np.isnan(at[j]) or np.isnan(at[j - 1]):
                    continue
                tr = K.true_range(high, low, close, j)
                if at[j] < 0 or not eq([at[j]], [(at[j - 1] * (p - 1) + tr) / p]):
                    return f'atr(period={p})[{j}] = {at[j]} violates the Wilder recurrence over the true range'
            d = ta.donchian(c, p, sequential=True)
            for j in range(p - 1, len(close)):
                if not (d.upperband[j] >= high[j] - 1e-12 and d.lowerband[j] <= low[j] + 1e-12 and d.upperband[j] >= d.middleband[j] >= d.lowerband[j]):
                    return f'donchian(period={p})[{j}] does not enclose the price'
            b = ta.bollinger_bands(c, p, sequential=True)
            if not eq(b.middleband, K.sma(close, p)):
                return f'bollinger_bands(period={p}): middle band is not the SMA'
            for j in range(p - 1, len(close)):
                if not (b.upperband[j] >= b.middleband[j] - 1e-9 and b.middleband[j] >= b.lowerband[j] - 1e-9):
                    return f'bollinger_bands(period={p})[{j}]: bands not ordered'
            # the middle band follows the selected average (matype 1 = EMA) over the whole history, in the single-value mode as well
            if len(close) <= 240:
                for seqm in (True, False):
                    bm = ta.bollinger_bands(c, p, matype=1, sequential=seqm)
                    em = ta.ema(c, p, sequential=True)
                    got = bm.middleband if seqm else np.asarray([bm.middleband])
                    want = em if seqm else em[-1:]
                    if not eq(got, want):
                        return (f'bollinger_bands(period={p}, matype=1, sequential={seqm}): middle band {np.asarray(got)[-1]} is not the EMA '
                                f'{np.asarray(want)[-1]} of the close')
            for name in ('sma', 'ema', 'wma'):
                x1 = getattr(ta, name)(c, p, sequential=True)
                c2 = c.copy()
                c2[:, 1:5] *= 3.5
                x2 = getattr(ta, name)(c2, p, sequential=True)
                if not eq(x2, x1 * 3.5):
                    return f'{name}(period={p}) does not scale linearly with price'
        if not eq(ta.obv(c, sequential=True), K.obv(close, vol)):
            return 'obv is not the cumulative signed volume'
        if not eq(ta.typprice(c, sequential=True), [(h + l + cl) / 3 for h, l, cl in zip(high, low, close)]):
            return 'typprice is not (h+l+c)/3'
        if not eq(ta.medprice(c, sequential=True), [(h + l) / 2 for h, l in zip(high, low)]):
            return 'medprice is not (h+l)/2'
        x = ta.dema(c, 5, sequential=True)
        a = 2 / 6

        def ema0(src):
            o = [src[0]]
            for j in range(1, len(src)):
                o.append(a * src[j] + (1 - a) * o[-1])
            return o
        e1 = ema0(close); e2 = ema0(e1); e3 = ema0(e2)
        if not eq(x, [2 * p1 - p2 for p1, p2 in zip(e1, e2)]):
            return 'dema is not 2*EMA - EMA(EMA)'
        if not eq(ta.tema(c, 5, sequential=True), [3 * p1 - 3 * p2 + p3 for p1, p2, p3 in zip(e1, e2, e3)]):
            return 'tema is not 3*EMA - 3*EMA(EMA) + EMA(EMA(EMA))'
    return None


def ref_adx(high, low, close, n):
    """Wilder's ADX: +DM / -DM count only the larger of the two extensions (both 0 on a tie), Wilder sums, DX, smoothed"""
    N = len(close)
    tr, pdm, mdm = [0.0] * N, [0.0] * N, [0.0] * N
    for i in range(1, N):
        tr[i] = max(high[i] - low[i], abs(high[i] - close[i - 1]), abs(low[i] - close[i - 1]))
        up, down = high[i] - high[i - 1], low[i - 1] - low[i]
        pdm[i] = up if (up > down and up > 0) else 0.0
        mdm[i] = down if (down > up and down > 0) else 0.0

    def smooth(x):
        sm = [nan] * N
        sm[n] = sum(x[1:n + 1])
        for i in range(n + 1, N):
            sm[i] = sm[i - 1] - sm[i - 1] / n + x[i]
        return sm
    st, sp, smn = smooth(tr), smooth(pdm), smooth(mdm)
    dx = [nan] * N
    for i in range(n, N):
        if st[i] == 0:
            dx[i] = 0.0
            continue
        dip, dim = 100 * sp[i] / st[i], 100 * smn[i] / st[i]
        dx[i] = 100 * abs(dip - dim) / (dip + dim) if (dip + dim) != 0 else 0.0
    adx = [nan] * N
    if 2 * n < N:
        adx[2 * n] = sum(dx[n:2 * n]) / n
        for i in range(2 * n + 1, N):
            adx[i] = (adx[i - 1] * (n - 1) + dx[i]) / n
    return adx


def more_definitions():
    """bounded native definitions that the real-arithmetic layer cannot see or does not cover: ADX on series with exact ties,
    stochastic %K / %D with different smoothing types, standard deviation at huge price levels (cancellation)"""
    import jesse.indicators as ta
    # ADX (after the start-up seed: from index 2 * period on)
    for kind in ('random', 'ties'):
        c = indic.candles(160, 4, kind)
        high, low, close = c[:, 3].tolist(), c[:, 4].tolist(), c[:, 2].tolist()
        for p in (2, 5, 14):
            got = np.asarray(ta.adx(c, period=p, sequential=True), dtype=float)
            want = np.asarray(ref_adx(high, low, close, p), dtype=float)
            for j in range(2 * p, len(close)):
                if not indic.close_enough(got[j:j + 1], want[j:j + 1], 1e-7):
                    return f'adx(period={p})[{j}] = {got[j]} on a {kind} series but Wilder\'s definition gives {want[j]}'
    # stochastic: %K = MA_slowk(raw %K), %D = MA_slowd(%K), each with its OWN smoothing type
    c = indic.candles(120, 6, 'random')
    high, low, close = c[:, 3], c[:, 4], c[:, 2]
    fk, sk, sd = 14, 3, 3
    raw = np.full(len(close), nan)
    for j in range(fk - 1, len(close)):
        hh, ll = high[j - fk + 1:j + 1].max(), low[j - fk + 1:j + 1].min()
        raw[j] = 100 * (close[j] - ll) / (hh - ll)
    mas = {0: K.sma, 2: K.wma}
    for kt in (0, 2):
        for dt in (0, 2):
            r = ta.stoch(c, fastk_period=fk, slowk_period=sk, slowk_matype=kt, slowd_period=sd, slowd_matype=dt, sequential=True)
            kk = np.asarray(mas[kt](raw[fk - 1:].tolist(), sk), dtype=float)
            dd = np.asarray(mas[dt]([x for x in kk[sk - 1:].tolist()], sd), dtype=float)
            gotk, gotd = np.asarray(r.k, dtype=float), np.asarray(r.d, dtype=float)
            if not indic.close_enough(gotk[-20:], kk[-20:], 1e-7):
                return f'stoch(slowk_matype={kt}, slowd_matype={dt}): %K differs from MA_{kt}(raw %K): {gotk[-1]} vs {kk[-1]}'
            if not indic.close_enough(gotd[-20:], dd[-20:], 1e-7):
                return f'stoch(slowk_matype={kt}, slowd_matype={dt}): %D = {gotd[-1]} but MA_{dt}(%K) = {dd[-1]}'
    # MACD = EMA(fast) - EMA(slow), signal = EMA(MACD, signal period), for every order of the two periods (the statement says "for all
    # parameters": fast > slow is a legal call and simply has the opposite sign)
    c = indic.candles(150, 8, 'random')
    close = c[:, 2]
    for fp, sp, sg in ((12, 26, 9), (5, 8, 3), (26, 12, 9), (20, 10, 5), (7, 7, 4)):
        r = ta.macd(c, fast_period=fp, slow_period=sp, signal_period=sg, sequential=True)
        def ema_ref(xs, per):
            # the recurrence of the statement; the start-up seed (first price) has decayed where the values are compared
            a_ = 2.0 / (per + 1)
            o = [float(xs[0])]
            for v in xs[1:]:
                o.append(a_ * float(v) + (1 - a_) * o[-1])
            return np.asarray(o)
        want = ema_ref(close, fp) - ema_ref(close, sp)
        got = np.asarray(r.macd, dtype=float)
        lo = max(fp, sp) + 5
        if not indic.close_enough(got[lo:], want[lo:], 1e-7):
            return f'macd(fast={fp}, slow={sp}): macd line {got[-1]} is not EMA({fp}) - EMA({sp}) = {want[-1]}'
        hist = np.asarray(r.hist, dtype=float)
        sig = np.asarray(r.signal, dtype=float)
        if not indic.close_enough(hist[lo + sg:], (got - sig)[lo + sg:], 1e-7):
            return f'macd(fast={fp}, slow={sp}): histogram is not macd - signal'
    # trailing-window averages are exact wherever a full window exists - also on an input that is exactly one window long, which is
    # what a non-sequential call with period = warm-up window sees
    for n, p in ((5, 5), (6, 5), (14, 14), (30, 30), (31, 30)):
        c = indic.candles(n, 9, 'random')
        close = c[:, 2].tolist()
        for name in ('sma', 'wma'):
            got = np.asarray(getattr(ta, name)(c, p, sequential=True), dtype=float)
            want = np.asarray(getattr(K, name)(close, p), dtype=float)
            if len(got) != n or not indic.close_enough(got[p - 1:], want[p - 1:], 1e-9):
                return f'{name}(period={p}) on {n} candles: {got[p - 1:]} but the window definition gives {want[p - 1:]}'
        for mt in (0, 2):
            got = np.asarray(ta.ma(c, period=p, matype=mt, sequential=True), dtype=float)
            want = np.asarray((K.sma if mt == 0 else K.wma)(close, p), dtype=float)
            if not indic.close_enough(got[p - 1:], want[p - 1:], 1e-9):
                return f'ma(matype={mt}, period={p}) on {n} candles: {got[p - 1:]} but the window definition gives {want[p - 1:]}'
    # Hull moving average HMA(n) = WMA(2 WMA(n/2) - WMA(n), sqrt(n)) with integer halves and roots, for periods of every residue mod 4
    c = indic.candles(160, 12, 'random')
    close = c[:, 2].tolist()

    def wma_ref(xs, p_):
        den = p_ * (p_ + 1) / 2
        return [float('nan') if j < p_ - 1 else sum((k + 1) * xs[j - p_ + 1 + k] for k in range(p_)) / den for j in range(len(xs))]
    for p in (5, 7, 9, 11, 14, 15, 16, 19, 23):
        half, root = int(p / 2), int(math.sqrt(p))
        a_, b_ = wma_ref(close, half), wma_ref(close, p)
        raw = [2 * x - y for x, y in zip(a_, b_)]
        lo = p + root
        want = np.asarray(wma_ref(raw[p - 1:], root), dtype=float)
        got = np.asarray(ta.hma(c, period=p, sequential=True), dtype=float)
        if not indic.close_enough(got[lo:], want[lo - (p - 1):], 1e-7):
            return f'hma(period={p}): {got[-1]} but the textbook definition (half length {half}, root length {root}) gives {want[-1]}'
        got_ma = np.asarray(ta.ma(c, period=p, matype=10, sequential=True), dtype=float)
        if not indic.close_enough(got_ma[lo:], want[lo - (p - 1):], 1e-7):
            return f'ma(matype=10, period={p}) differs from the textbook Hull moving average'
    # Money Flow Index on series with exact ties: a candle whose typical price is unchanged counts for neither flow
    for kind in ('random', 'ties'):
        c = indic.candles(120, 3, kind)
        tp = (c[:, 3] + c[:, 4] + c[:, 2]) / 3.0
        raw = tp * c[:, 5]
        for p in (5, 14):
            got = np.asarray(ta.mfi(c, period=p, sequential=True), dtype=float)
            for j in range(p, len(tp)):
                pos = sum(raw[k] for k in range(j - p + 1, j + 1) if k >= 1 and tp[k] > tp[k - 1])
                neg = sum(raw[k] for k in range(j - p + 1, j + 1) if k >= 1 and tp[k] < tp[k - 1])
                want = 100.0 if neg == 0 else 100 - 100 / (1 + pos / neg)
                if abs(got[j] - want) > 1e-6:
                    return f'mfi(period={p})[{j}] = {got[j]} on a {kind} series but the textbook definition gives {want}'
    # standard deviation: population std of the trailing window (two-pass), also at a huge price level with small dispersion
    for level in (0.0, 1e9):
        c = indic.candles(80, 7, 'random')
        c[:, 1:5] += level
        close = c[:, 2]
        for p in (5, 20):
            got = np.asarray(ta.stddev(c, period=p, sequential=True), dtype=float)
            for j in range(p - 1, len(close)):
                w = close[j - p + 1:j + 1]
                m = math.fsum(w) / p
                want = math.sqrt(math.fsum((x - m) ** 2 for x in w) / p)
                if abs(got[j] - want) > 1e-6 * max(1.0, want) + 1e-9 * abs(level):
                    return (f'stddev(period={p})[{j}] = {got[j]} at price level {level + 100:.0f} but the population standard deviation '
                            f'of the window is {want}')
    return None


def bounded(pl):
    d = more_definitions() or definitions()
    return {'confirmed': bool(d), 'detail': d or 'textbook definitions hold on the probed series (ties, mixed smoothing types, huge price levels)'}


def replay(pl):
    if pl['obligation'].startswith('native') or pl['obligation'].endswith('.native-bounded'):
        try:
            return bounded(pl)
        except Exception as ex:
            import traceback
            return {'confirmed': False, 'error': f'{type(ex).__name__}: {ex}', 'stderr': traceback.format_exc()[-800:]}
    ob = pl['obligation']
    try:
        P = pl['m'].get('period')
        P = P if isinstance(P, int) and 1 <= P <= 200 else 7
        d = (dispatcher(P) or dispatcher(7)) if ob.startswith('ma.') else (definitions() or dispatcher())
    except Exception as ex:
        import traceback
        return {'confirmed': False, 'error': f'{type(ex).__name__}: {ex}', 'stderr': traceback.format_exc()[-800:]}
    return {'confirmed': bool(d), 'detail': d or 'real indicators agree with the independent definitions on the probed inputs'}


def replay_finding(entry):
    return {'confirmed': False, 'detail': 'no findings recorded for C15'}
