"""Native replay dispatcher (runs under /venv/bin/python with jesse importable).
usage: run.py <Cxx>  with a JSON payload on stdin; prints one JSON line."""
import importlib
import json
import os
import sys
import traceback

os.environ.setdefault('PYTHONWARNINGS', 'ignore')
import warnings
warnings.filterwarnings('ignore')


def num(v):
    if isinstance(v, dict) and 'float' in v:
        return float(v['float'])
    return v


def clean_model(m):
    """{'name#3': value} -> {'name': value} (first occurrence wins)."""
    out = {}
    for k, v in (m or {}).items():
        base = k.split('#')[0] + (k.split('#')[1][len(k.split('#')[1].split('.')[0]):] if '#' in k else '')
        if isinstance(v, dict) and 'rows' in v:
            v = {'len': v['len'], 'rows': [[num(x) for x in r] if isinstance(r, list) else num(r) for r in v['rows']]}
        else:
            v = num(v)
        out.setdefault(base, v)
    return out


def main():
    prop = sys.argv[1]
    payload = json.load(sys.stdin)
    try:
        mod = importlib.import_module(f'native.{prop}')
        if 'bounded' in payload:
            res = mod.bounded(payload)
        elif 'finding' in payload:
            res = mod.replay_finding(payload['finding'])
        else:
            payload['m'] = clean_model(payload.get('model'))
            payload['others'] = [clean_model(x) for x in payload.get('other_models') or []]
            res = mod.replay(payload)
    except Exception:
        res = {'error': 'native replay raised', 'stderr': traceback.format_exc()}
    sys.stdout.write('\n' + json.dumps(res, default=str) + '\n')


if __name__ == '__main__':
    main()
