"""Native replay for C06: scripted strategies in real isolated backtests; hooks, trades and wallet are compared."""
import random
import numpy as np

TS0 = 1609459200000


def candles(closes):
    rows = []
    prev = closes[0]
    for i, c in enumerate(closes):
        rows.append([TS0 + i * 60000, prev, c, max(prev, c), min(prev, c), 10.0])
        prev = c
    return np.array(rows, dtype=float)


def run(script, closes, fee=0.001, leverage=5):
    """script: {index: callable(strategy)} run in before(); returns (events, metrics dict, trades, wallet change)"""
    from jesse import research
    from jesse.strategies import Strategy
    from jesse.store import store
    events = []
    out = {}

    class S(Strategy):
        def should_long(self): return False
        def should_short(self): return False
        def should_cancel_entry(self): return False
        def go_long(self): pass
        def go_short(self): pass

        def before(self):
            f = script.get(self.index)
            if f:
                f(self)

        def on_open_position(self, order): events.append(('open', self.position.qty))
        def on_close_position(self, order): events.append(('close', self.position.qty))
        def on_increased_position(self, order): events.append(('increase', self.position.qty))
        def on_reduced_position(self, order): events.append(('reduce', self.position.qty))

        def terminate(self):
            out['trades'] = [(t.type, t.qty, t.entry_price, t.exit_price, t.pnl, len(t.orders)) for t in store.completed_trades.trades]

        def before_terminate(self):
            out['wallet_before_terminate'] = self.balance
    cfg = {'starting_balance': 10000, 'fee': fee, 'type': 'futures', 'futures_leverage': leverage, 'futures_leverage_mode': 'cross',
           'exchange': 'Sandbox', 'warm_up_candles': 0}
    routes = [{'exchange': 'Sandbox', 'strategy': S, 'symbol': 'BTC-USDT', 'timeframe': '1m'}]
    res = research.backtest(cfg, routes, [], {'Sandbox-BTC-USDT': {'exchange': 'Sandbox', 'symbol': 'BTC-USDT', 'candles': candles(closes)}})
    m = res['metrics']
    return events, m, out


def check(script, closes, what, fee=0.001, expect_events=None):
    try:
        events, m, out = run(script, closes, fee)
    except Exception as ex:
        return f'{what}: raised {type(ex).__name__}: {ex}'
    if expect_events is not None and [e[0] for e in events] != expect_events:
        return f'{what}: hooks {[e[0] for e in events]}, expected {expect_events}'
    if not m or m.get('total', 0) == 0:
        return None
    wallet = m['finishing_balance'] - m['starting_balance']
    net = m['net_profit']
    kinds = [e[0] for e in events]
    # well-formed cycles: open (increase|reduce)* close
    state = 'flat'
    for k in kinds:
        if state == 'flat' and k != 'open' or state == 'open' and k == 'open':
            return f'{what}: hook sequence {kinds} is not a sequence of open..close cycles (fee {fee})'
        state = 'flat' if k == 'close' else 'open'
    if abs(wallet - net) > 1e-6 * max(1.0, abs(wallet)):
        return (f'{what}: net profit of the closed trades = {net:.6f} but the wallet changed by {wallet:.6f} '
                f'(finishing balance {m["finishing_balance"]:.6f}); trades {out.get("trades")}')
    if expect_events is not None and kinds != expect_events:
        return f'{what}: hooks {kinds}, expected {expect_events}'
    return None


def scenario_flip():
    script = {2: lambda s: s.broker.buy_at_market(1), 5: lambda s: s.broker.sell_at_market(3)}
    return check(script, [100, 100, 100, 101, 102, 103, 104, 103, 102, 101, 100, 99], 'long 1 then market sell 3 (flip)',
                 expect_events=['open', 'close', 'open', 'close'])


def scenario_oversize():
    def enter(s):
        s.broker.buy_at_market(10)

    def exits(s):
        s.broker.reduce_position_at(5, 110, s.price)
        s.broker.reduce_position_at(10, 90, s.price)
    closes = [100, 100, 100, 100, 104, 108, 111, 108, 100, 95, 89, 88, 88]
    return check({2: enter, 4: exits}, closes, 'buy 10@100, take-profit 5@110, full-size stop 10@90 (oversize reduce-only close)')


def scenario_plain(rng):
    """cycles without flips / oversize exits: multi-point entries, partial reductions, close"""
    for _ in range(25):
        side = rng.choice(['long', 'short'])
        q1, q2 = rng.choice([1, 2.5]), rng.choice([0.5, 1.5])
        script = {}
        if side == 'long':
            script[2] = lambda s, q1=q1: s.broker.buy_at_market(q1)
            script[4] = lambda s, q2=q2: s.broker.buy_at_market(q2)
            script[6] = lambda s, q1=q1: s.broker.reduce_position_at(q1 / 2, s.price, s.price)
            script[9] = lambda s: s.broker.reduce_position_at(abs(s.position.qty), s.price, s.price)
        else:
            script[2] = lambda s, q1=q1: s.broker.sell_at_market(q1)
            script[4] = lambda s, q2=q2: s.broker.sell_at_market(q2)
            script[6] = lambda s, q1=q1: s.broker.reduce_position_at(q1 / 2, s.price, s.price)
            script[9] = lambda s: s.broker.reduce_position_at(abs(s.position.qty), s.price, s.price)
        closes = [100.0]
        for _ in range(14):
            closes.append(round(closes[-1] * (1 + rng.uniform(-0.01, 0.01)), 2))
        d = check(script, closes, f'{side} cycle open/increase/reduce/close', fee=rng.choice([0.0, 0.0004, 0.001]),
                  expect_events=['open', 'increase', 'reduce', 'close'])
        if d:
            return d
    return None


def scenario_fill_times():
    """trade timestamps follow the fills: in both simulators a limit entry and a take-profit that fill mid-bar of a 5m route stamp
    opened_at / closed_at with the end of the 1m candle that reached their price"""
    import numpy as np
    from jesse import research
    from jesse.strategies import Strategy
    from jesse.store import store
    TS0 = 1609459200000
    n = 40
    rows = [[TS0 + i * 60000, 100.0, 100.0, 100.2, 99.8, 10.0] for i in range(n)]
    rows[7] = [rows[7][0], 100.0, 100.0, 100.2, 97.5, 10.0]       # entry limit 98 reached in minute 7
    rows[18] = [rows[18][0], 100.0, 100.0, 103.5, 99.8, 10.0]     # take-profit 103 reached in minute 18
    got = {}

    class S(Strategy):
        def should_long(self): return self.index == 0
        def should_short(self): return False
        def should_cancel_entry(self): return False
        def go_long(self): self.buy = (1, 98.0); self.take_profit = (1, 103.0)
        def go_short(self): pass

        def before_terminate(self):
            got['trades'] = [(t.opened_at, t.closed_at, t.holding_period) for t in store.completed_trades.trades]
    cfg = {'starting_balance': 10000, 'fee': 0, 'type': 'futures', 'futures_leverage': 2, 'futures_leverage_mode': 'cross',
           'exchange': 'Sandbox', 'warm_up_candles': 0}
    for fast in (False, True):
        got.clear()
        research.backtest(cfg, [{'exchange': 'Sandbox', 'strategy': S, 'symbol': 'BTC-USDT', 'timeframe': '5m'}], [],
                          {'Sandbox-BTC-USDT': {'exchange': 'Sandbox', 'symbol': 'BTC-USDT', 'candles': np.array(rows, dtype=float)}}, fast_mode=fast)
        want = (TS0 + 8 * 60000, TS0 + 19 * 60000, 11 * 60.0)
        tr = got.get('trades') or []
        if len(tr) != 1 or tuple(float(x) for x in tr[0]) != tuple(float(x) for x in want):
            return (f'{"fast" if fast else "normal"} simulator, 5m route: entry limit reached in minute 7, take-profit in minute 18: trade '
                    f'(opened_at, closed_at, holding_period) = {tr} but the fills happened at {want}')
    return None


def scenario_two_sessions():
    """two sessions in one process with different fee rates: the trade log of the second must use its own fee"""
    script = {1: lambda s: s.broker.buy_at_market(2), 6: lambda s: s.broker.sell_at_market(2)}
    closes = [100, 100, 101, 103, 104, 106, 107, 107, 108, 108]
    for fees in ((0.0, 0.001), (0.002, 0.0)):
        d = None
        for fee in fees:
            d = check(script, closes, f'session with fee {fee} after sessions with fees {fees[:fees.index(fee)]}', fee=fee)
        if d:
            return d
    return None


def scenario_terminate(fast):
    """a position still open at the end of the session: the strategy's closing order is executed, the cycle ends with its close"""
    from jesse import research
    script = {1: lambda s: s.broker.buy_at_market(2)}
    closes = [100 + (j % 7) for j in range(40)]
    import jesse.research as R
    orig = R.backtest
    try:
        if fast:
            R.backtest = lambda *a, **k: orig(*a, **dict(k, fast_mode=True))
        return check(script, closes, f'position open at the end of a {"fast" if fast else "normal"} session', fee=0.001, expect_events=['open', 'close'])
    finally:
        R.backtest = orig


def replay(pl):
    if pl['obligation'].startswith('float'):
        return bounded(pl)
    if pl['obligation'].startswith('module-state'):
        d = scenario_two_sessions()
        return {'confirmed': bool(d), 'detail': d or 'two sessions with different fees: each trade log uses its own fee'}
    if pl['obligation'].startswith('sampling'):
        d = scenario_terminate(False) or scenario_terminate(True)
        return {'confirmed': bool(d), 'detail': d or 'a position open at the end is closed and logged in both simulators'}
    if pl['obligation'].startswith('chunk-clock'):
        try:
            d = scenario_fill_times()
        except Exception as ex:
            import traceback
            return {'confirmed': False, 'error': f'{type(ex).__name__}: {ex}', 'stderr': traceback.format_exc()[-600:]}
        return {'confirmed': bool(d), 'detail': d or 'trade timestamps equal the fill minutes in both simulators'}
    ob = pl['obligation']
    m = pl['m']
    rng = random.Random(pl.get('seed', 0))
    Q, q, ro = m.get('Q'), m.get('q'), m.get('reduce_only')
    d = None
    is_flip = Q is not None and q is not None and Q * q < 0 and abs(q) > abs(Q) and not ro
    is_over = Q is not None and q is not None and Q * q < 0 and abs(q) > abs(Q) and bool(ro)
    if ob.startswith('dispatch') or is_flip:
        d = scenario_flip()
    if not d and (is_over or 'qty' in ob):
        d = scenario_oversize()
    if not d:
        d = scenario_plain(rng) or scenario_flip() or scenario_oversize()
    return {'confirmed': bool(d), 'detail': d or 'real backtests: hooks form open..close cycles and trade PnL equals the wallet change'}


def replay_finding(entry):
    k = entry.get('witness', {}).get('kind')
    d = scenario_flip() if k == 'flip' else scenario_oversize() if k == 'oversize' else None
    return {'confirmed': bool(d), 'detail': d}


# ------------------------------------------------------------------------------------------------ bounded float check
GRID = ['0.05', '0.1', '0.2', '0.3', '0.7', '1.1', '2.2']


def bounded(pl):
    """BOUNDED stand-in for assumption A-1 where a decimal sum decides the KIND of a fill: entries a and b, one exit for the
    decimal total a + b must CLOSE the position (qty exactly 0, on_close fires, the trade is completed) - jesse adds position
    sizes with sum_floats / subtract_floats for exactly this reason.  Futures and both sides; 98 histories."""
    from fractions import Fraction as F
    from native.world import session
    from native.C05 import _mk
    from jesse.store import store
    n = 0
    for a in GRID:
        for b in GRID:
            for side in ('buy', 'sell'):
                n += 1
                w = session('futures', leverage=2, fee=0.001)
                p = w['positions']['BTC-USDT']
                p.current_price = 100.0
                hooks = w['strategies']['BTC-USDT'].calls if hasattr(w['strategies']['BTC-USDT'], 'calls') else None
                other = 'sell' if side == 'buy' else 'buy'
                total = float(F(a) + F(b))
                for q in (float(a), float(b)):
                    o = _mk(side, 'LIMIT', q, 100.0)
                    o.execute()
                x = _mk(other, 'LIMIT', total, 101.0)
                x.execute()
                if p.qty != 0 or not p.is_close:
                    return {'confirmed': True, 'cases': n,
                            'detail': f'futures: {side} {a} and {b} at 100, then {other} {total} at 101: the position is left at {p.qty!r} '
                                      f'(is_close={p.is_close}) - the exit for the decimal total did not close it'}
                if len(store.completed_trades.trades) != 1:
                    return {'confirmed': True, 'cases': n,
                            'detail': f'futures: {side} {a} and {b}, exit {total}: {len(store.completed_trades.trades)} completed trades (expected 1)'}
    return {'confirmed': False, 'cases': n, 'detail': f'{n} decimal histories: the exit for the decimal total closes the position exactly'}
