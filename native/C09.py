"""Native replay for C09: real Position / _check_for_liquidations in a real session."""
import math
import random
import numpy as np
import contracts.C09 as K
from native.tol import wrap
from native.world import session


def _formulas(side, mode, L, qty, entry):
    w = session('futures', leverage=L, mode=mode)
    p = w['positions']['BTC-USDT']
    p.qty, p.entry_price, p.current_price = qty, entry, entry
    liq, bankr = p.liquidation_price, p.bankruptcy_price
    if mode != 'isolated':
        return None if (isinstance(liq, float) and math.isnan(liq)) else f'{mode} position has liquidation price {liq}'
    from jesse.helpers import estimate_PNL
    env = dict(liq=wrap(liq), bankr=wrap(bankr), entry=wrap(entry), qty=wrap(qty), L=L, abs=abs,
               pnl=wrap(estimate_PNL(abs(qty), entry, bankr, p.type)))
    # strict orderings: use exact floats (a tolerance would blur < into <=)
    strict = dict(env, liq=liq, bankr=bankr, entry=entry)
    if not eval(K.ORDERING[side], {}, strict):
        return f'L={L} {side} entry={entry}: liq={liq} bankr={bankr} violates {K.ORDERING[side]!r}'
    if not eval(K.LOSS, {}, env):
        return f'L={L} {side} qty={qty} entry={entry}: closing at bankruptcy {bankr} realises {env["pnl"]}, not -|qty|*entry/L'
    return None


def _check(side, mode, L, qty, entry, low, high):
    from jesse.modes.backtest_mode import _check_for_liquidations
    from jesse.store import store
    w = session('futures', leverage=L, mode=mode)
    p = w['positions']['BTC-USDT']
    if qty != 0:
        p.qty, p.entry_price, p.current_price = qty, entry, entry
        store.completed_trades.open_trade(p)
    liq, bankr = p.liquidation_price, p.bankruptcy_price
    should = qty != 0 and mode == 'isolated' and low <= liq <= high
    before = store.app.total_liquidations
    n_orders = len(store.orders.get_orders('Sandbox', 'BTC-USDT'))
    wallet0 = w['exchange'].wallet_balance
    candle = np.array([store.app.time, (low + high) / 2, (low + high) / 2, high, low, 1.0])
    _check_for_liquidations(candle, 'Sandbox', 'BTC-USDT')
    orders = store.orders.get_orders('Sandbox', 'BTC-USDT')
    did = store.app.total_liquidations - before
    if not should:
        if did or len(orders) != n_orders or p.qty != qty:
            return f'spurious force-close: mode={mode} qty={qty} liq={liq} candle=[{low},{high}] -> liquidations +{did}, position {p.qty}'
        return None
    if did != 1 or len(orders) != n_orders + 1:
        return f'liq={liq} inside [{low},{high}] but liquidations +{did}, new orders {len(orders) - n_orders}'
    o = orders[-1]
    od = {'type': o.type, 'reduce_only': o.reduce_only, 'side': o.side, 'qty': wrap(o.qty), 'price': wrap(o.price),
          'symbol': o.symbol, 'exchange': o.exchange}
    bad = [n for n, t in K.ORDER_FIELDS.items()
           if not eval(t, {}, dict(o=od, qty=wrap(qty), bankr=wrap(bankr), symbol='BTC-USDT', exchange='Sandbox'))]
    if bad:
        return f'liquidation order {od} violates {bad}'
    if not o.is_executed or p.qty != 0:
        return f'liquidation order not executed / position still {p.qty}'
    return None


TS0 = 1609459200000


def _backtest(rows, strategy_cls, tf, fast, L=10, fee=0.0):
    from jesse import research
    cfg = {'starting_balance': 10000, 'fee': fee, 'type': 'futures', 'futures_leverage': L, 'futures_leverage_mode': 'isolated',
           'exchange': 'Sandbox', 'warm_up_candles': 0}
    return research.backtest(cfg, [{'exchange': 'Sandbox', 'strategy': strategy_cls, 'symbol': 'BTC-USDT', 'timeframe': tf}], [],
                             {'Sandbox-BTC-USDT': {'exchange': 'Sandbox', 'symbol': 'BTC-USDT', 'candles': np.array(rows, dtype=float)}},
                             fast_mode=fast)


def _flat(n, price=100.0):
    return [[TS0 + i * 60000, price, price, price, price, 10.0] for i in range(n)]


def simulator_scenarios():
    """real backtests (10x isolated): a wick to the liquidation price must force-close in that minute / chunk - also when
    it is not the last minute of a fast-mode chunk and when a resting order was filled in the same minute; an averaged
    entry moves the liquidation price"""
    from jesse.strategies import Strategy
    from jesse.store import store
    seen = {}

    def base(entries, tp=None):
        class S(Strategy):
            def should_long(self): return self.index == 0
            def should_short(self): return False
            def should_cancel_entry(self): return False
            def go_long(self): self.buy = entries(self.price) if callable(entries) else entries
            def go_short(self): pass

            def on_open_position(self, order):
                if tp:
                    self.take_profit = tp

            def before_terminate(self):
                seen['liqs'] = store.app.total_liquidations
                seen['qty'] = self.position.qty
        return S
    # (a) fast mode, 5m route: wick to 90.2 (liq of a 10x long from 100 is 90.4) in minute 2 of the second chunk, recovered
    rows = _flat(20)
    rows[7] = [rows[7][0], 100.0, 100.0, 100.0, 90.2, 10.0]
    _backtest(rows, base((1, 100.0)), '5m', True)
    if seen.get('liqs') != 1:
        return (f'fast mode, 5m route, 10x isolated long from 100 (liquidation price 90.4): minute 7 wicks to 90.2 inside the chunk and recovers: '
                f'{seen.get("liqs")} liquidations, position {seen.get("qty")} (expected a force-close)')
    # (b) step mode: half take-profit at 100.8 fills and the same minute wicks to 90.2
    rows = _flat(8)
    rows[3] = [rows[3][0], 100.0, 100.0, 101.0, 90.2, 10.0]
    _backtest(rows, base((2, 100.0), tp=(1, 100.8)), '1m', False)
    if seen.get('liqs') != 1:
        return (f'step mode, 10x isolated long 2 from 100 with a take-profit of 1 at 100.8: minute 3 ranges 90.2..101 (fill at 100.8, then the '
                f'liquidation price 90.4): {seen.get("liqs")} liquidations, position {seen.get("qty")} (expected a force-close of the rest)')
    # (c) averaged entry 100 / 95 -> entry 97.5, liquidation price 88.14; a wick to 89 (below the first fill's 90.4) must not liquidate
    rows = _flat(10)
    rows[2] = [rows[2][0], 100.0, 96.0, 100.0, 94.5, 10.0]
    for i in range(3, 10):
        rows[i] = [rows[i][0], 96.0, 96.0, 96.0, 96.0, 10.0]
    rows[6] = [rows[6][0], 96.0, 96.0, 96.0, 89.0, 10.0]
    for fast in (False, True):
        _backtest(rows, base(lambda price: [(1, price), (1, 95.0)]), '1m', fast)
        if seen.get('liqs') != 0:
            return (f'{"fast" if fast else "step"} mode, 10x isolated long averaged at 100 and 95 (entry 97.5, liquidation price 88.14): a wick '
                    f'to 89 force-closed the position ({seen.get("liqs")} liquidations) although it never reached the liquidation price')
    return None


def replay(pl):
    if pl['obligation'].startswith('call-site') or pl['obligation'].startswith('after-fill'):
        try:
            d = simulator_scenarios()
        except Exception as ex:
            import traceback
            return {'confirmed': False, 'error': f'{type(ex).__name__}: {ex}', 'stderr': traceback.format_exc()[-800:]}
        return {'confirmed': bool(d), 'detail': d or 'real backtests liquidate exactly when the minute / chunk reaches the liquidation price'}
    m = pl['m']
    ob = pl['obligation']
    task = pl.get('task') or ''
    rng = random.Random(pl.get('seed', 0))
    parts = task.split('.')
    side = parts[1] if len(parts) > 1 and parts[1] in ('long', 'short') else 'long'
    mode = parts[2] if len(parts) > 2 else 'isolated'
    sgn = 1 if side == 'long' else -1
    cands = []
    for mm in [m] + pl.get('others', []):
        L = int(mm.get('L', 2))
        q = float(mm.get('Q', sgn)) or sgn
        e = float(mm.get('E', 100)) or 100.0
        cands.append((L, q, e, float(mm.get('c4', 0)), float(mm.get('c3', 0))))
    for _ in range(400):
        L = rng.choice([1, 2, 3, 5, 10, 20, 50, 100, 125])
        e = rng.choice([0.5, 10.0, 100.0, 33333.3])
        q = sgn * rng.choice([0.001, 1.0, 2.5])
        liq_guess = e * (1 - sgn * (1 / L - 0.004))
        lo = liq_guess * rng.choice([0.9, 0.999, 1.0, 1.0, 1.001])
        cands.append((L, q, e, lo, max(lo, liq_guess * rng.choice([1.0, 1.0, 1.001, 1.1, 0.9995]))))
    if ob.startswith('formulas'):
        if 'closed' in ob or 'spot' in ob:
            w = session('futures' if 'closed' in ob else 'spot', leverage=2, mode='isolated')
            p = w['positions']['BTC-USDT']
            if 'spot' in ob:
                p.qty, p.entry_price, p.current_price = 1.0, 10.0, 10.0
            liq = p.liquidation_price
            ok = isinstance(liq, float) and math.isnan(liq)
            return {'confirmed': not ok, 'detail': f'liquidation_price = {liq}'}
        for (L, q, e, lo, hi) in cands:
            d = _formulas(side, mode, L, q, e)
            if d:
                return {'confirmed': True, 'detail': d}
        return {'confirmed': False, 'detail': 'real formulas satisfy the clauses on the model and on 400 seeded inputs'}
    if ob.startswith('check'):
        closed = 'closed' in task
        for (L, q, e, lo, hi) in cands:
            if hi < lo:
                continue
            d = _check(side, mode, L, 0 if closed else q, e, lo, hi)
            if d:
                return {'confirmed': True, 'detail': d}
        return {'confirmed': False, 'detail': 'real _check_for_liquidations satisfies the contract on the model and on 400 seeded inputs'}
    return {'confirmed': False, 'detail': f'no native replay for {ob}'}


def replay_finding(entry):
    return {'confirmed': False, 'detail': 'no findings recorded for C09'}
