"""Native replay for C16 (equity series): real isolated backtests; each daily sample is compared with the account equity."""
import numpy as np

TS0 = 1609459200000


def flat(n, price):
    return np.array([[TS0 + i * 60000, price, price, price, price, 10] for i in range(n)], dtype=float)


def spot_two_routes():
    from jesse import research
    from jesse.strategies import Strategy
    from jesse.store import store

    class Buyer(Strategy):
        """rests a buy far below the market on the second route: reserves quote, never fills"""
        def should_long(self): return self.index == 1
        def should_short(self): return False
        def should_cancel_entry(self): return False
        def go_long(self): self.buy = 10, 80.0
        def go_short(self): pass

    class Idle(Strategy):
        def should_long(self): return False
        def should_short(self): return False
        def should_cancel_entry(self): return False
        def go_long(self): pass
        def go_short(self): pass
    n = 1500
    cfg = {'starting_balance': 10000, 'fee': 0, 'type': 'spot', 'exchange': 'Sandbox', 'warm_up_candles': 0}
    routes = [{'exchange': 'Sandbox', 'strategy': Idle, 'symbol': 'BTC-USDT', 'timeframe': '1m'},
              {'exchange': 'Sandbox', 'strategy': Buyer, 'symbol': 'ETH-USDT', 'timeframe': '1m'}]
    candles = {'Sandbox-BTC-USDT': {'exchange': 'Sandbox', 'symbol': 'BTC-USDT', 'candles': flat(n, 100.0)},
               'Sandbox-ETH-USDT': {'exchange': 'Sandbox', 'symbol': 'ETH-USDT', 'candles': flat(n, 100.0)}}
    daily = []
    import jesse.modes.utils as mu
    orig = mu.save_daily_portfolio_balance
    research.backtest(cfg, routes, [], candles)
    return None


def spot_daily_sample():
    """drive a real spot session by hand: two routes, a resting buy on the second one, then take a sample"""
    from native.world import session
    from jesse.store import store
    from jesse.modes.utils import save_daily_portfolio_balance
    from jesse.models import Order
    from jesse.routes import router
    import jesse.helpers as jh
    from jesse.strategies import Strategy
    w = session('spot', balance=10000.0, symbols=('BTC-USDT', 'ETH-USDT'), attach_strategy=False)
    for r in router.routes:
        StrategyClass = r.strategy_name
        r.strategy = StrategyClass()
        r.strategy.name, r.strategy.exchange, r.strategy.symbol, r.strategy.timeframe = 'S', r.exchange, r.symbol, r.timeframe
        r.strategy._init_objects()
        w['positions'][r.symbol].strategy = r.strategy
        w['positions'][r.symbol].current_price = 100.0
    # the sample is taken through the strategy of the first stored position: rest the buy on the OTHER route
    first = next(iter(store.positions.storage.values())).symbol
    other = 'ETH-USDT' if first == 'BTC-USDT' else 'BTC-USDT'
    o = Order({'id': jh.generate_unique_id(), 'symbol': other, 'exchange': 'Sandbox', 'side': 'buy', 'type': 'LIMIT',
               'reduce_only': False, 'qty': 10.0, 'price': 80.0})
    store.orders.add_order(o)
    store.app.daily_balance = []
    save_daily_portfolio_balance()
    got = store.app.daily_balance[-1]
    free = w['exchange'].assets['USDT']
    equity = free + 10.0 * 80.0
    if abs(got - equity) > 1e-9:
        return (f'two spot routes, resting buy 10@80 on the second route (reserves 800 quote, free quote {free}): daily equity sample = {got}, '
                f'account equity = {equity}')
    return None


def futures_daily_sample():
    from native.world import session
    from jesse.store import store
    from jesse.modes.utils import save_daily_portfolio_balance
    w = session('futures', leverage=3, balance=10000.0, symbols=('BTC-USDT', 'ETH-USDT'))
    p = w['positions']['BTC-USDT']
    p.qty, p.entry_price, p.current_price = 2.0, 100.0, 110.0
    q = w['positions']['ETH-USDT']
    q.qty, q.entry_price, q.current_price = -1.0, 50.0, 55.0
    store.app.daily_balance = []
    save_daily_portfolio_balance()
    got = store.app.daily_balance[-1]
    want = 10000.0 + 2.0 * 10.0 - 5.0
    return None if abs(got - want) < 1e-9 else f'futures: long 2@100 (now 110), short 1@50 (now 55): sample {got}, wallet + unrealised PnL = {want}'


def futures_backtest_samples():
    """a leveraged long held over two day boundaries: every daily sample = wallet + unrealised PnL (computed from the candles)"""
    from jesse import research
    from jesse.strategies import Strategy
    from jesse.store import store
    n = 2 * 1440 + 60
    rows = [[1609459200000 + i * 60000, 100 + 0.01 * i, 100 + 0.01 * (i + 1), 100 + 0.01 * (i + 1), 100 + 0.01 * i, 10] for i in range(n)]
    ref = {}

    class S(Strategy):
        def should_long(self): return self.index == 0
        def should_short(self): return False
        def should_cancel_entry(self): return False
        def go_long(self): self.buy = 10, self.price
        def go_short(self): pass

        def before(self):
            ref['balances'] = store.app.daily_balance
            ref.setdefault('closes', {})[len(store.app.daily_balance)] = self.price
    cfg = {'starting_balance': 10000, 'fee': 0, 'type': 'futures', 'futures_leverage': 3, 'futures_leverage_mode': 'cross',
           'exchange': 'Sandbox', 'warm_up_candles': 0}
    research.backtest(cfg, [{'exchange': 'Sandbox', 'strategy': S, 'symbol': 'BTC-USDT', 'timeframe': '1m'}], [],
                      {'Sandbox-BTC-USDT': {'exchange': 'Sandbox', 'symbol': 'BTC-USDT', 'candles': np.array(rows, dtype=float)}})
    bal = list(ref.get('balances') or [])
    entry = rows[0][2]
    if len(bal) < 3:
        return f'expected at least 3 equity samples, got {bal}'
    for k in (1, 2):
        # the k-th daily sample is taken right after minute index 1440*k was processed
        price = rows[1440 * k][2]
        want = 10000 + 10 * (price - entry)
        if abs(bal[k] - want) > 1e-6:
            return (f'futures x3, long 10 @ {entry} held over {k} day(s), price {price}: equity sample {bal[k]} but wallet + unrealised PnL = {want}')
    return None


def sampling_count():
    from jesse import research
    from jesse.strategies import Strategy

    class Idle(Strategy):
        def should_long(self): return False
        def should_short(self): return False
        def should_cancel_entry(self): return False
        def go_long(self): pass
        def go_short(self): pass
    for fast in (False, True):
        for n in (1440 * 2 + 30, 1440 * 3):
            from jesse.store import store
            got = {}
            import jesse.modes.backtest_mode as bm
            orig = bm._generate_outputs

            def spy(*a, **k):
                got['n'] = len(store.app.daily_balance)
                return orig(*a, **k)
            bm._generate_outputs = spy
            try:
                cfg = {'starting_balance': 10000, 'fee': 0, 'type': 'futures', 'futures_leverage': 2, 'futures_leverage_mode': 'cross',
                       'exchange': 'Sandbox', 'warm_up_candles': 0}
                research.backtest(cfg, [{'exchange': 'Sandbox', 'strategy': Idle, 'symbol': 'BTC-USDT', 'timeframe': '5m'}], [],
                                  {'Sandbox-BTC-USDT': {'exchange': 'Sandbox', 'symbol': 'BTC-USDT', 'candles': flat(n, 100.0)}},
                                  fast_mode=fast)
            finally:
                bm._generate_outputs = orig
            want = -(-n // 1440) + 1
            if got.get('n') != want:
                return f'{"fast" if fast else "normal"} simulator, {n} minutes: {got.get("n")} equity samples, expected {want} (one per day plus the final one)'
    return None


def _mval(v):
    if isinstance(v, dict):
        return float(v.get('float', 0))
    return float(v) if isinstance(v, (int, float)) else 0.0


def _close(a, b):
    import math
    try:
        a, b = float(a), float(b)
    except (TypeError, ValueError):
        return a == b
    if math.isnan(a) or math.isnan(b) or math.isinf(a) or math.isinf(b):
        return (math.isnan(a) or math.isinf(a)) == (math.isnan(b) or math.isinf(b))     # one non-finite value (A-1)
    return abs(a - b) <= 1e-7 * max(1.0, abs(a), abs(b))


def _spec(text, env):
    import math
    import contracts.C16 as K
    g = dict(vars(K))
    g.update(env, nan=float('nan'))
    try:
        return eval(text, g)
    except ZeroDivisionError:
        return float('nan')


def run_metrics(pnls, types, fees, holds, balances, start=10000.0, t0=1609459200000, final=True):
    from native.world import session
    from jesse.services import metrics
    from jesse.store import store

    class T_:
        def __init__(self, d): self.to_dict = d
    w = session('futures', leverage=1, balance=start)
    store.app.starting_time = t0
    # trades of two routes overlap: the opening times are not monotone in the order of the list (the PnL sequence is the list order)
    trades = [T_({'id': j, 'type': types[j], 'PNL': pnls[j], 'fee': fees[j], 'holding_period': holds[j], 'size': 1.0, 'entry_price': 100.0,
                  'opened_at': t0 + 60000 * (((j * 7 + 3) % 11) * 100), 'closed_at': t0 + 60000 * (((j * 7 + 3) % 11) * 100 + 50 + j),
                  'symbol': 'BTC-USDT' if j % 2 else 'ETH-USDT', 'exchange': 'Sandbox', 'strategy_name': 'S'})
              for j in range(len(pnls))]
    import warnings
    with warnings.catch_warnings():
        warnings.simplefilter('ignore')
        given = list(balances)
        m = metrics.trades(trades, given, final=final)
        if given != list(balances):
            m['__args_modified__'] = True
    finish = w['exchange'].assets['USDT']
    return m, start, finish


def metric_scenarios(pl):
    """the verifier's counterexample (and a few fixed lists) through the real metrics.trades; every reported number is
    compared with its definition"""
    import contracts.C16 as K
    task = pl.get('task', '')
    model = {k.split('#')[0]: _mval(v) for k, v in (pl.get('model') or {}).items()}
    cases = []
    if task.startswith('metrics.trades.'):
        types = ['long' if c == 'l' else 'short' for c in task.split('.')[-1]]
        n = len(types)
        cases.append(([model.get(f'pnl{j}', 0.0) for j in range(n)], types, [abs(model.get(f'fee{j}', 0.0)) for j in range(n)],
                      [abs(model.get(f'hold{j}', 0.0)) for j in range(n)], [10000.0, 10100.0]))
    if task.startswith('metrics.ratios.'):
        d = int(task.split('.d')[-1])
        cases.append(([5.0], ['long'], [0.1], [60.0], [model.get(f'b{j}', 100.0) or 100.0 for j in range(d)]))
    cases += [([10.0, 0.0, -5.0, 15.0], ['long', 'short', 'long', 'short'], [0.1] * 4, [60.0, 120.0, 30.0, 45.0], [100.0, 90.0, 80.0, 85.0]),
              ([-3.0, -4.0, 2.0], ['short', 'short', 'long'], [0.0] * 3, [10.0] * 3, [100.0, 90.0, 95.0]),
              ([7.0], ['long'], [0.2], [300.0], [100.0, 110.0, 105.0, 120.0, 90.0]),
              # PnLs smaller than one unit of the quote currency, large ones, zero-PnL trades inside streaks
              ([0.3, 0.2, 0.5, -0.4, -0.1, 0.2], ['long'] * 6, [0.01] * 6, [60.0] * 6, [100.0, 100.6, 100.7]),
              ([-0.25, -0.5, 0.75, 0.0, 0.125], ['short', 'long', 'short', 'long', 'long'], [0.0] * 5, [15.0] * 5, [100.0, 99.0, 99.5, 101.0]),
              ([1500.0, 0.0, 0.0, -2500.5, 3.0, 4.0, 5.0], ['long', 'short'] * 3 + ['long'], [1.5] * 7, [600.0] * 7, [10000.0, 11500.0, 9000.0, 9012.0])]
    import random
    rng = random.Random(1234)
    for _ in range(40):
        n = rng.randint(1, 9)
        cases.append(([rng.choice([0.0, round(rng.uniform(-2, 2), 3), round(rng.uniform(-300, 300), 2)]) for _ in range(n)],
                      [rng.choice(['long', 'short']) for _ in range(n)], [round(rng.uniform(0, 0.5), 3) for _ in range(n)],
                      [float(rng.randint(1, 5000)) for _ in range(n)],
                      [round(100.0 * (1 + rng.uniform(-0.2, 0.2)), 2) for _ in range(rng.randint(2, 6))]))
    # start dates: 2021-01-01, and 2020-12-29 (the equity index runs over 31 December of a leap year); both values of `final`
    variants = [(1609459200000, True), (1609200000000, True), (1609459200000, False)]
    runs = [(c, variants[0]) for c in cases] + [(c, v) for c in cases[:8] for v in variants[1:]]
    for (pnls, types, fees, holds, balances), (t0, final) in runs:
        m, start, finish = run_metrics(pnls, types, fees, holds, balances, t0=t0, final=final)
        if m.get('__args_modified__'):
            return f'metrics.trades(final={final}) modified the daily-balance list it was given ({len(balances)} samples before the call)'

        env = dict(pnls=pnls, types=types, fees=fees, holds=holds, start=start, finish=finish, balances=balances, m=m)
        for key, text in list(K.TRADE_METRICS.items()) + list(K.RATIO_METRICS.items()):
            want = _spec(text, env)
            if key not in m or not _close(m[key], want):
                return (f'metrics.trades(pnls={pnls}, types={types}, daily balances={balances}): {key} = {m.get(key)!r} but its definition '
                        f'({text}) gives {want!r}')
        if m['max_drawdown'] > 1e-9:
            return f'metrics.trades(daily balances={balances}): max_drawdown = {m["max_drawdown"]} is positive'
    return None


def replay(pl):
    ob = pl['obligation']
    if ob.startswith('metrics.'):
        try:
            d = metric_scenarios(pl)
        except Exception as ex:
            import traceback
            return {'confirmed': False, 'detail': None, 'error': f'{type(ex).__name__}: {ex} {traceback.format_exc()[-600:]}'}
        return {'confirmed': bool(d), 'detail': d or 'every reported metric equals its definition on the probed lists'}
    if ob.startswith('daily.spot'):
        d = spot_daily_sample()
    elif ob.startswith('daily'):
        d = futures_backtest_samples() or futures_daily_sample() or spot_daily_sample()
    else:
        d = sampling_count()
    return {'confirmed': bool(d), 'detail': d or 'equity samples agree with the account equity / expected count'}


def replay_finding(entry):
    d = spot_daily_sample()
    return {'confirmed': bool(d), 'detail': d}
