"""Native replay for C16 (equity series): real isolated backtests; each daily sample is compared with the account equity."""
import numpy as np

TS0 = 1609459200000


def flat(n, price):
    return np.array([[TS0 + i * 60000, price, price, price, price, 10] for i in range(n)], dtype=float)


def spot_two_routes():
    from jesse import research
    from jesse.strategies import Strategy
    from jesse.store import store

    class Buyer(Strategy):
        """rests a buy far below the market on the second route: reserves quote, never fills"""
        def should_long(self): return self.index == 1
        def should_short(self): return False
        def should_cancel_entry(self): return False
        def go_long(self): self.buy = 10, 80.0
        def go_short(self): pass

    class Idle(Strategy):
        def should_long(self): return False
        def should_short(self): return False
        def should_cancel_entry(self): return False
        def go_long(self): pass
        def go_short(self): pass
    n = 1500
    cfg = {'starting_balance': 10000, 'fee': 0, 'type': 'spot', 'exchange': 'Sandbox', 'warm_up_candles': 0}
    routes = [{'exchange': 'Sandbox', 'strategy': Idle, 'symbol': 'BTC-USDT', 'timeframe': '1m'},
              {'exchange': 'Sandbox', 'strategy': Buyer, 'symbol': 'ETH-USDT', 'timeframe': '1m'}]
    candles = {'Sandbox-BTC-USDT': {'exchange': 'Sandbox', 'symbol': 'BTC-USDT', 'candles': flat(n, 100.0)},
               'Sandbox-ETH-USDT': {'exchange': 'Sandbox', 'symbol': 'ETH-USDT', 'candles': flat(n, 100.0)}}
    daily = []
    import jesse.modes.utils as mu
    orig = mu.save_daily_portfolio_balance
    research.backtest(cfg, routes, [], candles)
    return None


def spot_daily_sample():
    """drive a real spot session by hand: two routes, a resting buy on the second one, then take a sample"""
    from native.world import session
    from jesse.store import store
    from jesse.modes.utils import save_daily_portfolio_balance
    from jesse.models import Order
    from jesse.routes import router
    import jesse.helpers as jh
    from jesse.strategies import Strategy
    w = session('spot', balance=10000.0, symbols=('BTC-USDT', 'ETH-USDT'), attach_strategy=False)
    for r in router.routes:
        StrategyClass = r.strategy_name
        r.strategy = StrategyClass()
        r.strategy.name, r.strategy.exchange, r.strategy.symbol, r.strategy.timeframe = 'S', r.exchange, r.symbol, r.timeframe
        r.strategy._init_objects()
        w['positions'][r.symbol].strategy = r.strategy
        w['positions'][r.symbol].current_price = 100.0
    # the sample is taken through the strategy of the first stored position: rest the buy on the OTHER route
    first = next(iter(store.positions.storage.values())).symbol
    other = 'ETH-USDT' if first == 'BTC-USDT' else 'BTC-USDT'
    o = Order({'id': jh.generate_unique_id(), 'symbol': other, 'exchange': 'Sandbox', 'side': 'buy', 'type': 'LIMIT',
               'reduce_only': False, 'qty': 10.0, 'price': 80.0})
    store.orders.add_order(o)
    store.app.daily_balance = []
    save_daily_portfolio_balance()
    got = store.app.daily_balance[-1]
    free = w['exchange'].assets['USDT']
    equity = free + 10.0 * 80.0
    if abs(got - equity) > 1e-9:
        return (f'two spot routes, resting buy 10@80 on the second route (reserves 800 quote, free quote {free}): daily equity sample = {got}, '
                f'account equity = {equity}')
    return None


def futures_daily_sample():
    from native.world import session
    from jesse.store import store
    from jesse.modes.utils import save_daily_portfolio_balance
    w = session('futures', leverage=3, balance=10000.0, symbols=('BTC-USDT', 'ETH-USDT'))
    p = w['positions']['BTC-USDT']
    p.qty, p.entry_price, p.current_price = 2.0, 100.0, 110.0
    q = w['positions']['ETH-USDT']
    q.qty, q.entry_price, q.current_price = -1.0, 50.0, 55.0
    store.app.daily_balance = []
    save_daily_portfolio_balance()
    got = store.app.daily_balance[-1]
    want = 10000.0 + 2.0 * 10.0 - 5.0
    return None if abs(got - want) < 1e-9 else f'futures: long 2@100 (now 110), short 1@50 (now 55): sample {got}, wallet + unrealised PnL = {want}'


def sampling_count():
    from jesse import research
    from jesse.strategies import Strategy

    class Idle(Strategy):
        def should_long(self): return False
        def should_short(self): return False
        def should_cancel_entry(self): return False
        def go_long(self): pass
        def go_short(self): pass
    for fast in (False, True):
        for n in (1440 * 2 + 30, 1440 * 3):
            from jesse.store import store
            got = {}
            import jesse.modes.backtest_mode as bm
            orig = bm._generate_outputs

            def spy(*a, **k):
                got['n'] = len(store.app.daily_balance)
                return orig(*a, **k)
            bm._generate_outputs = spy
            try:
                cfg = {'starting_balance': 10000, 'fee': 0, 'type': 'futures', 'futures_leverage': 2, 'futures_leverage_mode': 'cross',
                       'exchange': 'Sandbox', 'warm_up_candles': 0}
                research.backtest(cfg, [{'exchange': 'Sandbox', 'strategy': Idle, 'symbol': 'BTC-USDT', 'timeframe': '5m'}], [],
                                  {'Sandbox-BTC-USDT': {'exchange': 'Sandbox', 'symbol': 'BTC-USDT', 'candles': flat(n, 100.0)}},
                                  fast_mode=fast)
            finally:
                bm._generate_outputs = orig
            want = -(-n // 1440) + 1
            if got.get('n') != want:
                return f'{"fast" if fast else "normal"} simulator, {n} minutes: {got.get("n")} equity samples, expected {want} (one per day plus the final one)'
    return None


def replay(pl):
    ob = pl['obligation']
    if ob.startswith('daily.spot'):
        d = spot_daily_sample()
    elif ob.startswith('daily'):
        d = futures_daily_sample() or spot_daily_sample()
    else:
        d = sampling_count()
    return {'confirmed': bool(d), 'detail': d or 'equity samples agree with the account equity / expected count'}


def replay_finding(entry):
    d = spot_daily_sample()
    return {'confirmed': bool(d), 'detail': d}
