"""Native replay for C01: the two-run statement itself - replace all candles from a cut point t on and compare the
observable prefix (candles visible to the strategy, orders, fills, position, balance) of both runs."""
import random
import numpy as np

TS0 = 1609459200000


def series(n, rng, start=100.0):
    rows = []
    prev = start
    for i in range(n):
        o = prev * (1 + rng.choice([0, 0, rng.uniform(-0.003, 0.003)]))
        c = o * (1 + rng.uniform(-0.004, 0.004))
        rows.append([TS0 + i * 60000, o, c, max(o, c) * (1 + rng.random() * 0.001), min(o, c) * (1 - rng.random() * 0.001), 5 + rng.random()])
        prev = c
    return np.array(rows)


def observe(rows, fast, tf, until_ts, rows2=None):
    from jesse import research
    from jesse.strategies import Strategy
    from jesse.store import store
    log = []

    class S(Strategy):
        def should_long(self):
            return self.index % 7 == 1 and self.close > self.open

        def should_short(self):
            return False

        def should_cancel_entry(self):
            return True

        def go_long(self):
            self.buy = [(1, self.price * 0.999), (1, self.price * 0.997)]
            self.stop_loss = 2, self.price * 0.99
            self.take_profit = 2, self.price * 1.01

        def go_short(self):
            pass

        def before(self):
            if store.app.time > until_ts:
                return
            c = self.candles
            big = self.get_candles('Sandbox', 'BTC-USDT', '15m')
            other = self.get_candles('Sandbox', 'ETH-USDT', '1m') if rows2 is not None else []
            log.append(('step', store.app.time, len(c), c[-1].tolist(), len(big), big[-1].tolist() if len(big) else None,
                        len(other), other[-1].tolist() if len(other) else None,
                        round(self.position.qty, 9), round(self.balance, 6),
                        None if self.position.current_price is None else round(self.position.current_price, 6),
                        round(self.position.pnl, 6) if self.position.is_open else 0.0, round(self.available_margin, 6), round(self.price, 6),
                        [(o.type, o.side, round(o.price, 6), o.status) for o in store.orders.get_orders('Sandbox', 'BTC-USDT')]))

        def on_open_position(self, order):
            if store.app.time <= until_ts:
                log.append(('open', store.app.time, round(order.price, 6)))

        def on_close_position(self, order):
            if store.app.time <= until_ts:
                log.append(('close', store.app.time, round(order.price, 6)))
    cfg = {'starting_balance': 100000, 'fee': 0.0005, 'type': 'futures', 'futures_leverage': 3, 'futures_leverage_mode': 'cross',
           'exchange': 'Sandbox', 'warm_up_candles': 0}
    data_routes = [{'exchange': 'Sandbox', 'symbol': 'BTC-USDT', 'timeframe': '15m'}]
    cd = {'Sandbox-BTC-USDT': {'exchange': 'Sandbox', 'symbol': 'BTC-USDT', 'candles': rows.copy()}}
    if rows2 is not None:
        # a second symbol that is only a data route (no strategy, no position object)
        data_routes.append({'exchange': 'Sandbox', 'symbol': 'ETH-USDT', 'timeframe': '1m'})
        cd['Sandbox-ETH-USDT'] = {'exchange': 'Sandbox', 'symbol': 'ETH-USDT', 'candles': rows2.copy()}
    research.backtest(cfg, [{'exchange': 'Sandbox', 'strategy': S, 'symbol': 'BTC-USDT', 'timeframe': tf}], data_routes, cd, fast_mode=fast)
    return log


def two_runs(n, cut, fast, tf, seed, two_symbols=False):
    rng = random.Random(seed)
    a = series(n, rng)
    b = a.copy()
    tail = series(n - cut, random.Random(seed + 1), start=float(a[cut - 1][2]) * 1.02)
    b[cut:, 1:] = tail[:, 1:]
    until = TS0 + cut * 60000
    a2 = b2 = None
    if two_symbols:
        a2 = series(n, random.Random(seed + 7), start=30.0)
        b2 = a2.copy()
        b2[cut:, 1:] = series(n - cut, random.Random(seed + 8), start=float(a2[cut - 1][2]) * 0.97)[:, 1:]
    la, lb = observe(a, fast, tf, until, a2), observe(b, fast, tf, until, b2)
    if la != lb:
        for x, y in zip(la, lb):
            if x != y:
                return (f'{"fast" if fast else "normal"} simulator, {tf} route, candles replaced from minute {cut} on: observation at '
                        f'time offset {(x[1] - TS0) // 60000} min differs although it lies before the cut: {str(x)[:300]} vs {str(y)[:300]}')
        return f'prefix logs differ in length ({len(la)} vs {len(lb)}) before the cut at minute {cut}'
    return None


def replay(pl):
    ob = pl['obligation']
    if ob.startswith('min-step'):
        from native import C07
        return C07.replay(pl)
    if ob.startswith('chunk-clock'):
        from native import C06
        d = C06.scenario_fill_times()
        return {'confirmed': bool(d), 'detail': d or 'the clock at every fill is the end of the minute that reached the price'}
    m = pl['m']
    fast = ob.startswith('fast') or ob.startswith('chunk')
    i = m.get('i')
    cuts = []
    if isinstance(i, int) and 0 <= i < 2500:
        cuts.append(i + 1)
    cuts += [45, 120, 977]
    try:
        for cut in cuts:
            if fast:
                cut = max(15, (cut // 15) * 15)
            n = ((cut + 60 + 14) // 15) * 15
            # the normal simulator also gets a length that is not a multiple of the timeframes (a legal input of research.backtest)
            n_normal = n + 3
            d = two_runs(n if fast else n_normal, cut, fast, '5m' if fast else '1m', pl.get('seed', 0)) \
                or two_runs(n_normal if fast else n, cut, not fast, '1m' if fast else '5m', pl.get('seed', 0)) \
                or two_runs(n_normal, cut, False, '5m', pl.get('seed', 0)) \
                or two_runs(n_normal, cut, False, '5m', pl.get('seed', 0), two_symbols=True) \
                or two_runs(n, cut, True, '5m', pl.get('seed', 0), two_symbols=True)
            if d:
                return {'confirmed': True, 'detail': d}
    except Exception as ex:
        import traceback
        return {'confirmed': False, 'error': f'{type(ex).__name__}: {ex}', 'stderr': traceback.format_exc()[-1500:]}
    return {'confirmed': False, 'detail': f'two-run comparison: prefixes identical for cuts {cuts} (normal and fast simulator)'}


def replay_finding(entry):
    return {'confirmed': False, 'detail': 'no findings recorded for C01'}
