"""Native helpers for the indicator properties: seeded candle series and calls of the real indicator functions."""
import importlib
import random
import numpy as np

TS0 = 1609459200000


def candles(n, seed=0, kind='random'):
    rng = random.Random(seed)
    rows = []
    p = 100.0
    for i in range(n):
        if kind == 'trend':
            c = p * 1.002
        elif kind == 'flat':
            c = p
        elif kind == 'spikes':
            c = p * (1 + (0.05 if i % 17 == 3 else rng.uniform(-0.002, 0.002)))
        elif kind == 'burst':
            # a calm market that turns violent in the last third
            amp = 0.001 if i < 2 * n // 3 else 0.05
            c = p * (1 + rng.uniform(-amp, amp))
        elif kind == 'gaps':
            # opens that gap away from the previous close
            p = p * (1 + rng.uniform(-0.004, 0.004))
            c = p * (1 + rng.uniform(-0.01, 0.01))
        elif kind == 'flatrun':
            # long stretches of motionless candles without volume (a halted market): in the middle and at the end
            if (n // 3 <= i < n // 3 + 45) or i >= n - 45:
                rows.append([TS0 + i * 60000, p, p, p, p, 0.0])
                continue
            c = p * (1 + rng.uniform(-0.01, 0.01))
        elif kind == 'zerovol':
            c = p * (1 + rng.uniform(-0.01, 0.01))
            if i % 11 in (4, 7):
                # a minute without reported volume (flat for i % 11 == 4, with an asymmetric range for i % 11 == 7)
                w = 0.0 if i % 11 == 4 else 0.001
                rows.append([TS0 + i * 60000, p, p, p * (1 + 2 * w), p * (1 - w), 0.0])
                continue
        elif kind == 'ties':
            # coarse tick size and flat stretches: consecutive bars with exactly equal prices
            c = p if i % 5 in (1, 2) else round(p * (1 + rng.uniform(-0.01, 0.01)))
        else:
            c = p * (1 + rng.uniform(-0.01, 0.01))
        o = p
        if kind == 'ties':
            h, l = max(o, c) + (i % 3 == 0), min(o, c) - (i % 4 == 0)
            if i % 5 in (1, 2) and rows:
                # a bar whose (H+L+C)/3 equals the previous bar's exactly
                _, _, pc, ph, pl_, _ = rows[-1]
                c, h, l = pc, ph, pl_
            rows.append([TS0 + i * 60000, o, c, h, l, float(10 + i % 7)])
            p = c
            continue
        h = max(o, c) * (1 + rng.random() * 0.003)
        l = min(o, c) * (1 - rng.random() * 0.003)
        rows.append([TS0 + i * 60000, o, c, h, l, 10 + rng.random() * 100])
        p = c
    return np.array(rows)


SECOND_SERIES = {'beta': 'benchmark_candles', 'rsmk': 'candles_compare'}


def second_series(c, extra=0):
    """a second candle series on the same minutes as c (each row a function of the row of c, so prefixes correspond), with `extra`
    older minutes in front - the compared symbol may carry more history, both series end at the same minute"""
    c = np.asarray(c, dtype=float)
    n = len(c)
    out = c.copy()
    out[:, 1:5] = c[:, 1:5] * (0.5 * (1 + 0.05 * np.sin((c[:, 0] - TS0) / 60000 * 0.7)))[:, None]
    if extra and n:
        p = out[0, 1]
        pre = np.array([[c[0, 0] - (extra - j) * 60000, p * (1 + 0.01 * np.sin(j)), p * (1 + 0.01 * np.sin(j + 1)), p * 1.02, p * 0.98, 5.0]
                        for j in range(extra)])
        out = np.vstack([pre, out])
    return out


def get(name):
    import jesse.indicators as ta
    f0 = getattr(ta, name)
    if name in SECOND_SERIES:
        import functools

        @functools.wraps(f0)
        def f(c, *a, **k):
            # series mode and short inputs: the same minutes; single-value mode on more than the 240-candle window: the compared
            # series is longer and ends at the same minute
            return f0(c, second_series(c, 37 if (not k.get('sequential') and len(c) > 240) else 0), *a, **k)
        import inspect
        sig = inspect.signature(f0)
        f.__signature__ = sig.replace(parameters=[v for kk, v in sig.parameters.items() if kk != SECOND_SERIES[name]])
        return f
    return f0


def fields(v):
    if hasattr(v, '_fields'):
        return [(f, getattr(v, f)) for f in v._fields]
    if isinstance(v, tuple):
        return [(str(j), x) for j, x in enumerate(v)]
    return [('value', v)]


def close_enough(a, b, tol=1e-7):
    a, b = np.asarray(a, dtype=float), np.asarray(b, dtype=float)
    if a.shape != b.shape:
        return False
    na, nb = np.isnan(a), np.isnan(b)
    if not np.array_equal(na, nb):
        return False
    a, b = a[~na], b[~nb]
    ia, ib = np.isinf(a), np.isinf(b)
    if not np.array_equal(ia, ib) or not np.array_equal(np.sign(a[ia]), np.sign(b[ib])):
        return False
    a, b = a[~ia], b[~ib]
    na = nb = np.zeros(a.shape, dtype=bool)
    with np.errstate(all='ignore'):
        d = np.abs(a[~na] - b[~nb])
        return bool(np.all(d <= tol * np.maximum(1.0, np.maximum(np.abs(a[~na]), np.abs(b[~nb])))))


def variants(f):
    """non-default parameter values the statement quantifies over: the period with the other parity, another price source"""
    import inspect
    out = []
    try:
        params = inspect.signature(f).parameters
    except (TypeError, ValueError):
        return out
    if 'period' in params and isinstance(params['period'].default, int) and not isinstance(params['period'].default, bool):
        out.append({'period': params['period'].default + 1})
    if 'source_type' in params and params['source_type'].default == 'close':
        out.append({'source_type': 'hl2'})
    if 'direction' in params and params['direction'].default == 'long':
        out.append({'direction': 'short'})
    # switches: every boolean option flipped, every value of a small integer `mode` selector
    for k, v in params.items():
        if k != 'sequential' and isinstance(v.default, bool):
            out.append({k: not v.default})
    if 'mode' in params and isinstance(params['mode'].default, int) and not isinstance(params['mode'].default, bool):
        out += [{'mode': m} for m in range(0, 5) if m != params['mode'].default]
    return out


def prefix_check(name, ns=(64, 300), ks=(57, 61, 250, 123), seeds=(0, 1), kinds=('random', 'trend', 'spikes'), kwargs=None):
    f0 = get(name)
    f = f0 if not kwargs else (lambda *a, **k: f0(*a, **dict(kwargs, **k)))
    note = f' with {kwargs}' if kwargs else ''
    for kind in kinds:
        for seed in seeds:
            for n in ns:
                c = candles(n, seed, kind)
                try:
                    full = fields(f(c, sequential=True))
                except Exception as ex:
                    continue
                for k in ks:
                    if k >= n:
                        continue
                    try:
                        pre = fields(f(c[:k], sequential=True))
                    except Exception:
                        continue
                    for (fn, fv), (_, pv) in zip(full, pre):
                        if fv is None or pv is None or np.ndim(fv) == 0:
                            continue
                        try:
                            fv, pv = np.asarray(fv, dtype=float), np.asarray(pv, dtype=float)
                        except (TypeError, ValueError):
                            continue        # non-numeric field (labels)
                        if len(pv) != k or len(fv) != n:
                            continue
                        for j in range(k):
                            if not close_enough(fv[j:j + 1], pv[j:j + 1]):
                                return (f'{name}(field {fn}){note}: value at position {j} is {pv[j]} on the first {k} candles but {fv[j]} '
                                        f'on all {n} candles ({kind} series, seed {seed})')
    return None


def long_prefix_check(name):
    """bounded native stand-in of C13 beyond the symbolic bound: long inputs (float underflow / overflow in closed forms) and
    series with exact ties"""
    d = prefix_check(name, ns=(400, 1600), ks=(61, 333, 1200), seeds=(2,), kinds=('random', 'ties'))
    if d:
        return d
    # minutes without reported volume (a flat one and one with a range): fall-backs for a zero divisor must not look at the whole input
    d = prefix_check(name, ns=(96,), ks=(61, 77, 90), seeds=(5,), kinds=('zerovol',))
    if d:
        return d
    # a halted market (45 motionless candles in the middle and at the end), prefixes ending inside and after the flat stretch
    d = prefix_check(name, ns=(240,), ks=(95, 110, 130, 200), seeds=(6,), kinds=('flatrun',))
    if d:
        return d
    # a look-ahead of one bar only shows at the last position of a prefix: every prefix length from 30 to 199, default parameters ...
    d = prefix_check(name, ns=(200,), ks=tuple(range(30, 200)), seeds=(2,), kinds=('random', 'gaps'))
    if d:
        return d
    d = prefix_check(name, ns=(240,), ks=(100, 150, 165, 200), seeds=(4,), kinds=('burst',))
    if d:
        return d
    # ... and non-default parameters: the other parity of the period, another price source
    for kw in variants(get(name)):
        d = prefix_check(name, ns=(200,), ks=tuple(range(30, 200)), seeds=(2,), kinds=('random', 'gaps'), kwargs=kw) \
            or prefix_check(name, ns=(240,), ks=(100, 150, 165, 200), seeds=(4,), kinds=('burst',), kwargs=kw)
        if d:
            return d
    return None


def lost_proof_check(name):
    """bounded native stand-in used when the unbounded causality proof of an indicator is lost: long and tied series, series with
    zero-volume flat minutes, and every prefix length from 1 to 63 (a process crash of a numba kernel on a tiny input is not a verdict)"""
    d = long_prefix_check(name)
    if d:
        return d
    return in_child(lambda: prefix_check(name, ns=(64,), ks=tuple(range(1, 64)), seeds=(3,), kinds=('random',)))


def in_child(fn, *args):
    """runs fn in a forked child: several numba kernels write out of bounds on inputs shorter than their period (no bounds checks),
    which can kill the process - a crash is no verdict and must not take the other probes with it"""
    import os
    import pickle
    r, w = os.pipe()
    pid = os.fork()
    if pid == 0:
        try:
            os.close(r)
            out = fn(*args)
            os.write(w, pickle.dumps(out))
        finally:
            os._exit(0)
    os.close(w)
    data = b''
    while True:
        chunk = os.read(r, 65536)
        if not chunk:
            break
        data += chunk
    os.close(r)
    os.waitpid(pid, 0)
    try:
        return pickle.loads(data) if data else None
    except Exception:
        return None


