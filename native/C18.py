"""Native replay for C18: reach the solver's pre-state through public calls of the real class, apply the
operation, compare with the list model of the sidecar."""
import itertools
import random
import numpy as np
import contracts.C18 as K


def new(bucket, drop_at=None):
    from jesse.libs import DynamicNumpyArray
    return DynamicNumpyArray((bucket,), drop_at)


class Pair:
    """real object + list model, driven in lock step"""
    def __init__(self, bucket, drop_at=None):
        self.a = new(bucket, drop_at)
        self.L = []
        self.drop_at = drop_at
        self.log = [f'DynamicNumpyArray(({bucket},), drop_at={drop_at})']
        self.counter = 0.0

    def fresh(self):
        self.counter += 1.0
        return self.counter

    def step(self, op, *args):
        """returns a description of the first disagreement, or None"""
        self.log.append(f'{op}{args}')
        a, L = self.a, self.L
        try:
            if op == 'append':
                want = ('ok', None, K.m_append(L, args[0], self.drop_at))
            elif op == 'append_multiple':
                want = ('ok', None, K.m_append_multiple(L, list(args[0]), self.drop_at))
            elif op == 'delete':
                if not (-len(L) <= args[0] < len(L)):
                    return None
                want = ('ok', None, K.m_delete(L, args[0]))
            elif op == 'setslice':
                want = ('ok', None, K.m_setslice(L, args[0], args[1], list(args[2])))
            elif op == 'getitem':
                want = ('ok', K.m_getitem(L, args[0]), L)
            elif op == 'getslice':
                want = ('ok', K.m_getslice(L, args[0], args[1]), L)
            elif op == 'setitem':
                want = ('ok', None, K.m_setitem(L, args[0], args[1]))
            elif op == 'last':
                want = ('ok', K.m_last(L), L)
            elif op == 'past':
                if len(L) - 1 - args[0] < 0:
                    raise IndexError
                want = ('ok', K.m_past(L, args[0]), L)
            elif op == 'flush':
                want = ('ok', None, [])
            else:
                raise ValueError(op)
        except IndexError:
            want = ('raise', 'IndexError', L)
        try:
            if op == 'append':
                got = a.append(args[0])
            elif op == 'append_multiple':
                got = a.append_multiple(np.array(args[0], dtype=float))
            elif op == 'delete':
                got = a.delete(args[0], axis=0)
            elif op == 'getitem':
                got = a[args[0]]
            elif op == 'getslice':
                got = a[args[0]:args[1]]
            elif op == 'setitem':
                a[args[0]] = args[1]
                got = None
            elif op == 'setslice':
                a[args[0]:args[1]] = np.array(args[2], dtype=float)
                got = None
            elif op == 'last':
                got = a.get_last_item()
            elif op == 'past':
                got = a.get_past_item(args[0])
            elif op == 'flush':
                got = a.flush()
            res = ('ok', got)
        except Exception as ex:
            res = ('raise', type(ex).__name__, str(ex))
        hist = ' ; '.join(self.log)
        if want[0] == 'raise':
            if res[0] != 'raise' or res[1] != want[1]:
                return f'{hist}: the list raises {want[1]} but the array ' + ('returned ' + repr(res[1]) if res[0] == 'ok' else f'raised {res[1]}')
            return None
        if res[0] == 'raise':
            return f'{hist}: valid on the list but the array raised {res[1]}: {res[2]}'
        if op in ('getitem', 'last', 'past') and float(res[1]) != float(want[1]):
            return f'{hist}: returned {res[1]}, the list gives {want[1]}'
        if op == 'getslice' and [float(x) for x in res[1]] != [float(x) for x in want[1]]:
            return f'{hist}: returned {[float(x) for x in res[1]]}, the list gives {want[1]}'
        self.L = list(want[2])
        v = [float(x) for x in K.view(a)]
        if v != [float(x) for x in self.L]:
            return f'{hist}: array holds {v}, the list model {self.L}'
        if len(a) != len(self.L):
            return f'{hist}: len {len(a)} vs {len(self.L)}'
        return None


def search(seed, budget=6000, want_op=None):
    """seeded exploration of short histories over small buckets (reaches every (index, capacity) shape)"""
    rng = random.Random(seed)
    for _ in range(budget):
        bucket = rng.choice([1, 2, 3, 4])
        drop = rng.choice([None, None, 2, 3, 4, 6])
        p = Pair(bucket, drop)
        for _ in range(rng.randint(1, 14)):
            op = rng.choice(['append', 'append', 'append', 'delete', 'getitem', 'getslice', 'setitem', 'setslice', 'last', 'past',
                             'append_multiple', 'flush'] + ([want_op] * 4 if want_op else []))
            n = len(p.L)
            if op == 'append':
                d = p.step(op, p.fresh())
            elif op == 'append_multiple':
                k = rng.randint(0, 5)
                if drop is not None:
                    # the retained part must still hold all new items (precondition of the bulk append with the drop option)
                    k = rng.randint(1, max(1, drop // 2))
                    if (n + k) % drop == 0 and k > (n + k) - int(drop / 2):
                        continue
                d = p.step(op, [p.fresh() for _ in range(k)])
            elif op == 'delete':
                if n == 0 or drop is not None:
                    continue
                d = p.step(op, rng.randrange(-n, n))
            elif op == 'setslice':
                lo, hi = rng.choice([None] + list(range(-n - 2, n + 3))), rng.choice([None] + list(range(-n - 2, n + 3)))
                k = len(p.L[lo:hi])       # equal-length assignment
                d = p.step(op, lo, hi, [p.fresh() for _ in range(k)])
            elif op == 'getitem':
                d = p.step(op, rng.randint(-n - 2, n + 1))
            elif op == 'getslice':
                d = p.step(op, rng.choice([None] + list(range(-n - 2, n + 3))), rng.choice([None] + list(range(-n - 2, n + 3))))
            elif op == 'setitem':
                d = p.step(op, rng.randint(-n - 1, n), p.fresh())
            elif op == 'past':
                d = p.step(op, rng.randint(0, n + 1))
            else:
                d = p.step(op)
            if d:
                if want_op is None or op == want_op or any(l.startswith(want_op) for l in p.log):
                    # (a broken invariant may only show at a later operation of the history)
                    return d
                break       # an unrelated disagreement: abandon this history
    return None


def replay(pl):
    ob = pl['obligation']
    op = ob.split('.')[0]
    opmap = {'getslice': 'getslice', 'getitem': 'getitem', 'append': 'append', 'append_multiple': 'append_multiple',
             'delete': 'delete', 'setitem': 'setitem', 'setslice': 'setslice', 'get_last_item': 'last',
             'get_past_item': 'past', 'flush': 'flush', 'len': 'append', 'init': 'append'}
    d = search(pl.get('seed', 0), want_op=opmap.get(op))
    if d:
        return {'confirmed': True, 'detail': d, 'model_state': {k: v for k, v in pl['m'].items() if not isinstance(v, dict)}}
    return {'confirmed': False, 'detail': 'no operation history over small buckets (6000 seeded histories of <= 14 operations) '
            'disagrees with the list model'}


def replay_finding(entry):
    w = entry.get('witness', {})
    p = Pair(w.get('bucket', 3), w.get('drop_at'))
    for step in w.get('ops', []):
        d = p.step(step[0], *step[1:])
        if d:
            return {'confirmed': True, 'detail': d}
    return {'confirmed': False, 'detail': 'witness history agrees with the list model'}
