"""Native replay for C04: real spot session driven in lock step with the cash-account model of the sidecar."""
import random
import contracts.C04 as K
from native.world import session

TOL = 1e-7


def close(a, b):
    return abs(a - b) <= TOL * max(1.0, abs(a), abs(b))


class Pair:
    def __init__(self, fee, balance=10000.0):
        self.w = session('spot', fee=fee, balance=balance)
        self.ex = self.w['exchange']
        self.pos = self.w['positions']['BTC-USDT']
        self.pos.current_price = 100.0
        self.fee = fee
        self.v = (balance, 0.0, 0.0, 0.0)
        self.resting = []
        self.log = [f'spot session fee={fee} balance={balance}']

    def view(self):
        return tuple(float(x) for x in K.view(self.ex, 'BTC-USDT', 'BTC'))

    def compare(self, what):
        got = self.view()
        names = ('quote', 'base', 'stop_sum', 'limit_sum')
        for n, g, w in zip(names, got, self.v):
            if not close(g, w):
                return f'{" ; ".join(self.log)}: after {what} {n} = {g}, cash-account model {w}'
        if any(g < -TOL for g in got):
            return f'{" ; ".join(self.log)}: negative balance {dict(zip(names, got))}'
        return None

    def check_position(self, what, allow_oversell):
        q = float(self.pos.qty)
        base = self.view()[1]
        if q < -TOL:
            return None if allow_oversell else f'{" ; ".join(self.log)}: after {what} the spot position is short: qty {q} (base balance {base})'
        if not close(q, base):
            return None if allow_oversell else f'{" ; ".join(self.log)}: after {what} position.qty = {q} but base balance = {base}'
        return None

    def submit(self, side, kind, q, p, mq=None, mp=None):
        from jesse.models import Order
        from jesse.store import store
        import jesse.helpers as jh
        from jesse.exceptions import InsufficientBalance
        self.log.append(f'submit {side} {kind} {q}@{p}')
        try:
            want = K.m_submit(self.v, side, kind, q if mq is None else mq, p if mp is None else mp)
            model_rejects = False
        except K.InsufficientBalance:
            model_rejects = True
        try:
            o = Order({'id': jh.generate_unique_id(), 'symbol': 'BTC-USDT', 'exchange': 'Sandbox', 'side': side, 'type': kind,
                       'reduce_only': False, 'qty': jh.prepare_qty(q, side), 'price': p})
            rejected = False
        except InsufficientBalance:
            rejected = True
        if rejected != model_rejects:
            return None, (f'{" ; ".join(self.log)}: the exchange {"rejects" if rejected else "accepts"} but the cash-account model '
                          f'{"rejects" if model_rejects else "accepts"} (model state quote,base,stop_sum,limit_sum = {self.v})')
        if rejected:
            return None, 'END'
        store.orders.add_order(o)
        o._mq, o._mp = (q if mq is None else mq), (p if mp is None else mp)
        self.v = want
        self.resting.append(o)
        return o, self.compare('submission')

    def cancel(self, o):
        self.log.append(f'cancel {o.side} {o.type} {abs(o.qty)}@{o.price}')
        self.v = K.m_cancel(self.v, o.side, o.type, getattr(o, '_mq', abs(o.qty)), getattr(o, '_mp', o.price))
        o.cancel()
        self.resting.remove(o)
        return self.compare('cancellation')

    def execute(self, o, allow_oversell=False):
        self.log.append(f'execute {o.side} {o.type} {abs(o.qty)}@{o.price}')
        mq, mp = getattr(o, '_mq', abs(o.qty)), getattr(o, '_mp', o.price)
        over = K.oversell(self.v, o.side, mq)
        self.v = K.m_execute(self.v, o.side, o.type, mq, mp, self.fee)
        self.pos.current_price = o.price
        o.execute()
        self.resting.remove(o)
        d = self.compare('execution')
        if d:
            return d
        return self.check_position('execution', allow_oversell and over)


def history(rng, want, allow_oversell, steps=12):
    p = Pair(rng.choice([0.0, 0.001, 0.0025]))
    for _ in range(rng.randint(2, steps)):
        kinds = ['submit', 'submit', 'execute', 'cancel']
        op = rng.choice(kinds + [want[0]] * 2)
        if op == 'submit':
            side = rng.choice(['buy', 'sell', want[1]])
            kind = rng.choice(['MARKET', 'LIMIT', 'STOP', want[2]])
            base = p.v[1]
            q = rng.choice([0.1, 1.0, 2.5, 55.5, round(base, 6) or 1.0, round(base / 2, 6) or 0.5, round(base * 1.2, 6) or 2.0])
            price = rng.choice([90.0, 100.0, 110.0])
            o, d = p.submit(side, kind, q, price)
            if d == 'END':
                return None
        elif not p.resting:
            continue
        elif op == 'execute':
            d = p.execute(rng.choice(p.resting), allow_oversell)
        else:
            d = p.cancel(rng.choice(p.resting))
        if d:
            return d
    return None


def replay(pl):
    ob = pl['obligation']
    if ob.startswith('float'):
        return bounded(pl)
    parts = ob.split('.')
    want = (parts[0], parts[1] if len(parts) > 1 else 'buy', parts[2] if len(parts) > 2 else 'LIMIT')
    if parts[0] == 'cancel-after-other':
        want = ('cancel', parts[1], 'LIMIT')
    if want[2] not in ('LIMIT', 'STOP', 'MARKET'):
        want = (want[0], want[1], 'LIMIT')
    rng = random.Random(pl.get('seed', 0))
    if 'repeated-cancellation' in ob:
        # the same resting order cancelled twice: the second request must release nothing
        for side, kind, q, price in (('buy', 'LIMIT', 1.0, 90.0), ('buy', 'STOP', 2.0, 110.0), ('sell', 'LIMIT', 1.0, 110.0), ('sell', 'STOP', 1.0, 90.0)):
            p = Pair(0.0)
            o, d = p.submit('buy', 'MARKET', 3.0, 100.0)
            d = d or p.execute(o)
            o, d2 = p.submit(side, kind, q, price)
            d = d or d2 or p.cancel(o)
            if d:
                return {'confirmed': True, 'detail': d}
            p.log.append('cancel the same order again')
            o.cancel()
            d = p.compare('the repeated cancellation')
            if d:
                return {'confirmed': True, 'detail': d}
    if parts[0] == 'cancel-after-other':
        for first in (True, False):
            p = Pair(0.0)
            a, d = p.submit(want[1], 'LIMIT', 1.0, 40.0) if want[1] == 'buy' else (None, None)
            if want[1] == 'sell':
                o, d = p.submit('buy', 'MARKET', 5.0, 100.0)
                d = d or p.execute(o)
                a, d2 = p.submit('sell', 'LIMIT', 1.0, 110.0)
                d = d or d2
            b, d2 = p.submit(want[1], 'LIMIT', 2.0, 30.0 if want[1] == 'buy' else 120.0)
            d = d or d2 or p.cancel(a if first else b)
            if d:
                return {'confirmed': True, 'detail': d}
    allow = False
    try:
        import json, os
        allow = False
    except Exception:
        pass
    # directed histories first: the solver's model says which state shape fails (e.g. a sell larger than the base held,
    # reachable by two full-size sells of different kinds resting at once)
    if want[0] == 'execute' and want[1] == 'sell':
        for other in ('STOP', 'LIMIT', 'MARKET'):
            if other == want[2]:
                continue
            for fee in (0.0, 0.001):
                p = Pair(fee)
                o, d = p.submit('buy', 'MARKET', 55.5, 100.0)
                d = d or p.execute(o)
                held = p.v[1]
                if other == 'MARKET':
                    a, d2 = p.submit('sell', want[2], held, 90.0)
                    b, d3 = p.submit('sell', other, held, 100.0)
                else:
                    a, d2 = p.submit('sell', other, held, 110.0) if True else (None, None)
                    b, d3 = p.submit('sell', want[2], held, 90.0)
                    a, b = b, a
                if d or d2 or d3 or a is None or b is None:
                    continue
                first, second = (b, a)
                d = p.execute(first) or p.execute(second)
                if d:
                    return {'confirmed': True, 'detail': d}
    for _ in range(1500):
        d = history(rng, want, allow_oversell=False)
        if d:
            return {'confirmed': True, 'detail': d}
    return {'confirmed': False, 'detail': '1500 seeded legal histories agree with the cash-account model'}


def replay_finding(entry):
    w = entry.get('witness', {})
    p = Pair(w.get('fee', 0.0))
    orders = []
    for step in w.get('ops', []):
        if step[0] == 'submit':
            o, d = p.submit(*step[1:])
            orders.append(o)
        elif step[0] == 'execute':
            d = p.execute(orders[step[1]])
        else:
            d = p.cancel(orders[step[1]])
        if d and d != 'END':
            return {'confirmed': True, 'detail': d}
    return {'confirmed': False, 'detail': 'witness history agrees with the model'}


# ------------------------------------------------------------------------------------------------ bounded float check
GRID = ['0.05', '0.1', '0.2', '0.3', '0.7', '1.1', '2.2', '3.3']


def bounded(pl):
    """BOUNDED stand-in for assumption A-1 at the accept/reject boundary: decimal quantities whose exact sum equals the
    base held.  The cash-account model runs in exact rational arithmetic, the real exchange in binary floats; the
    accept/reject decisions must coincide (jesse sums the committed quantities with sum_floats for exactly this reason)."""
    from fractions import Fraction as F
    n = 0
    px = {'MARKET': 100, 'LIMIT': 110, 'STOP': 90}
    for a in GRID:
        for b in GRID:
            fa, fb = F(a), F(b)
            held = fa + fb
            for kinds in (('LIMIT', 'MARKET'), ('STOP', 'STOP'), ('LIMIT', 'LIMIT'), ('MARKET', 'LIMIT')):
                for extra in (F(0), F(1, 100)):
                    for cycle in (False, True):
                        n += 1
                        p = Pair(0.0)
                        p.v = (F(10000), F(0), F(0), F(0))
                        p.fee = F(0)
                        o, d = p.submit('buy', 'MARKET', float(held), 100.0, held, F(100))
                        d = d or p.execute(o)
                        if d:
                            return {'confirmed': True, 'detail': d, 'cases': n}
                        if cycle and kinds[0] != 'MARKET':
                            # a resting sell that is cancelled again must leave no residue in the committed sums
                            o0, d = p.submit('sell', kinds[0], float(fb), float(px[kinds[0]]), fb, F(px[kinds[0]]))
                            d = d or p.cancel(o0)
                            if d:
                                return {'confirmed': True, 'detail': d, 'cases': n}
                        if kinds[0] != 'MARKET':
                            o1, d = p.submit('sell', kinds[0], float(fa), float(px[kinds[0]]), fa, F(px[kinds[0]]))
                            if d:
                                return {'confirmed': True, 'detail': d, 'cases': n}
                            q2 = fb + extra
                        else:
                            q2 = held + extra
                        o2, d = p.submit('sell', kinds[1], float(q2), float(px[kinds[1]]), q2, F(px[kinds[1]]))
                        if d and d != 'END':
                            return {'confirmed': True, 'detail': d, 'cases': n}
    return {'confirmed': False, 'detail': f'{n} decimal boundary histories: accept/reject decisions equal the exact cash-account model', 'cases': n}
