"""Native replay for C17."""
import importlib
import itertools
import random
import contracts.C17 as K
from native.tol import wrap, T


def _fn(qual):
    mod, name = qual.rsplit('.', 1)
    return getattr(importlib.import_module(mod), name)


def _check(qual, args):
    c = K.CONTRACTS[qual]
    env = {a: wrap(v) for a, v in zip(c['args'], args)}
    env.update(step=lambda p: T(1 / 10 ** p), abs=abs)
    try:
        if not all(eval(r, {}, env) for r in c['requires']):
            return None
    except Exception:
        return None
    try:
        r = _fn(qual)(*args)
    except Exception as ex:
        return f'raised {type(ex).__name__}: {ex}'
    env['r'] = wrap(r)
    bad = [n for n, t in c['ensures'].items() if not eval(t, {}, env)]
    if bad:
        return f'{qual.split(".")[-1]}{tuple(args)} = {r!r} violates {bad}'
    return None


def _max_tf_check(subset):
    from jesse.helpers import max_timeframe
    r = max_timeframe(list(subset))
    best = max(subset, key=K.label_minutes)
    if r not in subset:
        return f'max_timeframe({list(subset)}) = {r!r} which is not a member'
    if K.label_minutes(r) != K.label_minutes(best):
        return f'max_timeframe({list(subset)}) = {r!r} but {best!r} is longer'
    return None


def replay(pl):
    m = pl['m']
    ob = pl['obligation']
    rng = random.Random(pl.get('seed', 0))
    short = ob.split('.')[0]
    if short == 'max_timeframe':
        for mm in [m] + pl.get('others', []):
            subset = [lb for lb in K.TIMEFRAMES if mm.get('in_' + lb)]
            if subset:
                d = _max_tf_check(subset)
                if d:
                    return {'confirmed': True, 'detail': d, 'inputs': subset}
        for n in (1, 2, 3):
            for subset in itertools.combinations(K.TIMEFRAMES, n):
                d = _max_tf_check(list(subset))
                if d:
                    return {'confirmed': True, 'detail': d, 'inputs': list(subset)}
        return {'confirmed': False, 'detail': 'max_timeframe agrees with the label lengths on the model and all subsets of size <= 3'}
    if short == 'tables':
        import jesse.utils as u
        import jesse.helpers as jh
        from jesse.modes.backtest_mode import timeframe_to_one_minutes as bt
        for lb in K.TIMEFRAMES:
            w = K.label_minutes(lb)
            for nm, got in (('utils', lambda: u.timeframe_to_one_minutes(lb)), ('helpers', lambda: jh.timeframe_to_one_minutes(lb)),
                            ('backtest_mode', lambda: bt[lb])):
                try:
                    g = got()
                except Exception as ex:
                    g = f'{type(ex).__name__}'
                if g != w:
                    return {'confirmed': True, 'detail': f'{nm} table: {lb} -> {g}, label length is {w}'}
        for lb in K.TIMEFRAMES[:13]:
            try:
                a = u.anchor_timeframe(lb)
                if K.label_minutes(a) <= K.label_minutes(lb):
                    return {'confirmed': True, 'detail': f'anchor_timeframe({lb}) = {a} is not longer'}
            except Exception as ex:
                return {'confirmed': True, 'detail': f'anchor_timeframe({lb}) raised {type(ex).__name__}'}
        return {'confirmed': False, 'detail': 'tables agree natively'}
    if short in ('sum_floats', 'subtract_floats'):
        # exactness: on decimals with up to 8 places and up to 1e6 the result is the double nearest to the exact decimal result
        from decimal import Decimal
        import jesse.utils as u
        f = getattr(u, short)
        for _ in range(20000):
            a = round(rng.choice([0.1, 7.3, 651628.1755183, 99999.99999999, 0.00000123, 1234.56789012]) * rng.choice([1, 0.5, 3, 0.01]), 8)
            b = round(rng.uniform(0, 10 ** rng.choice([-3, 0, 3, 6])), rng.choice([2, 6, 8]))
            want = float(Decimal(str(a)) + Decimal(str(b))) if short == 'sum_floats' else float(Decimal(str(a)) - Decimal(str(b)))
            got = f(a, b)
            if got != want:
                return {'confirmed': True, 'detail': f'{short}({a!r}, {b!r}) = {got!r} but the exact decimal result is {want!r}', 'inputs': [a, b]}
    qual = next((q for q in K.CONTRACTS if q.split('.')[-1] == short), None)
    if qual is None:
        return {'confirmed': False, 'detail': f'no native replay for {ob}'}
    c = K.CONTRACTS[qual]
    task = pl.get('task') or ''
    fixed = {}
    tail = task.split('.')[-1]
    if tail[:1] == 'p' and tail[1:].lstrip('-').isdigit():
        fixed['precision'] = int(tail[1:])
    if tail[:1] == 'd' and tail[1:].lstrip('-').isdigit():
        fixed['decimals'] = int(tail[1:])
    if tail in ('long', 'short'):
        fixed['trade_type'] = tail

    def args_of(mm):
        return [fixed[a] if a in fixed else float(mm.get(a, 0)) for a in c['args']]
    for mm in [m] + pl.get('others', []):
        d = _check(qual, args_of(mm))
        if d:
            return {'confirmed': True, 'detail': d, 'inputs': args_of(mm)}
    base = args_of(m)
    for _ in range(3000):
        a = []
        for name, v in zip(c['args'], base):
            if name in fixed:
                a.append(v)
            else:
                a.append(round(abs(v) * rng.choice([0.5, 0.9, 1, 1.1, 2]) + rng.choice([0, 0.001, 0.37, 1, 12.5, 1000]), rng.choice([0, 2, 4, 8])))
        d = _check(qual, a)
        if d:
            return {'confirmed': True, 'detail': d, 'inputs': a}
    return {'confirmed': False, 'detail': 'real function satisfies every clause on the model and on 3000 nearby inputs (tolerance 1e-9)'}


def replay_finding(entry):
    w = entry.get('witness', {})
    if w.get('kind') == 'max_timeframe':
        d = _max_tf_check(w['subset'])
        return {'confirmed': bool(d), 'detail': d}
    return {'confirmed': False, 'detail': 'unknown witness'}
