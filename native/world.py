"""A real jesse session for native replays: real config, router, store, exchange, positions.
Uses the unit-testing code path (PYTEST_CURRENT_TEST) so that the config memo is bypassed."""
import os
os.environ.setdefault('PYTEST_CURRENT_TEST', 'verif-replay')
import numpy as np


class StubStrategy:
    def __init__(self, leverage, name='S', timeframe='1m'):
        self.leverage = leverage
        self.name = name
        self.timeframe = timeframe
        self.trades_count = 0
        self.events = []

    def _on_updated_position(self, order):
        self.events.append(('updated', order))


def session(kind='futures', leverage=2, mode='cross', fee=0.0, balance=10000.0, symbols=('BTC-USDT',), timeframe='1m',
            attach_strategy=True):
    from jesse.config import config, reset_config
    from jesse.routes import router
    from jesse.store import store
    import jesse.helpers as jh
    from jesse.services import selectors
    reset_config()
    ex = config['env']['exchanges']['Sandbox']
    ex['balance'] = balance
    ex['fee'] = fee
    ex['type'] = kind
    if kind == 'futures':
        ex['futures_leverage_mode'] = mode
        ex['futures_leverage'] = leverage
    config['app']['trading_mode'] = 'backtest'
    from jesse.strategies import Strategy

    class _S(Strategy):
        def should_long(self): return False
        def should_short(self): return False
        def should_cancel_entry(self): return False
        def go_long(self): pass
        def go_short(self): pass
    routes = [{'exchange': 'Sandbox', 'symbol': s, 'timeframe': timeframe, 'strategy': _S} for s in symbols]
    router.initiate(routes, [])
    store.reset(True)
    store.app.time = 1609459200000
    out = {'store': store, 'exchange': selectors.get_exchange('Sandbox'), 'positions': {}, 'strategies': {}}
    for s in symbols:
        p = selectors.get_position('Sandbox', s)
        if attach_strategy:
            st = StubStrategy(leverage if kind == 'futures' else 1)
            p.strategy = st
            out['strategies'][s] = st
        out['positions'][s] = p
    return out
