"""Native replay for C10: small real backtests (flat price 100) with scripted strategies; orders are inspected."""
import numpy as np
import contracts.C10 as K

TS0 = 1609459200000
CUR = 100.0


def run(strategy_cls, n=12, kind='futures'):
    from jesse import research
    c = np.array([[TS0 + i * 60000, CUR, CUR, CUR, CUR, 10] for i in range(n)], dtype=float)
    cfg = {'starting_balance': 100000, 'fee': 0, 'type': kind, 'futures_leverage': 5, 'futures_leverage_mode': 'cross',
           'exchange': 'Sandbox', 'warm_up_candles': 0}
    routes = [{'exchange': 'Sandbox', 'strategy': strategy_cls, 'symbol': 'BTC-USDT', 'timeframe': '1m'}]
    research.backtest(cfg, routes, [], {'Sandbox-BTC-USDT': {'exchange': 'Sandbox', 'symbol': 'BTC-USDT', 'candles': c}})


def base():
    from jesse.strategies import Strategy

    class B(Strategy):
        seen = None

        def should_long(self): return False
        def should_short(self): return False
        def should_cancel_entry(self): return False
        def go_long(self): pass
        def go_short(self): pass
    return B


PRICES = [CUR * (1 + d) for d in (-0.1, -0.0002, -0.00016, -0.000154, -0.000151, -0.000149, -0.00014, -0.0001, 0.0, 0.0001, 0.00014,
                                  0.000149, 0.000151, 0.000154, 0.00016, 0.0002, 0.1)]


def entry(side):
    from jesse.store import store
    for p in PRICES:
        B = base()
        seen = {}

        class S(B):
            def should_long(self): return side == 'buy' and self.index == 1
            def should_short(self): return side == 'sell' and self.index == 1

            def go_long(self):
                self.buy = 1.5, p

            def go_short(self):
                self.sell = 1.5, p

            def after(self):
                if self.index == 1:
                    seen['orders'] = [(o.type, o.side, abs(o.qty), o.price, o.reduce_only) for o in store.orders.get_orders('Sandbox', 'BTC-USDT')]
        try:
            run(S, 4)
        except Exception as ex:
            return f'entry {side} at {p} (current {CUR}) raised {type(ex).__name__}: {ex}'
        os_ = seen.get('orders') or []
        want = K.entry_kind(side, p, CUR)
        if len(os_) != 1:
            return f'entry {side} 1.5@{p} (current {CUR}) produced {len(os_)} orders: {os_}'
        t, s, q, price, ro = os_[0]
        wantp = CUR if want == 'MARKET' else p
        if (t, s, ro) != (want, side, False) or abs(q - 1.5) > 1e-12 or abs(price - wantp) > 1e-9:
            return f'entry {side} 1.5@{p} (current {CUR}) was submitted as {os_[0]}, expected {want} {side} 1.5@{wantp} not reduce-only'
    return None


def exits(ptype):
    from jesse.store import store
    for p in PRICES:
        if p == CUR * 0.9 and ptype == 'short' or True:
            pass
        B = base()
        seen = {}

        class S(B):
            def should_long(self): return ptype == 'long' and self.index == 1
            def should_short(self): return ptype == 'short' and self.index == 1

            def go_long(self):
                self.buy = 2, self.price

            def go_short(self):
                self.sell = 2, self.price

            def update_position(self):
                if self.index == 3 and 'orders' not in seen:
                    o = self.broker.reduce_position_at(1.25, p, self.price)
                    seen['orders'] = [(o.type, o.side, abs(o.qty), o.price, o.reduce_only)]
        try:
            run(S, 6)
        except Exception as ex:
            return f'exit of a {ptype} at {p} raised {type(ex).__name__}: {ex}'
        os_ = seen.get('orders') or []
        want = K.exit_kind(ptype, p, CUR)
        if len(os_) != 1:
            return f'exit of a {ptype} position at {p}: {len(os_)} orders'
        t, s, q, price, ro = os_[0]
        if (t, s, ro) != (want, K.closing_side(ptype), True) or abs(q - 1.25) > 1e-12 or abs(price - p) > 1e-9:
            return f'exit 1.25@{p} of a {ptype} position (current {CUR}) was submitted as {os_[0]}, expected {want} {K.closing_side(ptype)} reduce-only'
    return None


def modify(kind):
    from jesse.store import store
    sl = kind == 'stop_loss'
    cases = []
    for nrows in (1, 2):
        cases.append(([(1, 90.0), (1, 85.0)][:nrows] if sl else [(1, 110.0), (1, 115.0)][:nrows],
                      [(1, 95.0), (1, 92.0)][:nrows] if sl else [(1, 105.0), (1, 108.0)][:nrows]))
    # a change of the number of rows is a modification even when the rows are identical
    cases.append(([(1, 90.0), (1, 90.0)] if sl else [(1, 110.0), (1, 110.0)], [(1, 90.0)] if sl else [(1, 110.0)]))
    cases.append(([(1, 90.0)] if sl else [(1, 110.0)], [(1, 90.0), (1, 90.0)] if sl else [(1, 110.0), (1, 110.0)]))
    for first, second in cases:
        B = base()
        seen = {}

        class S(B):
            def should_long(self): return self.index == 1

            def go_long(self):
                self.buy = 2, self.price

            def on_open_position(self, order):
                setattr(self, kind, list(first) if len(first) > 1 else first[0])

            def update_position(self):
                if self.index == 4:
                    setattr(self, kind, list(second) if len(second) > 1 else second[0])

            def after(self):
                if self.index == 5:
                    seen['active'] = sorted((o.type, o.price, o.submitted_via) for o in store.orders.get_orders('Sandbox', 'BTC-USDT')
                                            if o.is_active and o.reduce_only)
        try:
            run(S, 8)
        except Exception as ex:
            return f'modifying {kind} raised {type(ex).__name__}: {ex}'
        tag = 'stop-loss' if kind == 'stop_loss' else 'take-profit'
        want = sorted(('STOP' if kind == 'stop_loss' else 'LIMIT', p, tag) for _, p in second)
        if seen.get('active') != want:
            return f'after changing {kind} from {first} to {second} the active exit orders are {seen.get("active")}, expected {want}'
    return None


def inplace_and_reset():
    """(a) exits held as numpy arrays and edited in place are modifications; (b) a second trade that declares the same
    stop-loss as the first one still gets its stop-loss order"""
    import numpy as np
    from jesse.store import store
    B = base()
    seen = {}

    class S(B):
        def should_long(self): return self.index == 1

        def go_long(self):
            self.buy = 2, self.price

        def on_open_position(self, order):
            self.stop_loss = np.array([[2.0, 90.0]])
            self.take_profit = np.array([[2.0, 110.0]])

        def update_position(self):
            if self.index == 4:
                self.stop_loss[0, 1] += 1.5
                self.take_profit[:, 1] -= 2.0

        def after(self):
            if self.index == 6:
                seen['active'] = sorted((o.type, o.price) for o in store.orders.get_orders('Sandbox', 'BTC-USDT') if o.is_active and o.reduce_only)
    run(S, 9)
    if seen.get('active') != [('LIMIT', 108.0), ('STOP', 91.5)]:
        return (f'stop-loss / take-profit declared as numpy arrays at 90 / 110 and edited in place to 91.5 / 108: active exit orders two steps '
                f'later {seen.get("active")}, expected [("LIMIT", 108.0), ("STOP", 91.5)]')
    # (b)
    B = base()
    seen2 = {'stops': []}
    TSC = [100.0, 100.0, 100.0, 100.0, 89.0, 100.0, 100.0, 100.0, 100.0, 100.0, 100.0]

    class S2(B):
        def should_long(self): return self.index in (1, 6)

        def go_long(self):
            self.buy = 1, self.price

        def on_open_position(self, order):
            self.stop_loss = 1, 90.0

        def after(self):
            if self.index in (2, 7):
                seen2['stops'].append(sorted((o.type, o.price) for o in store.orders.get_orders('Sandbox', 'BTC-USDT') if o.is_active and o.reduce_only))
    from jesse import research
    c = np.array([[TS0 + i * 60000, TSC[i], TSC[i], max(TSC[i], 100.0), min(TSC[i], 100.0) if TSC[i] >= 100 else 89.0, 10] for i in range(len(TSC))], dtype=float)
    cfg = {'starting_balance': 100000, 'fee': 0, 'type': 'futures', 'futures_leverage': 5, 'futures_leverage_mode': 'cross',
           'exchange': 'Sandbox', 'warm_up_candles': 0}
    research.backtest(cfg, [{'exchange': 'Sandbox', 'strategy': S2, 'symbol': 'BTC-USDT', 'timeframe': '1m'}], [],
                      {'Sandbox-BTC-USDT': {'exchange': 'Sandbox', 'symbol': 'BTC-USDT', 'candles': c}})
    if seen2['stops'] != [[('STOP', 90.0)], [('STOP', 90.0)]]:
        return (f'two consecutive trades, each declaring stop_loss = (1, 90) in on_open_position (the first one is stopped out): active '
                f'stop orders one step after each entry: {seen2["stops"]}, expected one STOP at 90 both times')
    return None


def liquidate():
    from jesse.store import store
    B = base()
    seen = {}

    class S(B):
        def should_long(self): return self.index == 1

        def go_long(self):
            self.buy = 2, self.price

        def update_position(self):
            if self.index == 3:
                self.liquidate()

        def after(self):
            if self.index == 4:
                seen['qty'] = self.position.qty
    try:
        run(S, 8)
    except Exception as ex:
        return f'liquidate raised {type(ex).__name__}: {ex}'
    if seen.get('qty') != 0:
        return f'position after liquidate(): {seen.get("qty")}'
    return None


def cancel_entries():
    from jesse.store import store
    for answer in (True, False):
        B = base()
        seen = {}

        class S(B):
            def should_long(self): return self.index == 1
            def should_cancel_entry(self): return answer

            def go_long(self):
                self.buy = 1, 50.0

            def after(self):
                if self.index == 3:
                    seen['active'] = store.orders.count_active_orders('Sandbox', 'BTC-USDT')
        run(S, 6)
        want = 0 if answer else 1
        # with should_cancel_entry() == True the entry is cancelled and (should_long being false afterwards) not resubmitted
        if seen.get('active') != want:
            return f'should_cancel_entry()={answer}: {seen.get("active")} active entry orders two steps after submission, expected {want}'
    return None


def replay(pl):
    ob = pl['obligation']
    d = None
    if ob.startswith('inplace') or ob.startswith('reset'):
        try:
            d = inplace_and_reset()
        except Exception as ex:
            import traceback
            return {'confirmed': False, 'error': f'{type(ex).__name__}: {ex}', 'stderr': traceback.format_exc()[-800:]}
        return {'confirmed': bool(d), 'detail': d or 'in-place edits are detected and a repeated stop-loss is submitted again'}
    if ob.startswith('entry.buy') or ob.startswith('is_price_near'):
        d = entry('buy') or entry('sell')
    elif ob.startswith('entry.sell') or ob.startswith('entry'):
        d = entry('sell') or entry('buy')
    elif ob.startswith('exit.short'):
        d = exits('short')
    elif ob.startswith('exit') or ob.startswith('sandbox'):
        d = exits('long') or exits('short')
    elif ob.startswith('modify.take_profit'):
        d = modify('take_profit')
    elif ob.startswith('modify'):
        d = modify('stop_loss')
    elif ob.startswith('liquidate'):
        d = liquidate()
    elif ob.startswith('check') or ob.startswith('execute-cancel') or ob.startswith('cancel-all') or ob.startswith('on-close'):
        d = cancel_entries()
    return {'confirmed': bool(d), 'detail': d or 'real backtests route and cancel as specified'}


def replay_finding(entry_):
    return {'confirmed': False, 'detail': 'no findings recorded for C10'}
