"""Native replay for C03: a real futures session (two symbols sharing the wallet) driven in lock step with the
average-cost margin-account model of the sidecar."""
import random
import contracts.C03 as K
from native.world import session

TOL = 1e-7
SYMS = ('BTC-USDT', 'ETH-USDT')


def close(a, b):
    return abs(a - b) <= TOL * max(1.0, abs(a), abs(b))


class Pair:
    def __init__(self, L, fee, balance=10000.0, mode='cross'):
        self.w = session('futures', leverage=L, mode=mode, fee=fee, balance=balance, symbols=SYMS)
        self.ex = self.w['exchange']
        self.L, self.fee = L, fee
        self.W = balance
        self.pos = {s: [0.0, None, 100.0] for s in SYMS}        # Q, E, P
        self.rest = {s: [] for s in SYMS}                        # resting orders (real objects)
        for s in SYMS:
            self.w['positions'][s].current_price = 100.0
        self.log = [f'futures session L={L} fee={fee} balance={balance}']

    def sums(self, s):
        sb = sum(o.qty * o.price for o in self.rest[s] if not o.reduce_only and o.side == 'buy')
        ss = sum(o.qty * o.price for o in self.rest[s] if not o.reduce_only and o.side == 'sell')
        return sb, ss

    def model_avail(self):
        st = []
        for s in SYMS:
            Q, E, P = self.pos[s]
            sb, ss = self.sums(s)
            st.append((Q, E if E is not None else 0.0, P, sb, ss))
        return K.avail(self.W, self.L, st)

    def compare(self, what):
        h = ' ; '.join(self.log)
        if not close(self.ex.wallet_balance, self.W):
            return f'{h}: after {what} wallet = {self.ex.wallet_balance}, model {self.W}'
        for s in SYMS:
            p = self.w['positions'][s]
            Q, E, P = self.pos[s]
            if not close(p.qty, Q):
                return f'{h}: after {what} {s} position size = {p.qty}, model {Q}'
            if abs(Q) > 1e-12 and (p.entry_price is None or not close(p.entry_price, E)):
                return f'{h}: after {what} {s} average entry = {p.entry_price}, model {E}'
            if abs(Q) > 1e-12 and not close(p.pnl, K.unrealised(Q, E, P)):
                return f'{h}: after {what} {s} unrealised pnl = {p.pnl}, model {K.unrealised(Q, E, P)}'
        a, m = self.ex.available_margin, self.model_avail()
        if not close(a, m):
            return f'{h}: after {what} available margin = {a}, model {m}'
        return None

    def set_price(self, s, price):
        self.log.append(f'price {s} {price}')
        self.pos[s][2] = price
        self.w['positions'][s].current_price = price
        return self.compare('price update')

    def submit(self, s, side, kind, q, p, ro):
        from jesse.models import Order
        from jesse.store import store
        import jesse.helpers as jh
        from jesse.exceptions import InsufficientMargin
        self.log.append(f'submit {s} {side} {kind} {q}@{p}{" reduce-only" if ro else ""}')
        a0 = self.model_avail()
        model_rejects = (not ro) and abs(q * p) / self.L > a0 + TOL * max(1.0, abs(a0))
        borderline = (not ro) and abs(abs(q * p) / self.L - a0) <= 1e-6 * max(1.0, abs(a0))
        try:
            o = Order({'id': jh.generate_unique_id(), 'symbol': s, 'exchange': 'Sandbox', 'side': side, 'type': kind,
                       'reduce_only': ro, 'qty': jh.prepare_qty(q, side), 'price': p})
            rejected = False
        except InsufficientMargin:
            rejected = True
        if rejected != model_rejects and not borderline:
            return None, (f'{" ; ".join(self.log)}: the exchange {"rejects" if rejected else "accepts"} but notional/leverage = '
                          f'{abs(q * p) / self.L} vs model available margin {a0}')
        if rejected:
            return None, 'END'
        store.orders.add_order(o)
        self.rest[s].append(o)
        return o, self.compare('submission')

    def cancel(self, o):
        self.log.append(f'cancel {o.symbol} {o.side} {abs(o.qty)}@{o.price}')
        a_before = None
        o.cancel()
        self.rest[o.symbol].remove(o)
        return self.compare('cancellation')

    def execute(self, o):
        s = o.symbol
        self.log.append(f'execute {s} {o.side} {o.type} {o.qty}@{o.price}{" reduce-only" if o.reduce_only else ""}')
        Q, E, P = self.pos[s]
        self.rest[s].remove(o)
        self.W, Q2, E2 = K.m_execute(self.W, Q, E, o.qty, o.price, o.reduce_only, self.fee)
        self.pos[s] = [Q2, E2, o.price]
        self.w['positions'][s].current_price = o.price
        o.execute()
        d = self.compare('execution')
        if d:
            return d
        if abs(Q2) < 1e-12:
            # the strategy layer cancels everything resting when the position closes
            for r in list(self.rest[s]):
                d = self.cancel(r)
                if d:
                    return d
        return None


def history(rng, want):
    p = Pair(rng.choice([1, 2, 3, 10, 25]), rng.choice([0.0, 0.0004, 0.001]),
             mode=rng.choice(['cross', 'isolated']))
    for _ in range(rng.randint(3, 16)):
        op = rng.choice(['submit', 'submit', 'execute', 'execute', 'cancel', 'price'] + [want] * 2)
        s = rng.choice(SYMS)
        if op == 'price':
            d = p.set_price(s, rng.choice([80.0, 95.0, 100.0, 104.5, 120.0]))
        elif op == 'submit':
            Q = p.pos[s][0]
            ro = abs(Q) > 1e-12 and rng.random() < 0.35
            side = rng.choice(['buy', 'sell'])
            if ro:
                side = 'sell' if Q > 0 else 'buy'
            q = rng.choice([0.5, 1.0, 2.5, 7.0, 40.0, abs(Q) or 1.0, abs(Q) * 2 or 3.0, abs(Q) / 2 or 0.25])
            o, d = p.submit(s, side, rng.choice(['MARKET', 'LIMIT', 'STOP']), q, rng.choice([90.0, 100.0, 101.5, 110.0]), ro)
            if d == 'END':
                return None
        else:
            cands = [o for x in SYMS for o in p.rest[x]]
            if not cands:
                continue
            o = rng.choice(cands)
            if o.reduce_only and abs(p.pos[o.symbol][0]) < 1e-12:
                continue
            d = p.execute(o) if op == 'execute' else p.cancel(o)
        if d:
            return d
    return None


def replay(pl):
    ob = pl['obligation']
    want = {'submit': 'submit', 'execute': 'execute', 'cancel': 'cancel', 'fill': 'execute', 'cancel-after-submit': 'cancel',
            'available_margin': 'price', 'find_order_index': 'cancel'}.get(ob.split('.')[0], 'execute')
    rng = random.Random(pl.get('seed', 0))
    # directed: a reduce-only order and an ordinary order resting at the same quantity and price; releasing one must not
    # touch the reservation of the other
    for side, first_ro in (('sell', True), ('sell', False), ('buy', True), ('buy', False)):
        for how in ('cancel', 'execute'):
            p = Pair(2, 0.0)
            s = SYMS[0]
            entry_side = 'buy' if side == 'sell' else 'sell'
            o, d = p.submit(s, entry_side, 'MARKET', 2.0, 100.0, False)
            d = d or p.execute(o)
            px = 120.0 if side == 'sell' else 80.0
            a, d1 = p.submit(s, side, 'LIMIT', 1.0, px, first_ro)
            b, d2 = p.submit(s, side, 'LIMIT', 1.0, px, not first_ro)
            d = d or d1 or d2
            if not d and a is not None and b is not None:
                d = p.cancel(a) if how == 'cancel' else p.execute(a)
            if d and d != 'END':
                return {'confirmed': True, 'detail': d}
    for _ in range(1200):
        d = history(rng, want)
        if d:
            return {'confirmed': True, 'detail': d}
    return {'confirmed': False, 'detail': '1200 seeded legal histories (two symbols, leverage 1-25, fees 0-0.1%) agree with the margin-account model'}


def replay_finding(entry):
    return {'confirmed': False, 'detail': 'no findings recorded for C03'}
