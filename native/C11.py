"""Native replay for C11: sequences of isolated backtests in ONE process (production code path: no pytest marker) compared
with the probe call in a fresh process."""
import json
import os
import subprocess
import sys

SCRIPT = r'''
import os, sys, json
os.environ.pop('PYTEST_CURRENT_TEST', None)
import warnings; warnings.filterwarnings('ignore')
import numpy as np
from jesse import research
from jesse.strategies import Strategy
import jesse.helpers as jh
assert not jh.is_unit_testing()
TS0 = 1609459200000
seen = {}

class S(Strategy):
    def should_long(self): return self.index == 2
    def should_short(self): return False
    def should_cancel_entry(self): return True
    def go_long(self):
        qty = 2
        self.buy = qty, self.price
        if not self.is_spot_trading:
            self.take_profit = qty, self.price * 1.01
            self.stop_loss = qty, self.price * 0.97
    def on_open_position(self, order):
        if self.is_spot_trading:
            self.take_profit = self.position.qty, self.price * 1.01
            self.stop_loss = self.position.qty, self.price * 0.97
    def go_short(self): pass
    sma_period = None
    def before(self):
        if self.sma_period and self.index == 70:
            import jesse.indicators as ta
            seen['sma'] = round(float(ta.sma(self.candles, self.sma_period)), 8)
        if self.index == 0:
            seen['shared'] = dict(self.shared_vars)
            seen['leverage'] = self.leverage
            seen['fee_rate'] = self.fee_rate
        self.shared_vars['touched'] = self.shared_vars.get('touched', 0) + 1

def candles(n=90):
    rows = []
    p = 100.0
    for i in range(n):
        o = p * (1.001 if i % 7 == 3 else 1.0); c = o * (1.004 if i % 9 < 6 else 0.997)      # some opens jump away from the previous close
        rows.append([TS0 + i * 60000, o, c, max(o, c) * 1.0005, min(o, c) * 0.9995, 10])
        p = c
    return np.array(rows)

def session(cfg):
    c = {'starting_balance': cfg.get('balance', 10000), 'fee': cfg.get('fee', 0), 'type': cfg.get('type', 'futures'),
         'futures_leverage': cfg.get('leverage', 2), 'futures_leverage_mode': 'cross', 'exchange': cfg.get('exchange', 'Sandbox'),
         'warm_up_candles': cfg.get('warmup', 0)}
    ex = c['exchange']
    S.sma_period = cfg.get('sma')
    routes = [{'exchange': ex, 'strategy': S, 'symbol': 'BTC-USDT', 'timeframe': '1m'}]
    arr = candles()
    keep = arr.copy()
    seen.clear()
    try:
        r = research.backtest(c, routes, [], {f'{ex}-BTC-USDT': {'exchange': ex, 'symbol': 'BTC-USDT', 'candles': arr}})
    except Exception as e:
        if cfg.get('abort'):
            return {'aborted': type(e).__name__}
        raise
    m = r['metrics']
    out = {k: (round(float(m[k]), 8) if isinstance(m.get(k), (int, float)) else m.get(k)) for k in
           ('total', 'net_profit', 'fee', 'finishing_balance', 'starting_balance') if k in m}
    out['seen'] = {k: (v if not isinstance(v, float) else round(v, 8)) for k, v in seen.items()}
    out['args_unmodified'] = bool(np.array_equal(arr, keep))
    return out

seq = json.loads(sys.argv[1])
res = None
for cfg in seq:
    res = session(cfg)
print('RESULT ' + json.dumps(res, default=str))
'''


def run(seq):
    env = dict(os.environ)
    env.pop('PYTEST_CURRENT_TEST', None)
    env['PYTHONPATH'] = os.environ.get('PYVC_REPO', '/repo')
    p = subprocess.run([sys.executable, '-W', 'ignore', '-c', SCRIPT, json.dumps(seq)], capture_output=True, text=True, env=env,
                       timeout=600)
    for line in p.stdout.splitlines():
        if line.startswith('RESULT '):
            return json.loads(line[7:])
    return {'error': p.stderr[-1500:]}


SCENARIOS = {
    'memo': ([{'exchange': 'Sandbox', 'fee': 0.001, 'leverage': 2}], {'exchange': 'Sandbox', 'fee': 0.0, 'leverage': 5}),
    'drivers': ([{'exchange': 'Sandbox', 'fee': 0.0}], {'exchange': 'Bybit USDT Perpetual', 'fee': 0.0}),
    'vars': ([{'exchange': 'Sandbox'}], {'exchange': 'Sandbox'}),
    'warmup': ([{'exchange': 'Sandbox', 'warmup': 50}], {'exchange': 'Sandbox', 'warmup': 0, 'sma': 60}),
    'spot-then-futures': ([{'exchange': 'Sandbox', 'type': 'spot'}], {'exchange': 'Sandbox', 'type': 'futures', 'leverage': 3}),
}


def scenario(name):
    earlier, probe = SCENARIOS[name]
    fresh = run([probe])
    after = run(earlier + [probe])
    if 'error' in fresh or 'error' in after:
        return None, f'replay error: {fresh.get("error") or after.get("error")}'
    if fresh != after:
        diff = {k: (fresh.get(k), after.get(k)) for k in set(fresh) | set(after) if fresh.get(k) != after.get(k)}
        return (f'probe {probe} after earlier session(s) {earlier} differs from the same call in a fresh process: '
                f'{diff} (fresh, after)'), None
    if not fresh.get('args_unmodified', True):
        return 'the candles argument was modified by the call', None
    return None, None


FRESH_SCRIPT = r'''
import os, sys, json
os.environ.pop('PYTEST_CURRENT_TEST', None)
import warnings; warnings.filterwarnings('ignore')
import numpy as np
from jesse import research
from jesse.strategies import Strategy
TS0 = 1609459200000

class S(Strategy):
    def should_long(self): return False
    def should_short(self): return False
    def should_cancel_entry(self): return True
    def go_long(self): pass
    def go_short(self): pass

def call():
    rows = np.array([[TS0 + i * 60000, 100, 100, 100, 100, 10] for i in range(30)], dtype=float)
    cfg = {'starting_balance': 10000, 'fee': 0, 'type': 'futures', 'futures_leverage': 2, 'futures_leverage_mode': 'cross',
           'exchange': 'Sandbox', 'warm_up_candles': 0}
    return research.backtest(cfg, [{'exchange': 'Sandbox', 'strategy': S, 'symbol': 'BTC-USDT', 'timeframe': '1m'}], [],
                             {'Sandbox-BTC-USDT': {'exchange': 'Sandbox', 'symbol': 'BTC-USDT', 'candles': rows}})
r1 = call()
first = dict(r1['metrics'])
r1['metrics']['label'] = 'edited by the first caller'
r2 = call()
print('RESULT ' + json.dumps({'same_object': r1['metrics'] is r2['metrics'], 'first': first, 'second': r2['metrics']}, default=str))
'''


def result_fresh():
    env = dict(os.environ)
    env.pop('PYTEST_CURRENT_TEST', None)
    env['PYTHONPATH'] = os.environ.get('PYVC_REPO', '/repo')
    p = subprocess.run([sys.executable, '-W', 'ignore', '-c', FRESH_SCRIPT], capture_output=True, text=True, env=env, timeout=600)
    for line in p.stdout.splitlines():
        if line.startswith('RESULT '):
            r = json.loads(line[7:])
            if r['same_object'] or r['first'] != r['second']:
                return (f'two equal calls (no trade closed): the second result is {r["second"]} after the first caller edited the dict it was '
                        f'handed ({r["first"]} at first); same object: {r["same_object"]}'), None
            return None, None
    return None, p.stderr[-1200:]


def replay(pl):
    ob = pl['obligation']
    if ob.startswith('result'):
        d, err = result_fresh()
        if err:
            return {'confirmed': False, 'error': err}
        return {'confirmed': bool(d), 'detail': d or 'equal calls return equal, unshared results'}
    # the recorded finding (exchange-driver table frozen at the first session) is replayed by replay_finding only
    order = ['memo', 'vars', 'spot-then-futures', 'warmup']
    if ob.startswith('drivers'):
        order = ['drivers']
    elif ob.startswith('store-reset'):
        order = ['vars', 'spot-then-futures']
    elif ob.startswith('set_config') or ob.startswith('get_config') or ob.startswith('reset_config'):
        order = ['memo', 'spot-then-futures', 'warmup']
    for name in order:
        d, err = scenario(name)
        if err:
            return {'confirmed': False, 'error': err}
        if d:
            return {'confirmed': True, 'detail': d}
    return {'confirmed': False, 'detail': f'probe results identical to a fresh process for scenarios {order}'}


def replay_finding(entry):
    d, err = scenario(entry.get('witness', {}).get('scenario', 'drivers'))
    if err:
        return {'confirmed': False, 'error': err}
    return {'confirmed': bool(d), 'detail': d}
