"""Native replay for C11: sequences of isolated backtests in ONE process (production code path: no pytest marker) compared
with the probe call in a fresh process."""
import json
import os
import subprocess
import sys

SCRIPT = r'''
import os, sys, json
os.environ.pop('PYTEST_CURRENT_TEST', None)
import warnings; warnings.filterwarnings('ignore')
import numpy as np
from jesse import research
from jesse.strategies import Strategy
import jesse.helpers as jh
assert not jh.is_unit_testing()
TS0 = 1609459200000
seen = {}
DATA_ROUTES = []
CANDLES = {}

class S(Strategy):
    def should_long(self): return self.index == 2
    def should_short(self): return False
    def should_cancel_entry(self): return True
    def go_long(self):
        qty = 2
        self.buy = qty, self.price
        if not self.is_spot_trading:
            self.take_profit = qty, self.price * 1.01
            self.stop_loss = qty, self.price * 0.97
    def on_open_position(self, order):
        if self.is_spot_trading:
            self.take_profit = self.position.qty, self.price * 1.01
            self.stop_loss = self.position.qty, self.price * 0.97
    def go_short(self): pass
    sma_period = None
    def before(self):
        if self.sma_period and self.index == 70:
            import jesse.indicators as ta
            seen['sma'] = round(float(ta.sma(self.candles, self.sma_period)), 8)
        if self.index == 0:
            seen['rows_at_start'] = len(self.candles)
            seen['first_close'] = round(float(self.candles[0][2]), 8)
            seen['shared'] = dict(self.shared_vars)
            seen['leverage'] = self.leverage
            seen['fee_rate'] = self.fee_rate
        self.shared_vars['touched'] = self.shared_vars.get('touched', 0) + 1
        if self.read_tf and self.index >= 1:
            seen['rows_' + self.read_tf] = len(self.get_candles(self.exchange, self.symbol, self.read_tf))
    read_tf = None
    abort_at = None
    def after(self):
        if self.abort_at is not None and self.index == self.abort_at:
            raise RuntimeError('strategy failure part-way through the session')

def candles(n=90):
    rows = []
    p = 100.0
    for i in range(n):
        o = p * (1.001 if i % 7 == 3 else 1.0); c = o * (1.004 if i % 9 < 6 else 0.997)      # some opens jump away from the previous close
        rows.append([TS0 + i * 60000, o, c, max(o, c) * 1.0005, min(o, c) * 0.9995, 10])
        p = c
    return np.array(rows)

def session(cfg):
    c = {'starting_balance': cfg.get('balance', 10000), 'fee': cfg.get('fee', 0), 'type': cfg.get('type', 'futures'),
         'futures_leverage': cfg.get('leverage', 2), 'futures_leverage_mode': 'cross', 'exchange': cfg.get('exchange', 'Sandbox'),
         'warm_up_candles': cfg.get('warmup', 0)}
    ex = c['exchange']
    S.sma_period = cfg.get('sma')
    S.read_tf = cfg.get('data_tf')
    S.abort_at = cfg.get('abort_at')
    routes = [{'exchange': ex, 'strategy': S, 'symbol': 'BTC-USDT', 'timeframe': cfg.get('timeframe', '1m')}]
    if cfg.get('data_tf'):
        # one list object handed to every session of the process, as a caller looping over configurations does
        if not DATA_ROUTES:
            DATA_ROUTES.append({'exchange': ex, 'symbol': 'BTC-USDT', 'timeframe': cfg['data_tf']})
        data_routes = DATA_ROUTES
    else:
        data_routes = []
    keep_dr = [dict(r_) for r_ in data_routes]
    arr = candles()
    warm = None
    if cfg.get('warm_rows'):
        # explicit warm-up candles: the first rows of a longer series (the same first minute whatever their number)
        full = candles(90 + cfg['warm_rows'])
        full[:, 0] -= 0        # timestamps start at TS0 for every size: sessions with other sizes share the first warm-up minute
        warm, arr = full[:cfg['warm_rows']].copy(), full[cfg['warm_rows']:].copy()
    if cfg.get('scale'):
        arr[:, 1:5] *= cfg['scale']
    keep = arr.copy()
    seen.clear()
    cd = {f'{ex}-BTC-USDT': {'exchange': ex, 'symbol': 'BTC-USDT', 'candles': arr}}
    if cfg.get('shared_candles'):
        # the caller keeps ONE candles dict and refreshes its content between calls
        CANDLES.clear()
        CANDLES.update(cd)
        cd = CANDLES
    try:
        if warm is not None:
            r = research.backtest(c, routes, data_routes, cd, warmup_candles={f'{ex}-BTC-USDT': {'exchange': ex, 'symbol': 'BTC-USDT', 'candles': warm}},
                                  generate_logs=bool(cfg.get('logs')))
        else:
            r = research.backtest(c, routes, data_routes, cd, generate_logs=bool(cfg.get('logs')))
    except Exception as e:
        if cfg.get('abort'):
            return {'aborted': type(e).__name__}
        raise
    m = r['metrics']
    out = {k: (round(float(m[k]), 8) if isinstance(m.get(k), (int, float)) else m.get(k)) for k in
           ('total', 'net_profit', 'fee', 'finishing_balance', 'starting_balance') if k in m}
    out['logs'] = r.get('logs') if not cfg.get('logs') else 'requested'
    out['result_keys'] = sorted(r.keys())
    out['seen'] = {k: (v if not isinstance(v, float) else round(v, 8)) for k, v in seen.items()}
    out['args_unmodified'] = bool(np.array_equal(arr, keep)) and [dict(r_) for r_ in data_routes] == keep_dr
    return out

seq = json.loads(sys.argv[1])
res = None
for cfg in seq:
    res = session(cfg)
print('RESULT ' + json.dumps(res, default=str))
'''


def run(seq):
    env = dict(os.environ)
    env.pop('PYTEST_CURRENT_TEST', None)
    env['PYTHONPATH'] = os.environ.get('PYVC_REPO', '/repo')
    import tempfile, shutil
    scratch = tempfile.mkdtemp(prefix='c11_')        # sessions may write storage/ files relative to the working directory
    try:
        p = subprocess.run([sys.executable, '-W', 'ignore', '-c', SCRIPT, json.dumps(seq)], capture_output=True, text=True, env=env,
                           timeout=600, cwd=scratch)
    finally:
        shutil.rmtree(scratch, ignore_errors=True)
    for line in p.stdout.splitlines():
        if line.startswith('RESULT '):
            return json.loads(line[7:])
    return {'error': p.stderr[-1500:]}


SCENARIOS = {
    'memo': ([{'exchange': 'Sandbox', 'fee': 0.001, 'leverage': 2}], {'exchange': 'Sandbox', 'fee': 0.0, 'leverage': 5}),
    'drivers': ([{'exchange': 'Sandbox', 'fee': 0.0}], {'exchange': 'Bybit USDT Perpetual', 'fee': 0.0}),
    'vars': ([{'exchange': 'Sandbox'}], {'exchange': 'Sandbox'}),
    'warmup': ([{'exchange': 'Sandbox', 'warmup': 50}], {'exchange': 'Sandbox', 'warmup': 0, 'sma': 60}),
    # an earlier session on a 5m route aborts part-way (after its entry order was submitted, before it was executed); the probe
    # reads a 15m data route through a data-routes list that the caller reuses
    'aborted-then-other-timeframes': ([{'exchange': 'Sandbox', 'timeframe': '5m', 'abort_at': 2, 'abort': True}],
                                      {'exchange': 'Sandbox', 'timeframe': '5m', 'data_tf': '15m'}),
    'same-data-routes-twice': ([{'exchange': 'Sandbox', 'timeframe': '5m', 'data_tf': '15m'}], {'exchange': 'Sandbox', 'timeframe': '5m', 'data_tf': '15m'}),
    'aborted-with-a-pending-market-order': ([{'exchange': 'Sandbox', 'abort_at': 2, 'abort': True}], {'exchange': 'Sandbox'}),
    # the same candles dict object, refreshed with other prices between the calls
    'same-candles-object-new-content': ([{'exchange': 'Sandbox', 'shared_candles': True}], {'exchange': 'Sandbox', 'shared_candles': True, 'scale': 1.5}),
    # an earlier session that asked for its log file
    'logs-then-plain': ([{'exchange': 'Sandbox', 'logs': True}], {'exchange': 'Sandbox'}),
    # explicit warm-up candles of another size (same first minute) in an earlier session, 5m route
    'explicit-warm-up-of-another-size': ([{'exchange': 'Sandbox', 'timeframe': '5m', 'warm_rows': 25, 'warmup': 25}],
                                         {'exchange': 'Sandbox', 'timeframe': '5m', 'warm_rows': 45, 'warmup': 45}),
    'spot-then-futures': ([{'exchange': 'Sandbox', 'type': 'spot'}], {'exchange': 'Sandbox', 'type': 'futures', 'leverage': 3}),
}


def scenario(name):
    earlier, probe = SCENARIOS[name]
    fresh = run([probe])
    after = run(earlier + [probe])
    if 'error' in fresh or 'error' in after:
        return None, f'replay error: {fresh.get("error") or after.get("error")}'
    if fresh != after:
        diff = {k: (fresh.get(k), after.get(k)) for k in set(fresh) | set(after) if fresh.get(k) != after.get(k)}
        return (f'probe {probe} after earlier session(s) {earlier} differs from the same call in a fresh process: '
                f'{diff} (fresh, after)'), None
    if not fresh.get('args_unmodified', True):
        return 'the candles argument was modified by the call', None
    return None, None


FRESH_SCRIPT = r'''
import os, sys, json
os.environ.pop('PYTEST_CURRENT_TEST', None)
import warnings; warnings.filterwarnings('ignore')
import numpy as np
from jesse import research
from jesse.strategies import Strategy
TS0 = 1609459200000

class S(Strategy):
    def should_long(self): return False
    def should_short(self): return False
    def should_cancel_entry(self): return True
    def go_long(self): pass
    def go_short(self): pass

def call():
    rows = np.array([[TS0 + i * 60000, 100, 100, 100, 100, 10] for i in range(30)], dtype=float)
    cfg = {'starting_balance': 10000, 'fee': 0, 'type': 'futures', 'futures_leverage': 2, 'futures_leverage_mode': 'cross',
           'exchange': 'Sandbox', 'warm_up_candles': 0}
    return research.backtest(cfg, [{'exchange': 'Sandbox', 'strategy': S, 'symbol': 'BTC-USDT', 'timeframe': '1m'}], [],
                             {'Sandbox-BTC-USDT': {'exchange': 'Sandbox', 'symbol': 'BTC-USDT', 'candles': rows}})
r1 = call()
first = dict(r1['metrics'])
r1['metrics']['label'] = 'edited by the first caller'
r2 = call()
print('RESULT ' + json.dumps({'same_object': r1['metrics'] is r2['metrics'], 'first': first, 'second': r2['metrics']}, default=str))
'''


def result_fresh():
    env = dict(os.environ)
    env.pop('PYTEST_CURRENT_TEST', None)
    env['PYTHONPATH'] = os.environ.get('PYVC_REPO', '/repo')
    p = subprocess.run([sys.executable, '-W', 'ignore', '-c', FRESH_SCRIPT], capture_output=True, text=True, env=env, timeout=600)
    for line in p.stdout.splitlines():
        if line.startswith('RESULT '):
            r = json.loads(line[7:])
            if r['same_object'] or r['first'] != r['second']:
                return (f'two equal calls (no trade closed): the second result is {r["second"]} after the first caller edited the dict it was '
                        f'handed ({r["first"]} at first); same object: {r["same_object"]}'), None
            return None, None
    return None, p.stderr[-1200:]


def replay(pl):
    ob = pl['obligation']
    if ob.startswith('result'):
        d, err = result_fresh()
        if err:
            return {'confirmed': False, 'error': err}
        return {'confirmed': bool(d), 'detail': d or 'equal calls return equal, unshared results'}
    # the recorded finding (exchange-driver table frozen at the first session) is replayed by replay_finding only
    order = ['memo', 'vars', 'spot-then-futures', 'warmup', 'aborted-then-other-timeframes', 'same-data-routes-twice', 'aborted-with-a-pending-market-order', 'same-candles-object-new-content', 'logs-then-plain', 'explicit-warm-up-of-another-size']
    if ob.startswith('drivers'):
        order = ['drivers']
    elif ob.startswith('store-reset'):
        order = ['vars', 'spot-then-futures', 'aborted-with-a-pending-market-order', 'aborted-then-other-timeframes']
    elif ob.startswith('set_config') or ob.startswith('get_config') or ob.startswith('reset_config'):
        order = ['memo', 'spot-then-futures', 'warmup']
    for name in order:
        d, err = scenario(name)
        if err:
            return {'confirmed': False, 'error': err}
        if d:
            return {'confirmed': True, 'detail': d}
    return {'confirmed': False, 'detail': f'probe results identical to a fresh process for scenarios {order}'}


def replay_finding(entry):
    d, err = scenario(entry.get('witness', {}).get('scenario', 'drivers'))
    if err:
        return {'confirmed': False, 'error': err}
    return {'confirmed': bool(d), 'detail': d}
