"""Native replay for C08: run the real split_candle / _sort_execution_orders on the solver's
counterexample and evaluate the same sidecar clauses."""
import random
from types import SimpleNamespace
import numpy as np
import contracts.C08 as K


def _split_check(c, p):
    from jesse.services.candle import split_candle
    env0 = {'c': c, 'p': p}
    if not all(eval(r, {}, env0) for r in K.SPLIT_REQUIRES):
        return None
    try:
        r = split_candle(c.copy(), p)
    except Exception as ex:
        return f'raised {type(ex).__name__}: {ex}'
    if not (isinstance(r, tuple) and len(r) == 2):
        return f'returned {r!r} instead of a pair'
    e, l = r
    env = {'c': c, 'p': p, 'e': e, 'l': l, 'max': max, 'min': min}
    bad = [n for n, t in K.SPLIT_ENSURES.items() if not eval(t, {}, env)]
    if bad:
        return f'clauses {bad} fail: earlier={e.tolist()} later={l.tolist()}'
    return None


def _sort_check(c, prices):
    from jesse.modes.backtest_mode import _sort_execution_orders
    orders = [SimpleNamespace(price=q, id=j) for j, q in enumerate(prices)]
    if not all(eval(r, {}, {'c': c}) for r in K.SORT_REQUIRES):
        return None
    if not all(eval(K.SORT_ORDER_REQUIRES, {}, {'c': c, 'q': q}) for q in prices):
        return None
    try:
        res = _sort_execution_orders(list(orders), c[None, :])
    except Exception as ex:
        return f'raised {type(ex).__name__}: {ex}'
    first = {}
    for pos, o in enumerate(res):
        first.setdefault(o.id, pos)
    if any(o.id not in first for o in orders):
        return f'candidate dropped: result ids {[o.id for o in res]}'
    for a in orders:
        for b in orders:
            if a is not b and K.path_time(c, a.price) < K.path_time(c, b.price) and first[a.id] > first[b.id]:
                return (f'order at {a.price} is reached first on the path (t={K.path_time(c, a.price)}) but is tried after '
                        f'the order at {b.price} (t={K.path_time(c, b.price)}); result prices {[o.price for o in res]}')
    return None


def replay(pl):
    m = pl['m']
    ob = pl['obligation']
    rng = random.Random(pl.get('seed', 0))
    models = [m] + pl.get('others', [])
    if ob.startswith('split_candle'):
        def run(mm):
            c = np.array([float(mm.get(f'c{i}', 0)) for i in range(6)])
            return c, float(mm.get('p', 0))
        for mm in models:
            c, p = run(mm)
            d = _split_check(c, p)
            if d:
                return {'confirmed': True, 'detail': d, 'inputs': {'candle': c.tolist(), 'price': p}}
        # seeded search on a small lattice around the model (ties matter)
        for _ in range(4000):
            vals = sorted(rng.choice([1.0, 2.0, 3.0, 4.0, 5.0]) for _ in range(4))
            l, h = vals[0], vals[3]
            o, cl = rng.choice(vals), rng.choice(vals)
            p = rng.choice([l, h, o, cl, (l + h) / 2, (o + cl) / 2, (l + o) / 2, (h + o) / 2, (l + cl) / 2, (h + cl) / 2])
            c = np.array([1000.0, o, cl, h, l, 7.0])
            d = _split_check(c, p)
            if d:
                return {'confirmed': True, 'detail': d, 'inputs': {'candle': c.tolist(), 'price': p}}
        return {'confirmed': False, 'detail': 'real split_candle satisfies every clause on the model and on 4000 lattice inputs'}
    if ob.startswith('sort'):
        for mm in models:
            c = np.array([float(mm.get(f'c{i}', 0)) for i in range(6)])
            prices = [float(mm[k]) for k in sorted(mm) if k.startswith('q') and k[1:].isdigit()]
            d = _sort_check(c, prices)
            if d:
                return {'confirmed': True, 'detail': d, 'inputs': {'candle': c.tolist(), 'prices': prices}}
        for _ in range(4000):
            vals = sorted(rng.choice([1.0, 2.0, 3.0, 4.0, 5.0, 6.0]) for _ in range(4))
            l, h = vals[0], vals[3]
            c = np.array([1000.0, rng.choice(vals), rng.choice(vals), h, l, 7.0])
            n = rng.randint(2, 5)
            prices = [rng.choice([l, h, c[1], c[2], (l + h) / 2, l + (h - l) * rng.random()]) for _ in range(n)]
            d = _sort_check(c, prices)
            if d:
                return {'confirmed': True, 'detail': d, 'inputs': {'candle': c.tolist(), 'prices': prices}}
        return {'confirmed': False, 'detail': 'real _sort_execution_orders respects the path order on the model and on 4000 inputs'}
    return {'confirmed': False, 'detail': f'no native replay for obligation {ob}'}


def replay_finding(entry):
    return {'confirmed': False, 'detail': 'no findings recorded for C08'}
