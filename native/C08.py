"""Native replay for C08: run the real split_candle / _sort_execution_orders on the solver's
counterexample and evaluate the same sidecar clauses."""
import random
from types import SimpleNamespace
import numpy as np
import contracts.C08 as K


def _split_check(c, p):
    from jesse.services.candle import split_candle
    env0 = {'c': c, 'p': p}
    if not all(eval(r, {}, env0) for r in K.SPLIT_REQUIRES):
        return None
    try:
        r = split_candle(c.copy(), p)
    except Exception as ex:
        return f'raised {type(ex).__name__}: {ex}'
    if not (isinstance(r, tuple) and len(r) == 2):
        return f'returned {r!r} instead of a pair'
    e, l = r
    env = {'c': c, 'p': p, 'e': e, 'l': l, 'max': max, 'min': min}
    bad = [n for n, t in K.SPLIT_ENSURES.items() if not eval(t, {}, env)]
    if bad:
        return f'clauses {bad} fail: earlier={e.tolist()} later={l.tolist()}'
    return None


def _sort_check(c, prices):
    from jesse.modes.backtest_mode import _sort_execution_orders
    orders = [SimpleNamespace(price=q, id=j) for j, q in enumerate(prices)]
    if not all(eval(r, {}, {'c': c}) for r in K.SORT_REQUIRES):
        return None
    if not all(eval(K.SORT_ORDER_REQUIRES, {}, {'c': c, 'q': q}) for q in prices):
        return None
    try:
        res = _sort_execution_orders(list(orders), c[None, :])
    except Exception as ex:
        return f'raised {type(ex).__name__}: {ex}'
    first = {}
    for pos, o in enumerate(res):
        first.setdefault(o.id, pos)
    if any(o.id not in first for o in orders):
        return f'candidate dropped: result ids {[o.id for o in res]}'
    for a in orders:
        for b in orders:
            if a is not b and K.path_time(c, a.price) < K.path_time(c, b.price) and first[a.id] > first[b.id]:
                return (f'order at {a.price} is reached first on the path (t={K.path_time(c, a.price)}) but is tried after '
                        f'the order at {b.price} (t={K.path_time(c, b.price)}); result prices {[o.price for o in res]}')
    return None


TS0 = 1609459200000


def _fills(rows, strategy_cls, tf='1m', fast=False):
    """run a real 1m step-mode backtest; returns [(minute index, price)] of every fill in execution order"""
    from jesse import research
    from jesse.models import Order
    from jesse.store import store
    fills = []
    orig = Order.execute

    def execute(self, silent=False):
        was = self.status
        r = orig(self, silent)
        if was != self.status and self.is_executed:
            fills.append((int((store.app.time - 60000 - TS0) // 60000), float(self.price)))
        return r
    Order.execute = execute
    try:
        cfg = {'starting_balance': 100000, 'fee': 0, 'type': 'futures', 'futures_leverage': 2, 'futures_leverage_mode': 'cross',
               'exchange': 'Sandbox', 'warm_up_candles': 0}
        research.backtest(cfg, [{'exchange': 'Sandbox', 'strategy': strategy_cls, 'symbol': 'BTC-USDT', 'timeframe': tf}], [],
                          {'Sandbox-BTC-USDT': {'exchange': 'Sandbox', 'symbol': 'BTC-USDT', 'candles': np.array(rows, dtype=float)}}, fast_mode=fast)
    finally:
        Order.execute = orig
    return fills


def path_scenarios():
    from jesse.strategies import Strategy

    def rows_of(ohlc_list):
        return [[TS0 + i * 60000, o, c, h_, l, 10.0] for i, (o, h_, l, c) in enumerate(ohlc_list)]

    class Base(Strategy):
        def should_long(self): return self.index == 0
        def should_short(self): return False
        def should_cancel_entry(self): return False
        def go_short(self): pass
    # (1) three resting orders whose creation order differs from the path order: rising candle o=100 h=120 l=90 c=110
    class S1(Base):
        def go_long(self): self.buy = [(1, 95.0), (1, 115.0), (1, 105.0)]
    f = _fills(rows_of([(100, 100, 100, 100), (100, 120, 90, 110), (110, 110, 110, 110)]), S1)
    got = [p for m, p in f if m == 1]
    if got != [95.0, 105.0, 115.0]:
        return (f'rising minute o=100 h=120 l=90 c=110 with buy orders created at 95, 115, 105: fills in that minute {got}, the path '
                f'open-low-high-close reaches them as [95.0, 105.0, 115.0]')
    # (2) a minute that opens below the previous close: its range is extended to the previous CLOSE, not to the previous high
    class S2(Base):
        def should_long(self): return self.index == 1
        def go_long(self): self.buy = (1, 106.0)
    f = _fills(rows_of([(100, 100, 100, 100), (100, 110, 90, 102), (95, 97, 92, 93), (93, 93, 93, 93)]), S2)
    if any(m == 2 for m, p in f):
        return ('minute 1 is o=100 h=110 l=90 c=102, minute 2 opens at 95 (h=97, l=92): a buy stop at 106 filled in minute 2 although the '
                'path from the previous close 102 down to 92 and up to 97 never reaches 106')
    # (3) two-level reaction chain: entry 2 @ 115, on open: stop 1 @ 112, on reduce: take-profit 1 @ 118; candle o=100 h=120 l=90 c=110
    class S3(Base):
        def go_long(self): self.buy = (2, 115.0)
        def on_open_position(self, order): self.stop_loss = (1, 112.0)
        def on_reduced_position(self, order): self.take_profit = (1, 118.0)
    f = _fills(rows_of([(100, 100, 100, 100), (100, 120, 90, 110), (110, 110, 110, 110)]), S3)
    got = [p for m, p in f if m == 1]
    if got != [115.0, 112.0]:
        return (f'minute o=100 h=120 l=90 c=110: entry at 115, reaction stop at 112, second reaction take-profit at 118: fills {got}; after the '
                f'stop at 112 (on the way down from 120) the rest of the path is 112 -> 110, so 118 is unreachable: expected [115.0, 112.0]')
    # (4) fast simulator, 5m route: an entry ladder declared farthest-first, swept by one falling minute inside a chunk
    class S4(Base):
        def go_long(self): self.buy = [(1, 97.0), (1, 98.0), (1, 99.0)]
    flat = [(100, 100, 100, 100)]
    f = _fills(rows_of(flat * 7 + [(100, 100, 95.5, 95.5)] + [(95.5, 95.5, 95.5, 95.5)] * 7), S4, tf='5m', fast=True)
    got = sorted(p for m, p in f if p in (97.0, 98.0, 99.0))
    if got != [97.0, 98.0, 99.0]:
        return (f'fast simulator, 5m route, buys declared at 97, 98, 99 and one falling minute 100 -> 95.5 inside the chunk: filled {got}; '
                f'the minute reaches all three prices')
    return None


def replay(pl):
    if pl['obligation'].startswith('protocol') or pl['obligation'].startswith('fixed-jump'):
        try:
            d = path_scenarios()
        except Exception as ex:
            import traceback
            return {'confirmed': False, 'error': f'{type(ex).__name__}: {ex}', 'stderr': traceback.format_exc()[-800:]}
        return {'confirmed': bool(d), 'detail': d or 'real backtests fill along the single continuous path in the probed scenarios'}
    m = pl['m']
    ob = pl['obligation']
    rng = random.Random(pl.get('seed', 0))
    models = [m] + pl.get('others', [])
    if ob.startswith('split_candle'):
        def run(mm):
            c = np.array([float(mm.get(f'c{i}', 0)) for i in range(6)])
            return c, float(mm.get('p', 0))
        for mm in models:
            c, p = run(mm)
            d = _split_check(c, p)
            if d:
                return {'confirmed': True, 'detail': d, 'inputs': {'candle': c.tolist(), 'price': p}}
        # seeded search on a small lattice around the model (ties matter)
        for _ in range(4000):
            vals = sorted(rng.choice([1.0, 2.0, 3.0, 4.0, 5.0]) for _ in range(4))
            l, h = vals[0], vals[3]
            o, cl = rng.choice(vals), rng.choice(vals)
            p = rng.choice([l, h, o, cl, (l + h) / 2, (o + cl) / 2, (l + o) / 2, (h + o) / 2, (l + cl) / 2, (h + cl) / 2])
            c = np.array([1000.0, o, cl, h, l, 7.0])
            d = _split_check(c, p)
            if d:
                return {'confirmed': True, 'detail': d, 'inputs': {'candle': c.tolist(), 'price': p}}
        return {'confirmed': False, 'detail': 'real split_candle satisfies every clause on the model and on 4000 lattice inputs'}
    if ob.startswith('sort'):
        for mm in models:
            c = np.array([float(mm.get(f'c{i}', 0)) for i in range(6)])
            prices = [float(mm[k]) for k in sorted(mm) if k.startswith('q') and k[1:].isdigit()]
            d = _sort_check(c, prices)
            if d:
                return {'confirmed': True, 'detail': d, 'inputs': {'candle': c.tolist(), 'prices': prices}}
        for _ in range(4000):
            vals = sorted(rng.choice([1.0, 2.0, 3.0, 4.0, 5.0, 6.0]) for _ in range(4))
            l, h = vals[0], vals[3]
            c = np.array([1000.0, rng.choice(vals), rng.choice(vals), h, l, 7.0])
            n = rng.randint(2, 5)
            prices = [rng.choice([l, h, c[1], c[2], (l + h) / 2, l + (h - l) * rng.random()]) for _ in range(n)]
            d = _sort_check(c, prices)
            if d:
                return {'confirmed': True, 'detail': d, 'inputs': {'candle': c.tolist(), 'prices': prices}}
        return {'confirmed': False, 'detail': 'real _sort_execution_orders respects the path order on the model and on 4000 inputs'}
    return {'confirmed': False, 'detail': f'no native replay for obligation {ob}'}


def replay_finding(entry):
    return {'confirmed': False, 'detail': 'no findings recorded for C08'}
