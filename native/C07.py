"""Native replay for C07: real candle store / aggregation helpers."""
import random
import numpy as np
import contracts.C07 as K

TS0 = 1609459200000


def mk(i, rng):
    o = 100 + rng.random() * 10
    c = o + rng.uniform(-2, 2)
    return np.array([TS0 + i * 60000, o, c, max(o, c) + rng.random(), min(o, c) - rng.random(), 1 + rng.random()])


def agg(w):
    w = np.array(w)
    return np.array(K.agg(w))


def store_session(tf):
    from native.world import session
    from jesse.routes import router
    from jesse.store import store
    from jesse.config import config
    w = session('futures', symbols=('BTC-USDT',), timeframe='1m')
    router.set_data_candles([{'exchange': 'Sandbox', 'symbol': 'BTC-USDT', 'timeframe': tf}]) if hasattr(router, 'set_data_candles') else None
    router.initiate([{'exchange': 'Sandbox', 'symbol': 'BTC-USDT', 'timeframe': '1m', 'strategy': router.routes[0].strategy_name}],
                    [{'exchange': 'Sandbox', 'symbol': 'BTC-USDT', 'timeframe': tf}])
    store.reset(True)
    store.candles.init_storage(500)
    return store


def get_candles_scenarios(tf, rng):
    from jesse.modes.backtest_mode import _update_all_routes_a_partial_candle
    cnt = K.MINUTES[tf]
    store = store_session(tf)
    ones = []
    for i in range(cnt * 2 + cnt - 1):
        c = mk(i, rng)
        ones.append(c)
        store.candles.add_candle(c, 'Sandbox', 'BTC-USDT', '1m', with_execution=False, with_generation=False)
        n = len(ones)
        if n % cnt == 0:
            from jesse.services.candle import generate_candle_from_one_minutes
            g = generate_candle_from_one_minutes(tf, np.array(ones[n - cnt:n]))
            store.candles.add_candle(g, 'Sandbox', 'BTC-USDT', tf, with_execution=False, with_generation=False)
        if n == cnt * 2 + 2 and cnt > 3:
            # a fill inside the window publishes a partial candle to every route timeframe
            _update_all_routes_a_partial_candle('Sandbox', 'BTC-USDT', c.copy())
        try:
            got = store.candles.get_candles('Sandbox', 'BTC-USDT', tf)
        except Exception as ex:
            return f'{n} stored 1m candles, timeframe {tf}: get_candles raised {type(ex).__name__}: {ex}'
        dif = n % cnt
        want_rows = n // cnt + (1 if dif else 0)
        if len(got) != want_rows:
            return f'{n} stored 1m candles, timeframe {tf}: {len(got)} candles returned, {want_rows} windows started'
        if dif:
            want = agg(ones[n - dif:n])
            if not np.allclose(got[-1], want):
                return (f'{n} stored 1m candles ({dif} in the forming {tf} window, partial candle published at minute {cnt * 2 + 2}): '
                        f'forming candle {got[-1].tolist()} != aggregation {want.tolist()}')
    return None


def agg_scenarios(rng):
    from jesse.services.candle import generate_candle_from_one_minutes
    for tf in ('3m', '5m', '15m', '1h'):
        cnt = K.MINUTES[tf]
        for n in (1, 2, cnt - 1, cnt):
            if n < 1:
                continue
            w = np.array([mk(i, rng) for i in range(n)])
            for forming in (True, False):
                try:
                    r = generate_candle_from_one_minutes(tf, w, forming)
                    raised = False
                except ValueError:
                    raised = True
                should = (not forming) and n != cnt
                if raised != should:
                    return f'generate_candle_from_one_minutes({tf}, {n} candles, forming={forming}) raised={raised}, expected raised={should}'
                if not raised and not np.allclose(r, agg(w)):
                    return f'generate_candle_from_one_minutes({tf}, {n} candles) = {r.tolist()} != aggregation {agg(w).tolist()}'
    return None


def backtest_windows(fast, route_tf='5m', data_tf='15m', n=200):
    """every higher-timeframe candle seen by a strategy equals agg of its 1m window (normal / fast simulator)"""
    from jesse import research
    from jesse.strategies import Strategy
    rng = random.Random(5)
    cnt = K.MINUTES[data_tf]
    closes = [100.0]
    for _ in range(n - 1):
        closes.append(closes[-1] * (1 + rng.uniform(-0.004, 0.004)))
    rows = []
    prev = closes[0]
    for i, c in enumerate(closes):
        rows.append([TS0 + i * 60000, prev, c, max(prev, c) * 1.0005, min(prev, c) * 0.9995, 5.0 + i % 7])
        prev = c
    arr = np.array(rows)
    bad = []
    calls = []

    class S(Strategy):
        def should_long(self): return False
        def should_short(self): return False
        def should_cancel_entry(self): return False
        def go_long(self): pass
        def go_short(self): pass

        def before(self):
            calls.append(self.index)
            c15 = self.get_candles('Sandbox', 'BTC-USDT', data_tf)
            c1 = self.get_candles('Sandbox', 'BTC-USDT', '1m')
            for j in range(len(c15)):
                w = c1[j * cnt:(j + 1) * cnt]
                if len(w) and not np.allclose(c15[j], np.array(K.agg(np.array(w)))):
                    bad.append((self.index, j, c15[j].tolist(), np.array(K.agg(np.array(w))).tolist()))
                    return
            if len(c15) != -(-len(c1) // cnt):
                bad.append((self.index, 'count', len(c15), len(c1)))
    cfg = {'starting_balance': 10000, 'fee': 0, 'type': 'futures', 'futures_leverage': 2, 'futures_leverage_mode': 'cross',
           'exchange': 'Sandbox', 'warm_up_candles': 0}
    research.backtest(cfg, [{'exchange': 'Sandbox', 'strategy': S, 'symbol': 'BTC-USDT', 'timeframe': route_tf}],
                      [{'exchange': 'Sandbox', 'symbol': 'BTC-USDT', 'timeframe': data_tf}],
                      {'Sandbox-BTC-USDT': {'exchange': 'Sandbox', 'symbol': 'BTC-USDT', 'candles': arr}}, fast_mode=fast)
    want_calls = n // K.MINUTES[route_tf]
    if not bad and len(calls) != want_calls:
        return (f'{"fast" if fast else "normal"} simulator, routes {route_tf} + {data_tf}, {n} minutes: the {route_tf} strategy was executed '
                f'{len(calls)} times, expected once per {route_tf} candle = {want_calls}')
    if bad:
        if bad[0][1] == 'count':
            return (f'{"fast" if fast else "normal"} simulator, routes {route_tf} + {data_tf}: at strategy step {bad[0][0]} the {data_tf} series has '
                    f'{bad[0][2]} candles although {-(-bad[0][3] // cnt)} windows have started ({bad[0][3]} minutes)')
        return (f'{"fast" if fast else "normal"} simulator, routes {route_tf} + {data_tf}: at strategy step {bad[0][0]} {data_tf} candle {bad[0][1]} = '
                f'{bad[0][2]} but aggregation = {bad[0][3]}')
    return None


def partial_fill_scenario():
    """a limit order filled inside the LAST minute of a 5m / 15m window: the series seen from the fill hook (and afterwards)
    must still be one candle per started window, each the aggregation of its minutes"""
    from jesse import research
    from jesse.strategies import Strategy
    for fill_minute in (29, 27, 44):
        n = 90
        rows = []
        for i in range(n):
            base = 100.0 + (i % 7) * 0.1
            low = 84.0 if i == fill_minute else base - 0.5
            rows.append([TS0 + i * 60000, base, base + 0.05, base + 0.6, low, 5.0 + i % 3])
        arr = np.array(rows)
        bad = []

        def check(self, where):
            c1 = self.get_candles('Sandbox', 'BTC-USDT', '1m')
            for tf, cnt in (('5m', 5), ('15m', 15)):
                c = self.get_candles('Sandbox', 'BTC-USDT', tf)
                if len(c) != -(-len(c1) // cnt):
                    bad.append(f'{where}: {tf} has {len(c)} candles although {-(-len(c1) // cnt)} windows have started ({len(c1)} minutes)')
                    return
                for j in range(len(c)):
                    w = c1[j * cnt:(j + 1) * cnt]
                    if not np.allclose(c[j], np.array(K.agg(np.array(w)))):
                        bad.append(f'{where}: {tf} candle {j} = {c[j].tolist()} but the aggregation of its minutes = {np.array(K.agg(np.array(w))).tolist()}')
                        return

        class S(Strategy):
            def should_long(self): return self.index == 0
            def should_short(self): return False
            def should_cancel_entry(self): return False
            def go_long(self): self.buy = 1, 85.0
            def go_short(self): pass

            def on_open_position(self, order):
                if not bad:
                    check(self, f'in on_open_position after a fill in minute {fill_minute}')

            def before(self):
                if not bad:
                    check(self, f'before() at step {self.index} (fill in minute {fill_minute})')
        cfg = {'starting_balance': 10000, 'fee': 0, 'type': 'futures', 'futures_leverage': 2, 'futures_leverage_mode': 'cross',
               'exchange': 'Sandbox', 'warm_up_candles': 0}
        for fast in (False, True):
            research.backtest(cfg, [{'exchange': 'Sandbox', 'strategy': S, 'symbol': 'BTC-USDT', 'timeframe': '5m'}],
                              [{'exchange': 'Sandbox', 'symbol': 'BTC-USDT', 'timeframe': '15m'}],
                              {'Sandbox-BTC-USDT': {'exchange': 'Sandbox', 'symbol': 'BTC-USDT', 'candles': arr.copy()}}, fast_mode=fast)
            if bad:
                return f'{"fast" if fast else "normal"} simulator, {bad[0]}'
    return None


def replay(pl):
    ob = pl['obligation']
    rng = random.Random(pl.get('seed', 0))
    d = None
    if ob.startswith('agg') or ob.startswith('chunk'):
        d = agg_scenarios(rng)
    elif ob.startswith('get_candles') or ob.startswith('forming') or ob.startswith('current') or ob.startswith('partial'):
        for tf in ('5m', '15m', '3m'):
            d = get_candles_scenarios(tf, rng)
            if d:
                break
        if not d and ob.startswith('partial'):
            try:
                d = partial_fill_scenario()
            except Exception as ex:
                d = f'backtest raised {type(ex).__name__}: {ex}'
    elif ob.startswith('min-step'):
        failing = (pl.get('info') or {}).get('failing') or []
        combos = [tuple(f[0]) for f in failing if isinstance(f, list) and f and isinstance(f[0], list) and len(f[0]) == 2] or [('30m', '45m')]
        try:
            for a, b in combos[:3]:
                if K.MINUTES[a] > 720 or K.MINUTES[b] > 720:
                    continue
                d = backtest_windows(True, a, b, n=4 * max(K.MINUTES[a], K.MINUTES[b]))
                if d:
                    break
        except Exception as ex:
            d = f'backtest raised {type(ex).__name__}: {ex}'
    else:
        try:
            d = backtest_windows(ob.startswith('fast')) or backtest_windows(not ob.startswith('fast'))
        except Exception as ex:
            d = f'backtest raised {type(ex).__name__}: {ex}'
    return {'confirmed': bool(d), 'detail': d or 'real code agrees with the aggregation on the probed scenarios'}


def replay_finding(entry):
    w = entry.get('witness', {})
    rng = random.Random(1)
    d = get_candles_scenarios(w.get('tf', '5m'), rng)
    if d and w.get('kind') == 'indexerror' and 'IndexError' not in d:
        d = None
    return {'confirmed': bool(d), 'detail': d}
