"""Native replay for C05: real orders in a real futures session."""
import random
from native.world import session


def _snapshot(w):
    ex = w['exchange']
    p = w['positions']['BTC-USDT']
    from jesse.store import store
    return (round(ex.wallet_balance, 9), round(ex.available_margin, 9), p.qty, p.entry_price, len(store.completed_trades.trades),
            tuple(len(t.orders) for t in store.completed_trades.tempt_trades.values()),
            tuple(len(t.buy_orders) + len(t.sell_orders) for t in store.completed_trades.tempt_trades.values()))


def _mk(side, kind, q, p, ro=False):
    from jesse.models import Order
    from jesse.store import store
    import jesse.helpers as jh
    o = Order({'id': jh.generate_unique_id(), 'symbol': 'BTC-USDT', 'exchange': 'Sandbox', 'side': side, 'type': kind,
               'reduce_only': ro, 'qty': jh.prepare_qty(q, side), 'price': p})
    store.orders.add_order(o)
    return o


def _snap2(w, o, kind):
    ex = w['exchange']
    base = (o.status, o.canceled_at, o.executed_at, o.qty, o.price)
    if kind == 'spot':
        return base + (tuple(sorted((k, round(v, 9)) for k, v in ex.assets.items())), w['positions']['BTC-USDT'].qty)
    return base + _snapshot(w) + (tuple(sorted((k, round(v, 9)) for k, v in ex.available_assets.items())),)


def lifecycle():
    import jesse.helpers as jh
    from jesse.store import store
    for kind in ('futures', 'spot'):
        for otype in ('LIMIT', 'STOP', 'MARKET'):
            for side in ('buy', 'sell'):
                for first, second in (('execute', 'execute'), ('execute', 'cancel'), ('cancel', 'cancel'), ('cancel', 'execute')):
                    w = session(kind, leverage=2, fee=0.001) if kind == 'futures' else session(kind, fee=0.001)
                    w['positions']['BTC-USDT'].current_price = 100.0
                    if kind == 'spot':
                        if side == 'sell':
                            b0 = _mk('buy', 'MARKET', 3.0, 100.0)
                            b0.execute()
                        price = 100.0 if otype == 'MARKET' else ((90.0 if otype == 'LIMIT' else 110.0) if side == 'buy' else (110.0 if otype == 'LIMIT' else 90.0))
                    else:
                        price = 100.0
                    o = _mk(side, otype, 1.5, price)
                    s0 = _snap2(w, o, kind)
                    store.app.time += 60000
                    getattr(o, first)()
                    s1 = _snap2(w, o, kind)
                    if first == 'execute' and not (s1 != s0 and o.is_executed):
                        return f'{kind}: execute of an active {otype} {side} order had no effect'
                    store.app.time += 60000
                    getattr(o, second)()
                    s2 = _snap2(w, o, kind)
                    if s2 != s1:
                        return (f'{kind}: {first}() then {second}() on the same {otype} {side} order changed the state a second time: '
                                f'{s1} -> {s2} (status, canceled_at, executed_at, qty, price, balances, position, trades)')
    return None


def registry(rng):
    from jesse.store import store
    for _ in range(300):
        w = session('futures', leverage=5)
        w['positions']['BTC-USDT'].current_price = 100.0
        orders = []
        for j in range(rng.randint(1, 5)):
            o = _mk(rng.choice(['buy', 'sell']), 'LIMIT', 0.1, 100.0)
            orders.append(o)
            act = rng.choice(['none', 'cancel', 'execute'])
            if act != 'none':
                getattr(o, act)()
        want = [o for o in orders if o.status == 'ACTIVE']
        if store.orders.count_active_orders('Sandbox', 'BTC-USDT') != len(want):
            return f'count_active_orders = {store.orders.count_active_orders("Sandbox", "BTC-USDT")} but {len(want)} submitted orders are not final'
        store.orders.update_active_orders('Sandbox', 'BTC-USDT')
        got = store.orders.get_active_orders('Sandbox', 'BTC-USDT')
        if [id(o) for o in got] != [id(o) for o in want]:
            return f'after update_active_orders the active list has statuses {[o.status for o in got]}, expected the {len(want)} ACTIVE ones'
    return None


def trade_record():
    from jesse.store import store
    for side, silent in (('buy', False), ('sell', False), ('buy', True), ('sell', True)):
        w = session('futures', leverage=5)
        w['positions']['BTC-USDT'].current_price = 100.0
        o = _mk(side, 'LIMIT', 0.7, 100.0)
        o.execute(silent=silent)
        trades = list(store.completed_trades.tempt_trades.values())
        holding = [t for t in trades if o in t.orders]
        if len(holding) != 1:
            return f'{side} order executed with silent={silent} is recorded in {len(holding)} trades (expected exactly one)'
        t = holding[0]
        nb, ns = len(t.buy_orders), len(t.sell_orders)
        if (nb, ns) != ((1, 0) if side == 'buy' else (0, 1)):
            return f'executed {side} order produced {nb} buy rows and {ns} sell rows'
    return None


def partial_then_executed():
    """a partial fill notification followed by the final execution: the order must be listed once in its trade"""
    from jesse.store import store
    for side in ('buy', 'sell'):
        w = session('futures', leverage=5)
        w['positions']['BTC-USDT'].current_price = 100.0
        o = _mk(side, 'LIMIT', 1.0, 100.0)
        o.filled_qty = 0.4 if side == 'buy' else -0.4
        o.execute_partially(silent=True)
        o.execute(silent=True)
        n = sum(1 for t in store.completed_trades.tempt_trades.values() for x in t.orders if x is o)
        if n != 1:
            return f'{side} order partially filled and then executed is listed {n} times in its trade (expected once)'
    return None


def resubmit_final():
    """resubmit() on a final order: refused, nothing changes"""
    from jesse.store import store
    for first in ('execute', 'cancel'):
        w = session('futures', leverage=5)
        w['positions']['BTC-USDT'].current_price = 100.0
        o = _mk('buy', 'LIMIT', 1.0, 100.0)
        getattr(o, first)()
        s1 = (o.status, o.id) + _snapshot(w)
        try:
            o.resubmit()
        except Exception:
            pass
        s2 = (o.status, o.id) + _snapshot(w)
        if s2 != s1:
            return f'resubmit() after {first}() changed a final order: {s1} -> {s2} (status, id, balances, position, trades)'
        o.execute()
        s3 = (o.status, o.id) + _snapshot(w)
        if s3 != s1:
            return f'resubmit() then execute() after {first}() changed the account a second time: {s1} -> {s3}'
    return None


def pending():
    from jesse.store import store
    from jesse.exchanges import Sandbox
    w = session('futures', leverage=5)
    w['positions']['BTC-USDT'].current_price = 100.0
    sb = Sandbox('Sandbox')
    a = sb.market_order('BTC-USDT', 0.5, 100.0, 'buy', False)
    b = sb.market_order('BTC-USDT', 0.25, 100.0, 'buy', False)
    if store.orders.to_execute != [a, b]:
        return 'market orders are not queued for the same step'
    store.orders.execute_pending_market_orders()
    if not (a.is_executed and b.is_executed and store.orders.to_execute == []):
        return f'after the flush: statuses {a.status},{b.status}, queue length {len(store.orders.to_execute)}'
    if abs(w['positions']['BTC-USDT'].qty - 0.75) > 1e-9:
        return f'position {w["positions"]["BTC-USDT"].qty} after two market buys of 0.5 and 0.25'
    return None


def replay(pl):
    ob = pl['obligation']
    rng = random.Random(pl.get('seed', 0))
    if ob.startswith('execute') or ob.startswith('cancel'):
        d = lifecycle() or trade_record()
    elif ob.startswith('registry'):
        d = registry(rng)
    elif ob.startswith('trade-record.partial'):
        d = partial_then_executed()
    elif ob.startswith('resubmit'):
        d = resubmit_final()
    elif ob.startswith('trade-record'):
        d = trade_record()
    elif ob.startswith('pending') or ob.startswith('market-order'):
        d = pending()
    elif ob.startswith('status'):
        return {'confirmed': True, 'detail': f'static scan: {pl.get("info")}'}
    else:
        d = None
    return {'confirmed': bool(d), 'detail': d or 'real objects behave as the contract says'}


def replay_finding(entry):
    return {'confirmed': False, 'detail': 'no findings recorded for C05'}
