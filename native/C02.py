"""Native replay for C02: real backtests (normal and fast simulator); every order is checked against the candles."""
import random
import numpy as np

TS0 = 1609459200000


def run(rows, orders_at, fast, tf='5m', cancel_at=None):
    """orders_at: {strategy index: [(side, qty, price)]} resting LIMIT/STOP entries via the broker; returns order records"""
    from jesse import research
    from jesse.strategies import Strategy
    from jesse.store import store
    rec = []

    class S(Strategy):
        def should_long(self): return self.index in orders_at
        def should_short(self): return False
        def should_cancel_entry(self): return False

        def go_long(self):
            # declarative multi-point entry: the strategy layer keeps every row resting until it fills
            self.buy = [(q, p) for side, q, p in orders_at[self.index]]

        def go_short(self): pass

        def after(self):
            if self.index in orders_at and not rec:
                for o in store.orders.get_orders('Sandbox', 'BTC-USDT'):
                    rec.append({'order': o, 'submitted': store.app.time})

        def before_terminate(self):
            for r in rec:
                o = r['order']
                r.update(status=o.status, executed_at=o.executed_at, price=o.price, side=o.side)
    cfg = {'starting_balance': 1000000, 'fee': 0, 'type': 'futures', 'futures_leverage': 10, 'futures_leverage_mode': 'cross',
           'exchange': 'Sandbox', 'warm_up_candles': 0}
    research.backtest(cfg, [{'exchange': 'Sandbox', 'strategy': S, 'symbol': 'BTC-USDT', 'timeframe': tf}], [],
                      {'Sandbox-BTC-USDT': {'exchange': 'Sandbox', 'symbol': 'BTC-USDT', 'candles': np.array(rows, dtype=float)}},
                      fast_mode=fast)
    return rec


def check_fills(rows, rec, what):
    """each order: filled in the first minute (from submission on) whose range extended to the previous close holds its price;
    never left active although such a minute exists"""
    rows = np.array(rows, dtype=float)
    for r in rec:
        p = r['price']
        first = None
        for j in range(len(rows)):
            if rows[j][0] + 60000 <= r['submitted']:
                continue
            lo, hi = rows[j][4], rows[j][3]
            if j > 0:
                lo, hi = min(lo, rows[j - 1][2]), max(hi, rows[j - 1][2])
            if lo <= p <= hi:
                first = j
                break
        if first is None:
            if r['status'] == 'EXECUTED':
                return f'{what}: order at {p} was filled although no minute after its submission contains its price'
            continue
        if r['status'] != 'EXECUTED':
            return (f'{what}: {r["side"]} order at {p} is still {r["status"]} at the end although minute {first} '
                    f'(range extended to the previous close {min(rows[first][4], rows[first - 1][2]) if first else rows[first][4]}..'
                    f'{max(rows[first][3], rows[first - 1][2]) if first else rows[first][3]}) contains its price')
    return None


def gap_scenario():
    rows = []
    px = [(100, 100, 100.5, 99.5)] * 5 + [(100, 99.5, 100.5, 99.0), (94, 93.5, 94.5, 93.0), (93.5, 93.6, 93.8, 93.3),
                                           (93.6, 93.7, 93.9, 93.4), (93.7, 93.8, 94.0, 93.5)] + [(93.8, 93.8, 94.0, 93.6)] * 5
    for i, (o, c, h, l) in enumerate(px):
        rows.append([TS0 + i * 60000, o, c, h, l, 10])
    orders = {0: [('buy', 1, 95.0), ('buy', 1, 93.2)]}
    for fast in (True, False):
        rec = run(rows, orders, fast)
        d = check_fills(rows, rec, f'{"fast" if fast else "normal"} simulator, 5m route, buy limits at 95 and 93.2, gap 99.5 -> 94 inside the chunk')
        if d:
            return d
    return None


def random_scenarios(rng, fast, gapless=False):
    for _ in range(12):
        n = 30
        rows = []
        prev = 100.0
        for i in range(n):
            o = prev if gapless else prev * (1 + rng.choice([0, 0, 0, rng.uniform(-0.01, 0.01)]))
            c = o * (1 + rng.uniform(-0.006, 0.006))
            h = max(o, c) * (1 + rng.random() * 0.002)
            l = min(o, c) * (1 - rng.random() * 0.002)
            rows.append([TS0 + i * 60000, o, c, h, l, 10])
            prev = c
        orders = {0: [('buy', 1, round(100 * (1 - rng.uniform(0.002, 0.03)), 2)) for _ in range(rng.randint(1, 3))]}
        rec = run(rows, orders, fast, tf='5m' if fast else '1m')
        d = check_fills(rows, rec, f'{"fast" if fast else "normal"} simulator on a random series')
        if d:
            return d
    return None


def _val(v):
    if isinstance(v, dict):
        return float(v.get('float', 0))
    return float(v) if isinstance(v, (int, float)) else 0.0


def model_scenario(pl, fast):
    """the verifier's counterexample as a backtest: the model's minute(s) and resting order prices, mapped by
    x -> 100 * (1 + x / 10) (order preserving), after flat minutes at the first open so that no gap precedes them"""
    m = {k.split('#')[0]: v for k, v in (pl.get('model') or {}).items()}
    f = lambda x: round(100.0 * (1 + _val(x) / 10), 6)
    prices = [f(m[k]) for k in sorted(m) if k.startswith('r') and k[1:].isdigit()]
    if not prices:
        return None
    mins = []
    if 'c1' in m:
        mins.append([f(m.get(f'c{j}', 0)) for j in (1, 2, 3, 4)])
    j = 0
    while f'm{j}_1' in m:
        mins.append([f(m.get(f'm{j}_{k}', 0)) for k in (1, 2, 3, 4)])
        j += 1
    if not mins:
        return None
    o0 = mins[0][0]
    lead = 5 if fast else 1
    px = [(o0, o0, o0, o0)] * lead + [tuple(x) for x in mins]
    last = mins[-1][1]
    px += [(last, last, last, last)] * (10 - len(px) % 5)
    rows = [[TS0 + i * 60000, o, c, h, l, 10] for i, (o, c, h, l) in enumerate(px)]
    orders = {0: [('buy', 1, p) for p in prices if p != o0]}
    if not orders[0]:
        return None
    rec = run(rows, orders, fast, tf='5m' if fast else '1m')
    return check_fills(rows, rec, f'{"fast" if fast else "normal"} simulator on the counterexample minute(s) {mins} with buy orders at {prices}')


def hook_market_scenario():
    """MARKET entry, on_open_position reacts with a MARKET exit: both must fill at their submission time and price"""
    from jesse import research
    from jesse.strategies import Strategy
    from jesse.store import store
    out = []

    class S(Strategy):
        def should_long(self): return self.index == 0
        def should_short(self): return False
        def should_cancel_entry(self): return False
        def go_long(self): self.buy = 1, self.price
        def go_short(self): pass
        def on_open_position(self, order): self.liquidate()
    rows = [[TS0 + i * 60000, 100 + 10 * i, 100 + 10 * i, 100 + 10 * i, 100 + 10 * i, 10] for i in range(6)]
    cfg = {'starting_balance': 1000000, 'fee': 0, 'type': 'futures', 'futures_leverage': 10, 'futures_leverage_mode': 'cross',
           'exchange': 'Sandbox', 'warm_up_candles': 0}
    from jesse.store.state_orders import OrdersState
    seen = []
    orig = OrdersState.add_order

    def add_order(self, order):
        seen.append(order)
        return orig(self, order)
    OrdersState.add_order = add_order
    try:
        research.backtest(cfg, [{'exchange': 'Sandbox', 'strategy': S, 'symbol': 'BTC-USDT', 'timeframe': '1m'}], [],
                          {'Sandbox-BTC-USDT': {'exchange': 'Sandbox', 'symbol': 'BTC-USDT', 'candles': np.array(rows, dtype=float)}})
    finally:
        OrdersState.add_order = orig
    out = [(o.type, o.side, o.status, o.created_at, o.executed_at) for o in seen]
    for t, side, status, created, executed in out:
        if t == 'MARKET' and (status != 'EXECUTED' or executed != created):
            return (f'MARKET {side} order submitted from on_open_position at {created} is {status} with executed_at={executed}: '
                    f'not filled at the moment it was submitted')
    if len(out) < 2:
        return f'expected the entry and the reaction order, found {out}'
    return None


def replay(pl):
    ob = pl['obligation']
    rng = random.Random(pl.get('seed', 0))
    fast = ob.startswith('chunk')
    try:
        d = None
        if ob.startswith('protocol') or ob.startswith('fixed-jump'):
            from native import C08
            d = C08.path_scenarios()
            return {'confirmed': bool(d), 'detail': d or 'real backtests fill along the single continuous path in the probed scenarios'}
        if ob.startswith('flush.'):
            d = hook_market_scenario()
            return {'confirmed': bool(d), 'detail': d or 'MARKET orders submitted from a fill hook fill at submission time'}
        for m in [pl.get('model')] + list(pl.get('other_models') or []):
            d = model_scenario(dict(pl, model=m), fast)
            if d:
                break
        # the recorded fast-mode finding (order priced only in a close->open gap) is replayed by replay_finding only
        d = d or random_scenarios(rng, fast, gapless=fast)
    except Exception as ex:
        import traceback
        d = f'backtest raised {type(ex).__name__}: {ex} {traceback.format_exc()[-400:]}'
    return {'confirmed': bool(d), 'detail': d or 'every order of the probed runs is filled in the first minute that reaches its price'}


def replay_finding(entry):
    d = gap_scenario()
    return {'confirmed': bool(d), 'detail': d}
