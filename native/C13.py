"""Native replay for C13: f(c[:k]) against f(c)[:k] on seeded candle series."""
from native import indic


def replay(pl):
    name = (pl.get('task') or pl['obligation'].split('.')[0])
    long_ = False
    if name.startswith('native.'):
        name, long_ = name[len('native.'):], True
    try:
        d = indic.prefix_check(name)
        if not d and pl['obligation'].endswith('.for-every-input-length'):
            d = indic.lost_proof_check(name)
        elif not d and (long_ or pl['obligation'].endswith('.native-bounded')):
            d = indic.long_prefix_check(name)
    except Exception as ex:
        return {'confirmed': False, 'error': f'{type(ex).__name__}: {ex}'}
    return {'confirmed': bool(d), 'detail': d or f'{name}: prefix of the series equals the series of the prefix on the probed inputs'}


def replay_finding(entry):
    w = entry['witness']
    kw = {}
    if w.get('ns'):
        kw = dict(ns=tuple(w['ns']), ks=tuple(w['ks']), seeds=tuple(w.get('seeds', (0,))), kinds=tuple(w.get('kinds', ('random',))))
    d = indic.prefix_check(w['indicator'], **kw)
    return {'confirmed': bool(d), 'detail': d}
