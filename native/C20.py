"""Native replay for C20."""
import random
import numpy as np


def _fill_check(present, n, first_open_seed, rng):
    from jesse.modes.import_candles_mode import _fill_absent_candles
    start = 1609459200000
    temp = []
    for j in sorted(present):
        o = 100.0 + rng.random() * 10
        temp.append({'id': f'id{j}', 'exchange': 'Binance', 'symbol': 'BTC-USDT', 'timeframe': '1m', 'timestamp': start + 60000 * j,
                     'open': o, 'close': o + 1, 'high': o + 2, 'low': o - 1,
                     # a provided candle may have traded nothing and still carry its own prices
                     'volume': 0.0 if rng.random() < 0.25 else 5.0 + j})
    if rng.random() < 0.5:
        rng.shuffle(temp)
    copies = [dict(c) for c in temp]
    try:
        r = _fill_absent_candles(temp, start, start + 60000 * (n - 1))
    except Exception as ex:
        return f'raised {type(ex).__name__}: {ex} for present minutes {sorted(present)} of {n}'
    if len(r) != n:
        return f'{len(r)} candles for {n} minutes (present {sorted(present)})'
    by_ts = {c['timestamp']: c for c in copies}
    seen = False
    for j, c in enumerate(r):
        if c['timestamp'] != start + 60000 * j:
            return f'candle {j} has timestamp offset {(c["timestamp"] - start) / 60000} (present {sorted(present)})'
        if j in present:
            want = by_ts[start + 60000 * j]
            if any(c[k] != want[k] for k in ('open', 'close', 'high', 'low', 'volume')):
                return f'provided candle of minute {j} was changed: {c} vs {want}'
            seen = True
        else:
            ref = r[j - 1]['close'] if seen else temp[0]['open']
            if not (c['open'] == c['high'] == c['low'] == c['close'] == ref and c['volume'] == 0):
                return (f'missing minute {j} (present {sorted(present)}) filled with {[c[k] for k in ("open", "high", "low", "close", "volume")]}, '
                        f'expected flat at {ref} with volume 0')
    return None


def _store(n, tf='5m', skip=None):
    """n stored candles; skip=(a, b): the stream skipped b periods after row a (timestamps stay strictly increasing)"""
    from native.world import session
    from jesse.store import store
    session('futures', symbols=('BTC-USDT',), timeframe=tf)
    store.candles.init_storage(50)
    step = 300000 if tf == '5m' else 60000
    ts0 = 1609459200000
    for j in range(n):
        jj = j + (skip[1] if skip and j > skip[0] else 0)
        store.candles.add_candle(np.array([ts0 + jj * step, 10.0 + j, 11.0 + j, 12.0 + j, 9.0 + j, 1.0]), 'Sandbox', 'BTC-USDT', tf,
                                 with_execution=False, with_generation=False)
    return store, ts0, step


def _add_check(n, k, newer=False, skip=None):
    store, ts0, step = _store(n, skip=skip)
    before = store.candles.get_storage('Sandbox', 'BTC-USDT', '5m')[:].copy()
    ts = (before[-1][0] + step) if newer else before[k][0]
    c = np.array([ts, 500.0, 501.0, 502.0, 499.0, 77.0])
    try:
        store.candles.add_candle(c, 'Sandbox', 'BTC-USDT', '5m', with_execution=False, with_generation=False)
    except Exception as ex:
        return f'{n} stored candles, adding {"a newer candle" if newer else f"the timestamp of row {k}"}: raised {type(ex).__name__}: {ex}'
    after = store.candles.get_storage('Sandbox', 'BTC-USDT', '5m')[:]
    want = np.vstack([before, c]) if newer else before.copy()
    if not newer:
        want[k] = c
    if after.shape != want.shape or not np.array_equal(after, want):
        rows = [j for j in range(min(len(after), len(want))) if not np.array_equal(after[j], want[j])]
        return (f'{n} stored candles, adding {"a newer candle" if newer else f"a candle with the timestamp of row {k}"}: rows {rows} differ '
                f'(len {len(after)} vs {len(want)}); row {k} is ' + ('unchanged' if (not newer and np.array_equal(after[k], before[k])) else 'changed'))
    if not np.all(np.diff(after[:, 0]) > 0):
        return 'timestamps no longer strictly increasing'
    return None


def _multi_check(n, m, k):
    """n stored 1m candles; a batch of m whose first m-k minutes are the last m-k stored ones (k new minutes at the end;
    k == 0: a pure repeat, k == m: all new)"""
    store, ts0, step = _store(0, '1m')

    def mk(j, base=10.0):
        return [ts0 + j * 60000, base + j, base + 1 + j, base + 2 + j, base - 1 + j, 1.0]
    if n:
        store.candles.add_multiple_1m_candles(np.array([mk(j) for j in range(n)], dtype=float), 'Sandbox', 'BTC-USDT')
    first = n - (m - k)
    batch = np.array([mk(j, 500.0) for j in range(first, first + m)], dtype=float)
    before = store.candles.get_storage('Sandbox', 'BTC-USDT', '1m')[:].copy() if n else np.zeros((0, 6))
    what = f'{n} stored minutes, batch of minutes {first}..{first + m - 1} ({m - k} stored, {k} new)'
    try:
        store.candles.add_multiple_1m_candles(batch, 'Sandbox', 'BTC-USDT')
    except Exception as ex:
        return f'{what}: raised {type(ex).__name__}: {ex}'
    after = store.candles.get_storage('Sandbox', 'BTC-USDT', '1m')[:]
    want = np.vstack([before[:first], batch])
    if after.shape != want.shape or not np.array_equal(after, want):
        return (f'{what}: the store holds minutes {[int((r[0] - ts0) // 60000) for r in after]} '
                f'but replacing the stored and appending the new minutes gives {[int((r[0] - ts0) // 60000) for r in want]}'
                if after.shape != want.shape else f'{what}: stored rows differ from the batch')
    return None


def replay(pl):
    ob = pl['obligation']
    rng = random.Random(pl.get('seed', 0))
    if ob.startswith('fill') or 'fill_absent' in ob:
        from jesse.modes.import_candles_mode import _fill_absent_candles
        if 'empty' in ob:
            try:
                _fill_absent_candles([], 0, 60000)
                return {'confirmed': True, 'detail': 'empty input accepted'}
            except Exception as ex:
                ok = type(ex).__name__ == 'CandleNotFoundInExchange'
                return {'confirmed': not ok, 'detail': f'raised {type(ex).__name__}'}
        for _ in range(3000):
            n = rng.randint(1, 12)
            present = set(j for j in range(n) if rng.random() < rng.choice([0.2, 0.5, 0.9]))
            if not present:
                present = {rng.randrange(n)}
            d = _fill_check(present, n, 0, rng)
            if d:
                return {'confirmed': True, 'detail': d}
        return {'confirmed': False, 'detail': '3000 seeded gap patterns (1-12 minutes) satisfy the fill rules'}
    if ob.startswith('add_candle') or 'add_candle' in ob:
        m = pl['m']
        n_model = None
        k_model = m.get('k')
        for key, v in m.items():
            if key.endswith('.index') and isinstance(v, int):
                n_model = v + 1
        cands = []
        if n_model and n_model <= 400:
            cands.append((n_model, k_model if isinstance(k_model, int) else 0))
        for n in (1, 2, 3, 5, 19, 20, 21, 22, 30, 45):
            for k in sorted(set([0, 1, 2, n // 2, n - 2, n - 1])):
                if 0 <= k < n:
                    cands.append((n, k))
        for n, k in cands:
            d = _add_check(n, k, newer='newer' in ob or 'empty' in ob)
            if d:
                return {'confirmed': True, 'detail': d}
        # stores with a skipped stretch (the invariant is strictly increasing timestamps, not contiguity)
        for n, k, skip in ((6, 1, (3, 2)), (10, 2, (5, 3)), (25, 4, (10, 7)), (25, 20, (3, 1)), (8, 0, (0, 4))):
            d = _add_check(n, k, newer='newer' in ob or 'empty' in ob, skip=skip)
            if d:
                return {'confirmed': True, 'detail': f'store with {skip[1]} periods skipped after row {skip[0]}: ' + d}
        return {'confirmed': False, 'detail': 'real add_candle appends / replaces as specified for store sizes 1..45 and every probed row'}
    if ob.startswith('add_multiple'):
        for n in (0, 3, 5, 8, 20, 21, 40):
            for m in (1, 2, 3, 5, 7):
                for k in range(0, m + 1):
                    if k < m and (m - k > n or m > n):
                        continue
                    if k == m and n and False:
                        continue
                    d = _multi_check(n, m, k)
                    if d:
                        return {'confirmed': True, 'detail': d}
        return {'confirmed': False, 'detail': 'real add_multiple_1m_candles appends / replaces as specified on the probed stores'}
    if ob.startswith('spacing'):
        from jesse import research
        from jesse.strategies import Strategy

        class S(Strategy):
            def should_long(self): return False
            def should_short(self): return False
            def should_cancel_entry(self): return False
            def go_long(self): pass
            def go_short(self): pass
        ts0 = 1609459200000
        for gap in (120000, 59999, 0):
            c = np.array([[ts0 + (0 if i == 0 else gap + (i - 1) * 60000), 100, 100, 101, 99, 1] for i in range(20)], dtype=float)
            cfg = {'starting_balance': 10000, 'fee': 0, 'type': 'futures', 'futures_leverage': 2, 'futures_leverage_mode': 'cross',
                   'exchange': 'Sandbox', 'warm_up_candles': 0}
            try:
                research.backtest(cfg, [{'exchange': 'Sandbox', 'strategy': S, 'symbol': 'BTC-USDT', 'timeframe': '1m'}], [],
                                  {'Sandbox-BTC-USDT': {'exchange': 'Sandbox', 'symbol': 'BTC-USDT', 'candles': c}})
                return {'confirmed': True, 'detail': f'candles whose first two timestamps are {gap} ms apart were accepted'}
            except ValueError:
                pass
            except Exception as ex:
                return {'confirmed': True, 'detail': f'gap {gap}: raised {type(ex).__name__} instead of ValueError: {ex}'}
        return {'confirmed': False, 'detail': 'bad spacing is rejected with ValueError'}
    return {'confirmed': False, 'detail': f'no native replay for {ob}'}


def replay_finding(entry):
    w = entry.get('witness', {})
    if w.get('kind') == 'add_candle':
        d = _add_check(w['n'], w['k'])
        return {'confirmed': bool(d), 'detail': d}
    return {'confirmed': False, 'detail': 'unknown witness'}
