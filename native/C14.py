"""Native replay for C14."""
import numpy as np
from native import indic


def check(name):
    d = check_at(name, 240, (100, 240, 300, 500))
    if d:
        return d
    # the bound the symbolic check used: warm-up window configured to 32 candles, 44 candles of input
    from jesse.config import config
    old = config['env']['data']['warmup_candles_num']
    config['env']['data']['warmup_candles_num'] = 32
    try:
        return check_at(name, 32, (32, 44))
    finally:
        config['env']['data']['warmup_candles_num'] = old


def check_at(name, W, ns):
    import os
    os.environ.setdefault('PYTEST_CURRENT_TEST', 'verif-replay')      # configuration look-ups are not memoized
    f = indic.get(name)
    for kind in ('random', 'trend'):
        for n in ns:
            c = indic.candles(n, 3, kind)
            try:
                seq = indic.fields(f(c, sequential=True))
                single = indic.fields(f(c, sequential=False))
            except Exception as ex:
                continue
            for (fn, sv), (_, nv) in zip(seq, single):
                if sv is None or np.ndim(sv) == 0:
                    continue
                sv = np.asarray(sv, dtype=float)
                if len(sv) != n:
                    return f'{name}(field {fn}): sequential result has {len(sv)} entries for {n} candles'
                if n <= W and nv is not None and not indic.close_enough(sv[-1:], np.asarray([nv], dtype=float)):
                    return f'{name}(field {fn}): last sequential entry {sv[-1]} != non-sequential result {nv} ({n} candles)'
            if n > W:
                try:
                    tail = indic.fields(f(c[-W:], sequential=True))
                except Exception:
                    continue
                for (fn, tv), (_, nv) in zip(tail, single):
                    if tv is None or nv is None or np.ndim(tv) == 0:
                        continue
                    if not indic.close_enough(np.asarray(tv, dtype=float)[-1:], np.asarray([nv], dtype=float)):
                        return (f'{name}(field {fn}): non-sequential result on {n} candles is {nv} but the sequential result on the '
                                f'trailing {W} candles (the configured warm-up window) ends with {np.asarray(tv)[-1]}')
    return None


def replay(pl):
    name = (pl.get('task') or pl['obligation'].split('.')[0])
    try:
        d = check(name)
    except Exception as ex:
        return {'confirmed': False, 'error': f'{type(ex).__name__}: {ex}'}
    return {'confirmed': bool(d), 'detail': d or f'{name}: sequential and single-value results agree on the probed inputs'}


def replay_finding(entry):
    d = check(entry['witness']['indicator'])
    return {'confirmed': bool(d), 'detail': d}
