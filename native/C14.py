"""Native replay for C14."""
import numpy as np
from native import indic


def check(name, small_window=True):
    d = check_at(name, 240, (100, 239, 240, 241, 300, 500))
    if d:
        return d
    d = indic.in_child(check_period_boundary, name)
    if d or not small_window:
        return d
    # the bound the symbolic check used: warm-up window configured to 32 candles, 44 candles of input
    from jesse.config import config
    old = config['env']['data']['warmup_candles_num']
    config['env']['data']['warmup_candles_num'] = 32
    try:
        return check_at(name, 32, (32, 44))
    finally:
        config['env']['data']['warmup_candles_num'] = old


def _last_index(name, field, kwargs):
    """the documented exemption: the extrema detector reports the flags of the entry order+1 from the end"""
    if name == 'minmax' and field in ('is_min', 'is_max'):
        import inspect
        order = kwargs.get('order', inspect.signature(indic.get(name)).parameters['order'].default)
        return -(order + 1)
    return -1


def check_period_boundary(name):
    """input lengths just below, at and just above the period (the statement quantifies over non-default periods)"""
    import inspect
    import os
    os.environ.setdefault('PYTEST_CURRENT_TEST', 'verif-replay')
    f = indic.get(name)
    params = inspect.signature(f).parameters
    if 'period' not in params or not isinstance(params['period'].default, int):
        return None
    for P in (5, 14):
        for n in (P - 1, P, P + 1, 2 * P):
            if n < 2:
                continue
            c = indic.candles(n, 5, 'random')
            try:
                seq = indic.fields(f(c, period=P, sequential=True))
                single = indic.fields(f(c, period=P, sequential=False))
            except Exception:
                continue
            for (fn, sv), (_, nv) in zip(seq, single):
                if sv is None or np.ndim(sv) == 0:
                    continue
                sv = np.asarray(sv, dtype=float)
                if len(sv) != n:
                    return f'{name}(period={P}, field {fn}): sequential result has {len(sv)} entries for {n} candles'
                nvv = np.nan if nv is None else nv
                if not indic.close_enough(sv[-1:], np.asarray([nvv], dtype=float)):
                    return f'{name}(period={P}, field {fn}): last sequential entry {sv[-1]} != non-sequential result {nv} on {n} candles'
    return None


def _variants(f):
    """default parameters, and every moving-average selector switched from the simple to a recursive average (a trailing window
    decides a simple average, not a recursive one)"""
    import inspect
    out = [{}]
    try:
        params = inspect.signature(f).parameters
    except (TypeError, ValueError):
        return out
    ma = {k: 1 for k, v in params.items() if 'matype' in k and isinstance(v.default, int) and v.default == 0}
    if ma:
        out.append(ma)
    # the other parity of the period, another price source
    out += indic.variants(f)
    return out


def _warm_with_other_parameters(f0):
    """calls made earlier in the same process with OTHER parameter values must not influence a later call (a result or weight cache
    keyed by too few of the parameters would): every numeric parameter is perturbed once before the comparison starts"""
    import inspect
    try:
        params = inspect.signature(f0).parameters
    except (TypeError, ValueError):
        return
    c = indic.candles(300, 11, 'random')
    for k, v in params.items():
        d = v.default
        if isinstance(d, bool) or not isinstance(d, (int, float)) or k in ('sequential',):
            continue
        other = d + 1 if isinstance(d, int) else d * 1.7 + 0.05
        for seq in (False, True):
            try:
                f0(c, **{k: other}, sequential=seq)
            except Exception:
                pass


def check_at(name, W, ns):
    import os
    os.environ.setdefault('PYTEST_CURRENT_TEST', 'verif-replay')      # configuration look-ups are not memoized
    f0 = indic.get(name)
    _warm_with_other_parameters(f0)
    for kw in _variants(f0):
        d = _check_at(name, (lambda *a, **k: f0(*a, **dict(kw, **k))), W, ns, kw)
        if d:
            return d
    return None


def _check_at(name, f, W, ns, kw):
    note = f' with {kw}' if kw else ''
    for kind in ('random', 'trend', 'ties', 'zerovol', 'flatrun'):
        for n in ns:
            c = indic.candles(n, 3, kind)
            try:
                seq = indic.fields(f(c, sequential=True))
                single = indic.fields(f(c, sequential=False))
            except Exception as ex:
                continue
            for (fn, sv), (_, nv) in zip(seq, single):
                if sv is None or np.ndim(sv) == 0:
                    continue
                sv = np.asarray(sv, dtype=float)
                if len(sv) != n:
                    return f'{name}(field {fn}){note}: sequential result has {len(sv)} entries for {n} candles ({kind} series)'
                li = _last_index(name, fn, {})
                if n <= W and nv is not None and not indic.close_enough(sv[li:][:1], np.asarray([nv], dtype=float)):
                    return f'{name}(field {fn}){note}: sequential entry [{li}] = {sv[li]} != non-sequential result {nv} ({n} candles, {kind} series)'
            if n > W:
                try:
                    tail = indic.fields(f(c[-W:], sequential=True))
                except Exception:
                    continue
                for (fn, tv), (_, nv) in zip(tail, single):
                    if tv is None or nv is None or np.ndim(tv) == 0:
                        continue
                    li = _last_index(name, fn, {})
                    if not indic.close_enough(np.asarray(tv, dtype=float)[li:][:1], np.asarray([nv], dtype=float)):
                        return (f'{name}(field {fn}){note}: non-sequential result on {n} candles ({kind} series) is {nv} but the sequential result on the '
                                f'trailing {W} candles (the configured warm-up window) ends with {np.asarray(tv)[-1]}')
    return None


def replay(pl):
    name = (pl.get('task') or pl['obligation'].split('.')[0])
    small = True
    for pre in ('congruence.', 'boundary.'):
        if name.startswith(pre):
            name = name[len(pre):]
            # stand-in of the unbounded layer: the statement's own window (240) only; the 32-candle window is the bound of
            # the symbolic layer and is replayed for its counterexamples only (an indicator needing more than 32 candles
            # of history is not in violation of the statement)
            small = False
    try:
        d = check(name, small)
    except Exception as ex:
        return {'confirmed': False, 'error': f'{type(ex).__name__}: {ex}'}
    return {'confirmed': bool(d), 'detail': d or f'{name}: sequential and single-value results agree on the probed inputs'}


def replay_finding(entry):
    d = check(entry['witness']['indicator'])
    return {'confirmed': bool(d), 'detail': d}
