# one_task.py <props.Cxx> <task id> <seed>: run one task in-process and print slow or undischarged obligations
import sys, time; sys.path.insert(0,'/verif')
from pyvc.harness import _run_task
mod, tid, seed = sys.argv[1], sys.argv[2], int(sys.argv[3])
t=time.time()
tid, obls, st, err = _run_task((mod, tid, 'quick', seed))
print('wall', round(time.time()-t,1))
for o in obls or []:
    if o.get('ms',0) > 1000 or o['status']!='proved': print(o['id'], o['status'], round(o.get('ms',0)), o.get('backend'), o.get('path'))
print(err or '')
