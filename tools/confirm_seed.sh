#!/bin/bash
# confirm_seed.sh <worktree> <k> : confirm a seeded change in a scratch worktree (never /repo):
#   clean tree: demo exits 0; with mutant_k.diff: suite passes, demo exits non-zero.
wt=$1; k=$2
cd "$wt" || exit 3
git checkout -q -- . || exit 3
PYTHONPATH=$wt /venv/bin/python demo_$k.py >/tmp/seed_demo_clean.out 2>&1; c=$?
git apply mutant_$k.diff || { echo "APPLY FAILED"; exit 3; }
PYTHONPATH=$wt /venv/bin/python -m pytest -q -p no:cacheprovider --timeout=900 --continue-on-collection-errors 2>&1 | tail -1 > /tmp/seed_suite.out
PYTHONPATH=$wt /venv/bin/python demo_$k.py >/tmp/seed_demo_mut.out 2>&1; m=$?
git checkout -q -- .
echo "clean_demo_exit=$c mutant_demo_exit=$m suite: $(cat /tmp/seed_suite.out)"
