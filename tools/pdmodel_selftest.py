"""Differential self-test of pyvc/pdmodel.py against the real pandas (concrete inputs).

Run under python3-vt; the pandas side runs in /venv/bin/python.  Any disagreement is a defect of the *model*
(an unsound library specification), so this test gates the C16 metrics task (exit 3 = checker error, never a violation).
"""
import json
import math
import os
import random
import subprocess
import sys
from fractions import Fraction

HERE = os.path.dirname(os.path.abspath(__file__))
sys.path.insert(0, os.path.join(HERE, '..'))

PANDAS_SIDE = r'''
import json, sys, math
import numpy as np, pandas as pd
cases = json.load(sys.stdin)
out = []
def f(x):
    x = float(x)
    return None if (math.isnan(x) or math.isinf(x)) else x
for c in cases:
    v = [np.nan if x is None else x for x in c['v']]
    s = pd.Series(v, dtype=float)
    thr = c['thr']
    m = s[s > thr]
    r = {}
    r['sum'], r['mean'], r['min'], r['max'], r['prod'] = f(s.sum()), f(s.mean()), f(s.min()), f(s.max()), f(s.prod())
    r['std1'], r['std0'] = f(s.std(ddof=1)), f(s.std(ddof=0))
    r['len'] = len(s)
    r['fill.sum'], r['count'] = f(s.fillna(0.25).sum()), int(s.count())
    r['fill'] = [f(x) for x in s.fillna(0)]
    r['m.len'], r['m.sum'], r['m.mean'], r['m.min'], r['m.max'], r['m.std1'] = len(m), f(m.sum()), f(m.mean()), f(m.min()), f(m.max()), f(m.std(ddof=1))
    r['cumprod'] = [f(x) for x in (1 + s).cumprod()]
    r['exp0'] = [f(x) for x in s.expanding(min_periods=0).max()]
    r['exp1'] = [f(x) for x in s.expanding(min_periods=1).max()]
    r['dd'] = f(((1 + s).cumprod() / (1 + s).cumprod().expanding(min_periods=0).max()).min() - 1)
    vv = [0.7 if x is None else abs(x) + 0.1 for x in c['v']]
    df = pd.DataFrame(vv, index=pd.date_range(start='2021-01-01', periods=len(v)))
    pc = df.pct_change(1)
    r['pct'] = [f(x) for x in pc[0]]
    r['pct.len'] = len(pc)
    r['days'] = int((pc.index[-1] - pc.index[0]).days)
    r['dfmin'] = f(((pc + 1).cumprod() / (pc + 1).cumprod().expanding(min_periods=0).max()).min().iloc[0])
    col = pc[pc.columns[0]]
    r['col.mean'], r['col.std1'] = f(col.mean()), f(col.std(ddof=1))
    r['col.neg.sq.sum'] = f((col[col < 0] ** 2).sum())
    r['col.lenfull'] = len(col)
    recs = [{'a': x, 'b': 'long' if i % 2 else 'short'} for i, x in enumerate(v)]
    d2 = pd.DataFrame.from_records(recs)
    w = d2.loc[d2['a'] > thr]
    r['w.len'], r['w.sum'] = len(w), f(w['a'].sum())
    r['longs'] = len(d2.loc[d2['b'] == 'long'])
    out.append(r)
json.dump(out, sys.stdout)
'''


def model_side(cases):
    from pyvc import pdmodel, lib, npvec, ops
    from pyvc.values import NAN
    npvec.install()

    def num(x):
        if x is NAN:
            return None
        return float(x)

    class I:   # minimal interpreter stand-in for the protocol methods
        pass
    out = []
    for c in cases:
        v = [NAN if x is None else Fraction(x).limit_denominator(10 ** 6) for x in c['v']]
        thr = Fraction(c['thr']).limit_denominator(10 ** 6)
        s = pdmodel.Ser(v)
        m = s.pv_getitem(I, s.pv_compare(I, '>', thr, False))
        r = {}
        r['sum'], r['mean'], r['min'], r['max'], r['prod'] = num(s.sum()), num(s.mean()), num(s.min()), num(s.max()), num(s.prod())
        r['std1'], r['std0'] = num(s.std(1)), num(s.std(0))
        r['len'] = s.pv_len(I)
        r['fill.sum'], r['count'] = num(s.fillna(Fraction(1, 4)).sum()), s.count()
        r['fill'] = [num(x) for x in s.fillna(0).v]
        r['m.len'], r['m.sum'], r['m.mean'], r['m.min'], r['m.max'], r['m.std1'] = m.pv_len(I), num(m.sum()), num(m.mean()), num(m.min()), num(m.max()), num(m.std(1))
        one = s.pv_binop(I, '+', 1, True)
        cp = one.cumprod()
        r['cumprod'] = [num(x) for x in cp.v]
        r['exp0'] = [num(x) for x in s.expanding_max(0).v]
        r['exp1'] = [num(x) for x in s.expanding_max(1).v]
        r['dd'] = num(ops.arith('-', cp.pv_binop(I, '/', cp.expanding_max(0), False).min(), 1))
        vv = [Fraction(7, 10) if x is NAN else abs(x) + Fraction(1, 10) for x in v]
        df = pdmodel._dataframe(I, [list(vv)], {'index': pdmodel.DateIdx(len(v))})
        pc = df.pv_getattr(I, 'pct_change').fn(I, [1], {})
        r['pct'] = [num(x) for x in pc.cols[0]]
        r['pct.len'] = pc.pv_len(I)
        idx = pc.pv_getattr(I, 'index')
        r['days'] = idx.pv_getitem(I, -1).pv_binop(I, '-', idx.pv_getitem(I, 0), False).days
        p1 = pc.pv_binop(I, '+', 1, False)
        cp2 = p1.pv_getattr(I, 'cumprod').fn(I, [], {})
        ex2 = cp2.pv_getattr(I, 'expanding').fn(I, [], {'min_periods': 0}).pv_getattr(I, 'max').fn(I, [], {})
        r['dfmin'] = num(cp2.pv_binop(I, '/', ex2, False).pv_getattr(I, 'min').fn(I, [], {}).pv_getattr(I, 'iloc').pv_getitem(I, 0))
        col = pc.pv_getitem(I, pc.pv_getattr(I, 'columns')[0])
        r['col.mean'], r['col.std1'] = num(col.mean()), num(col.std(1))
        neg = col.pv_getitem(I, col.pv_compare(I, '<', 0, False))
        r['col.neg.sq.sum'] = num(neg.pv_binop(I, '**', 2, False).sum())
        r['col.lenfull'] = col.pv_len(I)
        recs = [{'a': x, 'b': 'long' if i % 2 else 'short'} for i, x in enumerate(v)]
        d2 = pdmodel._from_records(I, [recs], {})
        w = d2.pv_getattr(I, 'loc').pv_getitem(I, d2.pv_getitem(I, 'a').pv_compare(I, '>', thr, False))
        r['w.len'], r['w.sum'] = w.pv_len(I), num(w.pv_getitem(I, 'a').sum())
        r['longs'] = d2.pv_getattr(I, 'loc').pv_getitem(I, d2.pv_getitem(I, 'b').pv_compare(I, '==', 'long', False)).pv_len(I)
        out.append(r)
    return out


def close(a, b):
    if a is None or b is None:
        return a is None and b is None
    if isinstance(a, list):
        return len(a) == len(b) and all(close(x, y) for x, y in zip(a, b))
    return abs(a - b) <= 1e-7 * max(1.0, abs(a), abs(b))


def main():
    rng = random.Random(7)
    cases = []
    for n in (1, 2, 3, 4, 6):
        for _ in range(12):
            v = [None if rng.random() < 0.2 else round(rng.uniform(-0.5, 1.5), 3) for _ in range(n)]
            if rng.random() < 0.3:
                v = [None if x is None else abs(x) + 0.1 for x in v]
            cases.append({'v': v, 'thr': round(rng.uniform(-0.2, 0.8), 2)})
    cases.append({'v': [None], 'thr': 0.0})
    cases.append({'v': [1.0, 1.0, 1.0], 'thr': 1.0})
    p = subprocess.run(['/venv/bin/python', '-W', 'ignore', '-c', PANDAS_SIDE], input=json.dumps(cases), capture_output=True, text=True)
    if p.returncode != 0:
        print('pandas side failed:', p.stderr[-2000:])
        return 3
    real = json.loads(p.stdout)
    mod = model_side(cases)
    bad = 0
    for c, r, m in zip(cases, real, mod):
        for k in r:
            if not close(r[k], m.get(k)):
                bad += 1
                if bad <= 20:
                    print(f'MISMATCH {k}: input={c} pandas={r[k]} model={m.get(k)}')
    print(f'pdmodel selftest: {len(cases)} inputs x {len(real[0])} observations, {bad} mismatches')
    return 3 if bad else 0


if __name__ == '__main__':
    sys.exit(main())
