#!/usr/bin/env python3
"""Re-runs the check of a stored seeded change in a scratch worktree (never /repo) and refreshes check_exit_codes / detected in its
meta.json.  usage: reeval_seeded.py <scratch-worktree> [<id> ...]   (default: every stored change whose meta says detected: false)"""
import glob, json, os, re, subprocess, sys

VERIF = os.path.dirname(os.path.dirname(os.path.abspath(__file__)))


def main():
    wt = sys.argv[1]
    ids = sys.argv[2:]
    metas = sorted(glob.glob(os.path.join(VERIF, 'seeded', '*', 'meta.json')))
    for mp in metas:
        m = json.load(open(mp))
        if ids and m['id'] not in ids:
            continue
        if not ids and m.get('detected'):
            continue
        d = os.path.dirname(mp)
        subprocess.run(['git', '-C', wt, 'checkout', '-q', '--', '.'])
        r = subprocess.run(['git', '-C', wt, 'apply', os.path.join(d, 'patch.diff')])
        if r.returncode:
            print(m['id'], 'patch does not apply to', wt)
            continue
        subprocess.run(f"find {wt}/jesse -name '*.nbi' -o -name '*.nbc' | xargs -r rm -f", shell=True)
        env = dict(os.environ, PYVC_REPO=wt)
        p = subprocess.run(['python3-vt', 'check.py', m['property']], cwd=VERIF, env=env, capture_output=True, text=True)
        subprocess.run(['git', '-C', wt, 'checkout', '-q', '--', '.'])
        viol = [l.replace('/verif/', '') for l in p.stdout.splitlines() if l.startswith('VIOLATION')]
        m.setdefault('check_exit_codes', {})[m['property']] = p.returncode
        m['violations_reported'] = viol[:6]
        m['detected'] = p.returncode == 1
        json.dump(m, open(mp, 'w'), indent=1)
        print(m['id'], 'exit', p.returncode, viol[:1])


if __name__ == '__main__':
    main()
