import sys, time, ast, collections, signal
sys.path.insert(0, __import__('os').path.dirname(__import__('os').path.dirname(__import__('os').path.abspath(__file__))))
from pyvc.source import Repo
from pyvc import causal
import traceback
repo=Repo()
m=repo.module('jesse.indicators')
names=[]
for st in m.tree.body:
    if isinstance(st, ast.ImportFrom) and st.level==1:
        for a in st.names: names.append((a.asname or a.name, f'jesse.indicators.{st.module}.{a.name}'))
only=set(sys.argv[1:])
res=collections.Counter(); reasons=collections.defaultdict(list)
class TO(Exception): pass
def h(*a): raise TO()
signal.signal(signal.SIGALRM,h)
for name,q in names:
    if only and name not in only: continue
    f=repo.find(q)
    if not any(a.arg=='sequential' for a in f.node.args.args+f.node.args.kwonlyargs): continue
    t=time.time()
    signal.alarm(60)
    try:
        r=causal.prove_causal(repo,q)
        res['proved']+=1; reasons['PROVED'].append(name)
    except causal.Unsupported as e:
        res['unsupported']+=1; reasons['U: '+str(e)[:70]].append(name)
    except causal.NotProved as e:
        res['notproved']+=1; reasons['N: '+str(e)[:70].replace('\n',' ')].append(name)
    except TO:
        res['timeout']+=1; reasons['TIMEOUT'].append(name)
    except Exception as e:
        res['crash']+=1; reasons['C: '+type(e).__name__+' '+str(e)[:60]+' @'+traceback.format_exc().strip().split('\n')[-3].strip()[:80]].append(name)
    signal.alarm(0)
print(dict(res))
for k,v in sorted(reasons.items(), key=lambda kv:-len(kv[1])):
    print(len(v), k, ' '.join(v))
