#!/bin/bash
# runall_seed.sh <seed> <out>
cd /verif
for p in C01 C02 C03 C04 C05 C06 C07 C08 C09 C10 C11 C13 C14 C15 C16 C17 C18 C19 C20; do
  s=$(date +%s)
  VERIF_SEED=$1 VERIF_TIER=quick timeout 1500 python3-vt check.py $p --tier quick > /tmp/seedrun_$p.log 2>&1; e=$?
  echo "$p exit=$e $(( $(date +%s) - s ))s $(grep -E 'undecided|VIOLATION|CHECKER' /tmp/seedrun_$p.log | head -3 | tr '\n' ' ' | cut -c1-200)" >> $2
done
echo finished >> $2
