#!/usr/bin/env python3
"""Regenerates MANIFEST.json from the per-property metadata in props/*.py (run under python3-vt)."""
import importlib
import json
import os
import sys

HERE = os.path.dirname(os.path.dirname(os.path.abspath(__file__)))
sys.path.insert(0, HERE)

ALL = [f'C{n:02d}' for n in range(1, 21)]
NA = {
    'C12': 'relational whole-program equivalence of two simulators (different loop nests, arbitrary strategy callbacks, '
           'conditional on a hypothesis about the other run): no per-function contract within reach expresses or decides it; '
           'the function-level facts it rests on are proved under C02/C07/C08 (DESIGN.md section 7)',
}
PENDING = 'not claimed in this revision: the contracts for this property have not landed yet (DESIGN.md section 6 describes the plan)'


def main():
    checks = []
    claimed = []
    for p in ALL:
        if not os.path.exists(os.path.join(HERE, 'props', p + '.py')):
            continue
        m = importlib.import_module('props.' + p)
        meta = getattr(m, 'MANIFEST', None)
        if meta is None:
            continue
        claimed.append(p)
        c = {
            'property_id': p,
            'quick_cmd': f'python3-vt check.py {p} --tier quick',
            'thorough_cmd': f'python3-vt check.py {p} --tier thorough',
            'evidence_file': f'evidence/{p}.json',
            'replay_cmd_template': f'python3-vt check.py {p} --replay {{path}}',
            'engine': 'pyvc',
            'level_claimed': {'category': meta.get('category', 'proof'), 'text': meta['text'],
                              'design_ref': f'DESIGN.md section 6, {p}'},
            'level_note': meta['note'],
            'technique': meta.get('technique', 'contract-based deductive verification: symbolic execution of the real '
                                  'function ASTs against sidecar contracts, VCs discharged by z3/cvc5, native replay'),
        }
        checks.append(c)
    na = []
    for p in ALL:
        if p in claimed:
            continue
        na.append({'property_id': p, 'reason': NA.get(p, PENDING)})
    man = {
        'version': 1,
        'setup_cmd': "python3-vt -m compileall -q pyvc props contracts native check.py && python3-vt -c 'import z3' && "
                     "PYTHONPATH=/repo /venv/bin/python -W ignore -c 'import jesse.helpers'",
        'hooks': {
            'guard': 'JESSE_VERIF',
            'enable': "no hooks: the verifier parses /repo's source (ast) on every run and the native replay driver uses public APIs",
            'baseline_off_cmd': 'cd /repo && /venv/bin/python -m pytest -ra -q -p no:cacheprovider --timeout=900 --continue-on-collection-errors',
            'source_commits': [],
            'add_only': True,
        },
        'engines': [{
            'name': 'pyvc', 'path': 'pyvc/', 'serves_properties': claimed,
            'kind_free_text': 'contract-based deductive verifier for a Python subset: symbolic execution of the real FunctionDef '
                              'nodes parsed from /repo on every run against sidecar contracts (contracts/*.py), loop invariants, '
                              'verification conditions discharged by z3 5.1 with cvc5 as second opinion, counterexamples replayed '
                              'natively (native/*.py under /venv/bin/python)'}],
        'checks': checks,
        'not_applicable': na,
        'notes': 'fix: commits in /repo and recorded findings are listed in KNOWN_FINDINGS.json. Exit codes of check.py: 0 held, '
                 '1 VIOLATION, 2 undecided, 3 checker error.',
    }
    with open(os.path.join(HERE, 'MANIFEST.json'), 'w') as f:
        json.dump(man, f, indent=1)
    print('claimed:', claimed)


if __name__ == '__main__':
    main()
