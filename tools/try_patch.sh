#!/bin/bash
# usage: tools/try_patch.sh <patch.diff> <Cxx> [extra check args]  -- applies the patch to /repo, runs the check, reverts
set -u
P=$1; shift; C=$1; shift
git -C /repo apply "$P" || { echo "patch does not apply"; exit 9; }
cd /verif && python3-vt check.py "$C" "$@"; rc=$?
git -C /repo checkout -- . 
echo "EXIT=$rc"
exit $rc
