"""Soundness self-test of the causality prover (pyvc/causal.py): every mutant below makes a proved indicator non-causal; the
prover must lose the proof on each (run on a scratch copy of the indicator sources, never on /repo)."""
import os, shutil, subprocess, sys, tempfile
sys.path.insert(0, os.path.dirname(os.path.dirname(os.path.abspath(__file__))))
MUTANTS = [
    ('ema', 'ema.py', 'if n < period:\n        return result', 'if n < period + 5:\n        return result'),
    ('ema', 'ema.py', 'current = alpha * source[i]', 'current = alpha * source[min(i + 1, n - 1)]'),
    ('ema', 'ema.py', 'initial = np.mean(source[:period])', 'initial = np.mean(source)'),
    ('ema', 'ema.py', '    return result\n\ndef ema', '    result[n - 1] = source[n - 1]\n    return result\n\ndef ema'),
    ('atr', 'atr.py', 'hc = abs(high[i] - close[i-1])', 'hc = abs(high[i] - close[i-2])'),
    ('atr', 'atr.py', 'atr_values[period-1] = np.mean(tr[:period])', 'atr_values[period-1] = np.mean(tr[:period + 1])'),
    ('donchian', 'donchian.py', 'rolling_max[period - 1:] = np.max(windowed_high, axis=1)',
     'rolling_max[period - 2:-1] = np.max(windowed_high, axis=1)\n        rolling_max[-1] = np.nan'),
    ('kama', 'kama.py', 'result[:period] = src[:period]', 'result[:period] = src[-period:]'),
    ('kama', 'kama.py', 'for j in range(i - period + 1, i + 1):', 'for j in range(i - period, i + 1):'),
    ('rsi', 'rsi.py', 'change = diff[i]\n        gain', 'change = diff[i + 1 if i + 1 < n - 1 else i]\n        gain'),
    ('rsi', 'rsi.py', 'if n < period + 1:', 'if n < 2 * period:'),
    ('sma', 'sma.py', "res[period-1:] = np.convolve(source, np.ones(period, dtype=float)/period, mode='valid')",
     "res[period-1:] = np.convolve(source, np.ones(period, dtype=float)/period, mode='same')[period-1:]"),
    ('sma', 'sma.py', 'return res if sequential else res[-1]', 'res = res - np.mean(source)\n    return res if sequential else res[-1]'),
    ('obv', 'obv.py', 'obv_arr[1:] = volume[0] + np.cumsum(delta)', 'obv_arr[1:] = volume[-1] + np.cumsum(delta)'),
    ('willr', 'willr.py', None, None),
    # the second candle series of beta is an input like the first: reading it one minute ahead is a look-ahead
    ('beta', 'beta.py', 'y = benchmark_candles[:, 2]', 'y = np.concatenate((benchmark_candles[1:, 2], benchmark_candles[-1:, 2]))'),
    ('beta', 'beta.py', 'mean_y = windows_y.mean(axis=1)', 'mean_y = windows_y.mean()'),
    # weights built from lists / appended scalars (fwma, swma, pwma, sinwma): the window must still end at the candle
    ('fwma', 'fwma.py', 'swv = sliding_window_view(source, window_shape=period)', 'swv = sliding_window_view(source, window_shape=period)[1:]'),
    ('swma', 'swma.py', 'res = np.average(swv, weights=triangle, axis=-1)', 'res = np.average(swv, weights=triangle, axis=-1) / np.sum(source)'),
    ('cci', 'cci.py', 'for j in range(i - period + 1, i + 1):\n            sum_tp', 'for j in range(i - period + 2, min(i + 2, n)):\n            sum_tp'),
]


def verdict(root, name):
    from pyvc.source import Repo
    from pyvc import causal
    causal._MENTIONS.clear()
    try:
        causal.prove_causal(Repo(root), f'jesse.indicators.{name}.{name}')
        return 'PROVED'
    except causal.Unsupported as e:
        return 'UNSUPPORTED ' + str(e)[:60]
    except causal.NotProved as e:
        return 'NOTPROVED'


def main():
    src_root = os.environ.get('PYVC_REPO', '/repo')
    bad = 0
    tmp = tempfile.mkdtemp(prefix='causal_mut_')
    try:
        shutil.copytree(os.path.join(src_root, 'jesse'), os.path.join(tmp, 'jesse'), ignore=shutil.ignore_patterns('__pycache__', '*.nbi', '*.nbc'))
        for name, fn, old, new in MUTANTS:
            if old is None:
                continue
            p = os.path.join(tmp, 'jesse', 'indicators', fn)
            orig = open(p).read()
            base = verdict(tmp, name)
            if old not in orig:
                print(f'{name}: pattern not found (source changed): skipped')
                continue
            open(p, 'w').write(orig.replace(old, new, 1))
            v = verdict(tmp, name)
            nat = ''
            if '--native' in sys.argv:
                code = ("import sys; sys.path.insert(0, %r); sys.path.insert(1, '/verif'); from native import indic; d = indic.prefix_check(%r); print('NONCAUSAL' if d else 'causal-on-probes')" % (tmp, name))
                r = subprocess.run(['/venv/bin/python', '-W', 'ignore', '-c', code], capture_output=True, text=True)
                nat = (r.stdout.strip().split('\n') or ['?'])[-1] or r.stderr.strip()[-200:]
            open(p, 'w').write(orig)
            ok = v != 'PROVED'
            bad += 0 if ok else 1
            print(f'{"ok  " if ok else "MISS"} {name}: clean={base} mutant={v} {nat}   [{old[:50]!r}]')
    finally:
        shutil.rmtree(tmp, ignore_errors=True)
    print('missed', bad)
    return 1 if bad else 0


if __name__ == '__main__':
    sys.exit(main())
