#!/bin/bash
# seed_eval.sh <worktree> <k> <Cxx> [<Cxx>...] : confirm mutant_k of a scratch worktree and run checks against it
# (checks read the worktree via PYVC_REPO; /repo is not touched). Result summary -> /verif/out/seed_eval/<name>_<k>.txt
wt=$1; k=$2; shift; shift
name=$(basename $wt)
mkdir -p /verif/out/seed_eval
out=/verif/out/seed_eval/${name}_$k.txt
cd "$wt" || exit 3
git checkout -q -- . || exit 3
PYTHONPATH=$wt /venv/bin/python demo_$k.py >/dev/null 2>&1; c=$?
git apply mutant_$k.diff || { echo "APPLY FAILED" > $out; exit 3; }
find jesse -name "*.nbi" -o -name "*.nbc" | xargs -r rm -f
suite=$(PYTHONPATH=$wt /venv/bin/python -m pytest -q -p no:cacheprovider --timeout=900 --continue-on-collection-errors 2>&1 | tail -1)
PYTHONPATH=$wt /venv/bin/python demo_$k.py >/dev/null 2>&1; m=$?
echo "confirm: clean_demo_exit=$c mutant_demo_exit=$m suite: $suite" > $out
for C in "$@"; do
  (cd /verif && PYVC_REPO=$wt PYVC_JOBS=${PYVC_JOBS:-6} python3-vt check.py $C > /verif/out/seed_eval/${name}_${k}_$C.log 2>&1; echo "check $C exit=$?" >> $out
   grep -E "^VIOLATION|refuted|undecided|unknown" /verif/out/seed_eval/${name}_${k}_$C.log | head -12 >> $out)
done
git checkout -q -- .
find jesse -name "*.nbi" -o -name "*.nbc" | xargs -r rm -f
cat $out
