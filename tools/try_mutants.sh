#!/bin/bash
# tm.sh <scratch-worktree> <out> <w> <k> <prop> ...
cw=$1; out=$2; shift; shift
while [ $# -gt 0 ]; do
  w=$1; k=$2; p=$3; shift; shift; shift
  git -C $cw checkout -q -- .; git -C $cw apply ${SEED_DIR:-/tmp/s6}/$w/mutant_$k.diff || { echo "$w $k $p: APPLY FAILED" >> $out; continue; }
  find $cw/jesse -name "*.nbi" -o -name "*.nbc" | xargs -r rm -f
  r=$(cd /verif && PYVC_JOBS=6 PYVC_REPO=$cw timeout 2400 python3-vt check.py $p 2>&1 | grep -E "^VIOLATION|exit=" | cut -c1-170 | tail -2 | tr '\n' ' ')
  echo "$w $k $p: $r" >> $out
  git -C $cw checkout -q -- .
done
