"""Collects the seeded breaking changes produced by the fresh sub-agents (scratch worktrees /tmp/wt_Cxx) into
/verif/seeded/<id>/ {patch.diff, demo.py, meta.json}.  The confirmation / check results are read from
/verif/out/seed_eval/<worktree>_<k>.txt (written by tools/seed_eval.sh).  Run once per round; the seeded directory is
committed, the worktrees are removed afterwards."""
import json
import os
import re
import shutil
import sys

HERE = os.path.dirname(os.path.abspath(__file__))
VERIF = os.path.dirname(HERE)

# (id, worktree, k, property, check, change, needs)
TABLE = [
    ('C01-step-generated-candle-peeks-next-open', 'wt_C01', 1, 'C01', 'C01',
     '_step_simulator patches close/high/low of a generated higher-timeframe candle with the open of the next 1m candle',
     'normal simulator, a price jump (previous close != open) exactly at a higher-timeframe window boundary'),
    ('C01-fast-batch-jump-repair-reads-next-chunk', 'wt_C01', 2, 'C01', 'C01',
     '_simulate_new_candles "vectorised jump repair": close/high/low of each 1m candle of the chunk taken from the following open, the last one from the first candle of the NEXT chunk',
     'fast_mode=True and a price jump at the step boundary'),
    ('C11-config-memo-survives-aborted-session', 'wt_C01', 3, 'C11', 'C11',
     'set_config no longer clears the config memo and _isolated_backtest resets the store before the config',
     'an earlier session with another leverage/fee/type that raises part-way, then a probe session; outside pytest'),
    ('C02-doji-sorted-as-red', 'wt_C02', 1, 'C02', 'C02',
     '_sort_execution_orders: is_red uses >= (open == close counts as falling although split_candle treats it as rising)',
     'a minute with open == close and two resting orders, one above and one below the open'),
    ('C02-flush-snapshots-queue', 'wt_C02', 2, 'C02', 'C02',
     'execute_pending_market_orders iterates a snapshot of the queue: a MARKET order queued by a fill hook waits for the next flush',
     'a MARKET order submitted from on_open_position/on_close_position in reaction to a MARKET fill'),
    ('C03-max-hoisted-out-of-asset-loop', 'wt_C03', 1, 'C03', 'C03',
     'available_margin applies max(sum buy, sum sell) once over all assets instead of per asset',
     'two symbols sharing the wallet with resting orders on opposite sides'),
    ('C03-release-deletes-every-identical-row', 'wt_C03', 2, 'C03', 'C03',
     'execution/cancellation delete every resting row equal to [qty, price] instead of the first (np.where(...)[0] index array passed to delete)',
     'two identical non-reduce-only resting orders (same side, qty, price), one of them cancelled or filled'),
    ('C04-sums-reset-when-base-sold-out', 'wt_C04', 1, 'C04', 'C04',
     'spot on_order_execution resets stop/limit sums to 0 when the base balance reaches 0 (cancellation still subtracts)',
     'a sell that empties the base while a sell of the other kind rests, which is then cancelled; then re-buy and oversized sell'),
    ('C04-plain-float-add-in-market-sell-check', 'wt_C04', 2, 'C04', 'C04',
     'MARKET-sell over-selling check uses abs(qty) + limit_sum instead of sum_floats',
     'decimal quantities whose exact sum equals the base held (0.1 + 0.2 vs 0.3)'),
    ('C05-second-cancel-runs-again', 'wt_C05', 1, 'C05', 'C05',
     'Order.cancel() no longer returns early on an already cancelled order (guard folded into the stream branch)',
     'cancel() called twice on the same order'),
    ('C05-cancelled-market-order-still-executes', 'wt_C05', 2, 'C05', 'C05',
     'Order.execute() lets a CANCELED MARKET order execute',
     'cancel-all hitting a still pending MARKET order before the flush'),
    ('C09-liquidation-half-open-interval', 'wt_C05', 3, 'C09', 'C09',
     '_check_for_liquidations tests low <= liquidation_price < high instead of candle_includes_price',
     'isolated short whose liquidation price equals the minute high exactly'),
    ('C06-hook-kind-on-signed-qty', 'wt_C06', 1, 'C06', 'C06',
     '_on_updated_position compares after_qty > before_qty instead of absolute values',
     'a short position that is reduced or increased before it closes'),
    ('C06-partial-reduce-books-pnl-on-whole-position', 'wt_C06', 2, 'C06', 'C06',
     'Position._mutating_reduce estimates the realised PnL on self.qty instead of the reduced qty',
     'a fill that only partially reduces the position'),
    ('C07-fast-step-min-instead-of-gcd', 'wt_C07', 1, 'C07', 'C07',
     '_calculate_minimum_candle_step returns min() of the route timeframes instead of their gcd',
     'fast_mode with route timeframes that do not divide each other (30m + 45m, 3m + 5m)'),
    ('C07-partial-candle-uses-forming-estimation', 'wt_C07', 2, 'C07', 'C07',
     '_update_all_routes_a_partial_candle takes the number of 1m candles from forming_estimation (0 in the last minute of a window)',
     'an order filled inside the last 1m candle of a higher-timeframe window'),
    ('C10-price-near-rounded', 'wt_C10', 1, 'C10', 'C10',
     'is_price_near rounds the relative distance to 5 decimals before comparing with 0.015 %',
     'a price between 0.0150 % and 0.0155 % away from the current price'),
    ('C10-array-equiv-hides-row-count-change', 'wt_C10', 2, 'C10', 'C10',
     'modification detection uses np.array_equiv (broadcasting) instead of np.array_equal',
     'a stop-loss/take-profit declaration with identical rows reduced to one row (or the reverse)'),
    ('C13-zlema-negative-index-wrap', 'wt_C13', 1, 'C13', 'C13',
     '_zlema_fast de-lag loop starts at 0: source[i - lag] wraps to the end of the input for i < lag',
     'comparing f(c[:k]) with f(c)[:k] at early indices'),
    ('C14-obv-ignores-warmup-window', 'wt_C13', 2, 'C14', 'C14',
     'obv drops slice_candles: the non-sequential value accumulates over the whole input',
     'an input longer than the warm-up window (240)'),
    ('C15-ma-wma-drops-source-type', 'wt_C13', 3, 'C15', 'C15',
     'ma(matype=2) calls wma without source_type',
     'matype 2 with a non-close source type on 2-D candles'),
    ('C15-rsi-absolute-epsilon', 'wt_C13', 4, 'C15', 'C15',
     '_rsi divides by (avg_loss + 1e-10) instead of branching on avg_loss == 0',
     'tiny prices (1e-8 scale) or a strictly rising series'),
    ('C16-equity-sample-uses-portfolio-value', 'wt_C16', 1, 'C16', 'C16',
     'save_daily_portfolio_balance drops the futures branch and uses strategy.portfolio_value (PnL x leverage)',
     'futures leverage > 1 with a position open when a daily sample is taken'),
    ('C16-win-rate-over-total', 'wt_C16', 2, 'C16', 'C16',
     'win_rate = winners / total instead of winners / (winners + losers)',
     'at least one break-even trade'),
    ('C17-round-decimals-down-rounds-at-0', 'wt_C16', 3, 'C17', 'C17',
     'round_decimals_down uses np.round for decimals == 0',
     'precision 0 and a fractional part >= 0.5'),
    ('C19-int-gene-rounds-half-up-by-truncation', 'wt_C16', 4, 'C19', 'C19',
     'dna_to_hp int branch uses int(x + 0.5) instead of int(round(x))',
     'an int hyperparameter with a negative bound'),
    ('C08-falling-candle-sorted-descending', 'wt_C16', 5, 'C08', 'C08',
     '_sort_execution_orders on a falling candle sorts all orders descending (orders above the open tried farthest first)',
     'a falling candle whose upper wick reaches two or more resting orders above the open'),
    ('C18-grow-once-per-bucket', 'wt_C18', 1, 'C18', 'C18',
     'DynamicNumpyArray.append grows only when (index + 1) % bucket_size == 0',
     'interleaved delete/append between two bucket boundaries'),
    ('C20-leading-gap-filled-at-first-close', 'wt_C18', 2, 'C20', 'C20',
     '_fill_absent_candles fills leading missing minutes at the first known close instead of the first known open',
     'a batch whose first provided candle is later than the start timestamp'),
    ('C20-add-candle-direct-index', 'wt_C18', 3, 'C20', 'C20',
     'CandlesState.add_candle replaces an older candle by computed index instead of searching the equal timestamp',
     'a stored series with a skipped stretch, then an older candle re-added'),
    # ---------------------------------------------------------------------------------------------- round 2
    ('C09-chunk-liquidation-checks-last-minute-only', 'wt_R09', 1, 'C09', 'C09',
     'fast mode: _check_for_liquidations receives the last 1m candle of the chunk instead of the aggregated chunk',
     'fast_mode, route timeframe > 1m, a wick to the liquidation price in a minute other than the last of the chunk'),
    ('C09-step-liquidation-checks-remaining-candle', 'wt_R09', 2, 'C09', 'C09',
     'step mode: _check_for_liquidations receives current_temp_candle (what a fill left over) instead of the whole minute',
     'a minute in which a resting order fills and whose wick also reaches the liquidation price'),
    ('C09-liquidation-price-cached-across-increase', 'wt_R09', 3, 'C09', 'C09',
     'Position.liquidation_price memoised and not invalidated in _mutating_increase',
     'a scale-in followed by a wick between the first fill\'s liquidation price and the averaged one'),
    ('C11-candles-shallow-copied', 'wt_R11', 1, 'C11', 'C11',
     '_isolated_backtest copies the candle dicts but shares the numpy arrays with the caller',
     'candles with price jumps (the simulator patches them in place)'),
    ('C11-warmup-zero-keeps-previous', 'wt_R11', 2, 'C11', 'C11',
     'set_config installs warm_up_candles only when it is truthy',
     'warm_up_candles = 0 after a session with a non-zero warm-up'),
    ('C11-empty-metrics-shared-dict', 'wt_R11', 3, 'C11', 'C11',
     'the zero-trade metrics literal hoisted to a module constant returned by reference',
     'a session closing no trade and a caller that edits the dict it received'),
    ('C17-limit-stop-loss-measured-against-stop', 'wt_R17', 1, 'C17', 'C17',
     'limit_stop_loss measures the risk percentage against the stop price instead of the entry',
     'stops within pct^2/100 percent of the cap boundary'),
    ('C17-sum-floats-12-significant-digits', 'wt_R17', 2, 'C17', 'C17',
     'sum_floats / subtract_floats read their operands through format(x, ".12g")',
     'operands with more than 12 significant digits (1e4 and above with 8 decimals)'),
    ('C17-floor-with-precision-rounds-first', 'wt_R17', 3, 'C17', 'C17',
     'floor_with_precision rounds num * 10**p to 6 decimals before flooring',
     'a quotient within 5e-7 steps below a precision-step multiple'),
    ('C19-charset-range-drops-last-letter', 'wt_R19', 1, 'C19', 'C19',
     'Optimizer default charset generated with range(40, 119): the letter w is missing',
     'the last letter of the alphabet / the top of a wide range'),
    ('C19-default-zero-replaced-by-min', 'wt_R19', 2, 'C19', 'C19',
     "Strategy._init_objects uses dna.get('default') or dna['min']",
     'a declared default of exactly 0 with min != 0'),
    ('C19-dna-overrides-explicit-hyperparameters', 'wt_R19', 3, 'C19', 'C19',
     '_prepare_routes drops the `hyperparameters is None` guard: dna() overrides explicit values',
     'a strategy with a non-empty dna() and a caller passing hyperparameters'),
    ('C08-no-resort-after-fill', 'wt_R08', 1, 'C08', 'C08',
     '_simulate_price_change_effect no longer re-sorts the candidates fetched after a fill',
     'three or more resting orders in one candle whose creation order differs from the path order'),
    ('C08-gap-fix-uses-previous-high', 'wt_R08', 2, 'C08', 'C08',
     '_get_fixed_jumped_candle extends a down-gap minute to the previous HIGH instead of the previous close',
     'a down-gap after a candle with an upper wick and an order resting inside that wick'),
    ('C08-split-whole-candle', 'wt_R08', 3, 'C08', 'C08',
     '_simulate_price_change_effect splits real_candle instead of the remaining part',
     'a two-level reaction chain (order created by a fill hook, then another one)'),
    ('C14-minmax-index-precedence', 'wt_R14', 1, 'C14', 'C14',
     'minmax returns is_min[-order+1] instead of is_min[-(order+1)]',
     'a strict local extremum exactly order+1 from the end'),
    ('C14-midprice-guard-off-by-one', 'wt_R14', 2, 'C14', 'C14',
     'midprice non-sequential guard len(candles) <= period',
     'input length equal to the period'),
    ('C14-trima-even-period-length', 'wt_R14', 3, 'C14', 'C14',
     'trima uses the odd-period kernel for even periods: the sequential result has n-1 entries',
     'an even period (the default 30) and a check of the sequential length'),
    ('C13-stc-closed-form-ema-overflows', 'wt_R13', 1, 'C13', 'C13',
     'stc helper ema() replaced by the closed-form vectorisation with (1-a)**(n-1) factors',
     'more than about 1075 candles (float underflow / overflow); invisible in real arithmetic'),
    ('C13-acosc-gradient-looks-ahead', 'wt_R13', 2, 'C13', 'C13',
     'acosc change field computed with np.gradient (central differences)',
     'any interior value compared between two input lengths'),
    ('C13-kvo-backfills-trend-on-ties', 'wt_R13', 3, 'C13', 'C13',
     'kvo trend vectorised with searchsorted(side=left): unchanged bars take the sign of the NEXT move',
     'consecutive bars with exactly equal (H+L+C)/3'),
    ('C18-append-multiple-stale-offset-after-drop', 'wt_R18', 1, 'C18', 'C18',
     'append_multiple writes at an offset captured before the drop-oldest shift',
     'a drop_at array and a bulk append landing exactly on a multiple of drop_at'),
    ('C18-append-inplace-shift-odd-limit', 'wt_R18', 2, 'C18', 'C18',
     'append replaces np_shift by an in-place copy that is off by one for odd drop_at',
     'an odd drop_at with single appends'),
    ('C18-delete-never-regrows', 'wt_R18', 3, 'C18', 'C18',
     'delete re-grow guard compares with self.index: the buffer shrinks by one row per delete',
     'repeated fill-and-empty cycles (bucket cycles), then an append'),
    ('C03-flip-opens-with-whole-order-size', 'wt_R03', 1, 'C03', 'C03',
     'Position flip: diff_qty inlined after _mutating_close, so the new position opens with the whole order quantity',
     'a non-reduce-only order larger than the open position on the opposite side'),
    ('C03-cancel-reduce-only-releases-foreign-row', 'wt_R03', 2, 'C03', 'C03',
     'on_order_cancellation loses the `not reduce_only` guard',
     'a reduce-only order and an ordinary one resting at the same qty and price; the reduce-only one cancelled'),
    ('C03-pending-market-orders-reserve-nothing', 'wt_R03', 3, 'C03', 'C03',
     'on_order_submission skips the reservation for MARKET orders',
     'two market orders outstanding in the same tick'),
    ('C06-plain-float-position-size', 'wt_R06', 1, 'C06', 'C06',
     'Position._update_qty uses += / -= instead of sum_floats / subtract_floats',
     'fractional multi-point entries (0.1 + 0.2) exited by one order for the decimal total'),
    ('C06-fast-mode-fill-timestamp-is-chunk-start', 'wt_R06', 2, 'C06', 'C06,C01',
     'fast mode sets store.app.time from real_candle[0] (chunk start) at a fill',
     'fast_mode, route timeframe > 1m, a fill that is not in the first minute of the bar'),
    ('C06-to-dict-rounds-money-fields', 'wt_R06', 3, 'C06', 'C06',
     'ClosedTrade.to_dict rounds fee / size / PNL / PNL_percentage to 2 decimals',
     'trades with a material sub-cent PnL'),
    ('C20-full-batch-fast-path', 'wt_R20', 1, 'C20', 'C20',
     '_fill_absent_candles returns the raw batch when its length equals the interval length',
     'a batch of the right size containing a candle outside the interval'),
    ('C20-add-candle-never-reaches-row-0', 'wt_R20', 2, 'C20', 'C20',
     'add_candle search rewritten as range(len(arr) - 2, 0, -1): index 0 is never examined',
     'a re-sent candle carrying the timestamp of the oldest stored candle'),
    ('C20-spacing-gate-only-above-60s', 'wt_R20', 3, 'C20', 'C20',
     'isolated backtest rejects leading spacing > 60000 ms instead of != 60000 ms',
     'leading candles closer than one minute (duplicates, descending order)'),
    ('C05-active-list-never-pruned', 'wt_R05', 1, 'C05', 'C05',
     'update_active_orders filter uses `or` instead of `and`',
     'a consumer of get_active_orders() that does not re-filter by status'),
    ('C05-silent-execution-not-recorded', 'wt_R05', 2, 'C05', 'C05',
     'Order.execute records the order in a trade only when not silent',
     'execute(silent=True)'),
    ('C05-cancel-flips-executed-order', 'wt_R05', 3, 'C05', 'C05',
     'Order.cancel returns early only for cancelled orders: an executed order becomes CANCELED',
     'a cancel request aimed at an already executed order'),
]


def main():
    src_root = sys.argv[1] if len(sys.argv) > 1 else '/tmp'
    out_root = os.path.join(VERIF, 'seeded')
    os.makedirs(out_root, exist_ok=True)
    rows = []
    for sid, wt, k, prop, check, change, needs in TABLE:
        d = os.path.join(out_root, sid)
        os.makedirs(d, exist_ok=True)
        w = os.path.join(src_root, wt)
        if os.path.exists(os.path.join(w, f'mutant_{k}.diff')):
            shutil.copy(os.path.join(w, f'mutant_{k}.diff'), os.path.join(d, 'patch.diff'))
            shutil.copy(os.path.join(w, f'demo_{k}.py'), os.path.join(d, 'demo.py'))
        res_file = os.path.join(VERIF, 'out', 'seed_eval', f'{wt}_{k}.txt')
        confirm, checks, lines = None, {}, []
        if os.path.exists(res_file):
            for line in open(res_file):
                line = line.rstrip('\n')
                if line.startswith('confirm:'):
                    confirm = line[len('confirm: '):]
                m = re.match(r'check (C\d\d) exit=(\d+)', line)
                if m:
                    checks[m.group(1)] = int(m.group(2))
                if line.startswith('VIOLATION'):
                    lines.append(re.sub(r'replay=/verif/out/replays/', 'replay=out/replays/', line))
        meta_path = os.path.join(d, 'meta.json')
        old = json.load(open(meta_path)) if os.path.exists(meta_path) else {}
        meta = {
            'id': sid, 'property': prop, 'change': change, 'needs_to_manifest': needs,
            'produced_by': 'fresh sub-agent given only the property text and its own scratch worktree',
            'confirmed': confirm or old.get('confirmed'),
            'what_i_ran': [
                f'scratch worktree at /repo HEAD: git apply patch.diff; PYTHONPATH=<wt> /venv/bin/python -m pytest -q -p no:cacheprovider --timeout=900 (suite must pass); '
                f'PYTHONPATH=<wt> /venv/bin/python demo.py (exit 1 with the change, 0 without)  [tools/seed_eval.sh]',
                f'PYVC_REPO=<wt> python3-vt check.py {check}   (equivalently: git -C /repo apply seeded/{sid}/patch.diff; python3-vt check.py {check}; git -C /repo checkout -- .)',
            ],
            'check_exit_codes': checks or old.get('check_exit_codes'),
            'violations_reported': lines[:6] or old.get('violations_reported'),
            'detected': (any(v == 1 for v in checks.values()) if checks else old.get('detected')),
        }
        json.dump(meta, open(meta_path, 'w'), indent=1)
        rows.append((sid, prop, meta['detected'], meta['check_exit_codes'], (lines[0].split('replay=')[1].split('/')[-1].replace('.json', '') if lines else '')))
    for r in rows:
        print(r)


if __name__ == '__main__':
    main()
