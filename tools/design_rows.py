#!/usr/bin/env python3
"""prints the DESIGN.md table rows of the stored seeded changes of one round: design_rows.py <round>"""
import glob, json, os, re, sys
VERIF = os.path.dirname(os.path.dirname(os.path.abspath(__file__)))
rnd = int(sys.argv[1])
for mp in sorted(glob.glob(os.path.join(VERIF, 'seeded', '*', 'meta.json'))):
    m = json.load(open(mp))
    if m.get('round') != rnd:
        continue
    v = m.get('violations_reported') or []
    ob = ''
    if v:
        mm = re.search(r'replays/C\d\d/(.+?)\.json(.*)', v[0])
        ob = '`' + mm.group(1) + '`' + (' (no-failing-input-found)' if 'no-failing' in mm.group(2) else '')
    else:
        ob = '**not detected** (see text)' if not m.get('detected') else ''
    needs = str(m.get('needs_to_manifest') or '').replace('|', '/').replace('\n', ' ')[:160]
    print(f"| {rnd} | `{m['id']}` | {m['property']} | {needs} | {ob} |")
