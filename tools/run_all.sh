#!/bin/bash
# runs every claimed check (tier $1, default quick) on the current /repo tree; prints one line per property
cd /verif
tier=${1:-quick}
rc_all=0
for p in $(python3 -c "import json;print(' '.join(c['property_id'] for c in json.load(open('MANIFEST.json'))['checks']))"); do
  out=$(python3-vt check.py $p --tier $tier 2>&1); rc=$?
  echo "$out" | grep -E "^(VIOLATION|KNOWN-FINDING|CHECKER-ERROR|UNDECIDED)" | cut -c1-200
  echo "$out" | tail -1
  [ $rc -ne 0 ] && rc_all=1
done
python3-vt - <<'PY'
import json, jsonschema, glob
s=json.load(open('/root/.vp/EVIDENCE.schema.json'))
for f in sorted(glob.glob('/verif/evidence/*.json')):
    e=json.load(open(f)); jsonschema.validate(e,s)
    c=e['coverage']
    if e['level']=='proof' and c.get('obligations')!=c.get('discharged'): print('EVIDENCE MISMATCH', f)
print('evidence files valid')
PY
exit $rc_all
