#!/bin/bash
# evalwt.sh <worktree>: evaluate every mutant_k of a worktree with the check of its property
wt=$1
for n in $wt/notes_*.json; do
  k=$(basename $n .json | cut -d_ -f2)
  prop=$(python3 -c "import json;print(json.load(open('$n'))['property'])")
  PYVC_JOBS=6 /verif/tools/seed_eval.sh $wt $k $prop > /dev/null 2>&1
done
echo done $wt
