#!/usr/bin/env python3
"""Collects the seeded changes of a later round (scratch worktrees <dir>/w*/ with mutant_k.diff, demo_k.py, notes_k.json) into
/verif/seeded/<id>/ {patch.diff, demo.py, meta.json}; confirmation and check results are read from
/verif/out/seed_eval/<worktree>_<k>.txt (tools/seed_eval.sh).  usage: mkseeded2.py <round> <dir> [<worktree>_<k>=<slug> ...]"""
import glob, json, os, re, shutil, sys

VERIF = os.path.dirname(os.path.dirname(os.path.abspath(__file__)))


def slug(text, n=6):
    words = re.findall(r'[A-Za-z0-9_]+', text.lower())
    stop = {'the', 'a', 'an', 'of', 'to', 'in', 'is', 'now', 'and', 'with', 'for', 'its', 'it', 'on', 'by', 'that', 'so', 'are', 'from', 'instead'}
    words = [w for w in words if w not in stop][:n]
    return '-'.join(words)[:60].strip('-')


def main():
    rnd, root = sys.argv[1], sys.argv[2]
    over = dict(a.split('=', 1) for a in sys.argv[3:])
    out = []
    for notes in sorted(glob.glob(os.path.join(root, 'w*', 'notes_*.json'))):
        wt = os.path.dirname(notes)
        w = os.path.basename(wt)
        k = re.search(r'notes_(\d+)\.json', notes).group(1)
        m = json.load(open(notes))
        prop = m['property']
        sid = f"{prop}-" + over.get(f'{w}_{k}', slug(m['change']))
        ev = os.path.join(VERIF, 'out', 'seed_eval', f'{w}_{k}.txt')
        if not os.path.exists(ev):
            print('no evaluation for', w, k)
            continue
        lines = open(ev).read().splitlines()
        confirm = lines[0][len('confirm: '):] if lines and lines[0].startswith('confirm: ') else ''
        if 'clean_demo_exit=0' not in confirm or 'mutant_demo_exit=0' in confirm or ' failed' in confirm or 'passed' not in confirm:
            print('NOT CONFIRMED', w, k, confirm)
            continue
        codes = {mm.group(1): int(mm.group(2)) for mm in (re.match(r'check (C\d\d) exit=(\d+)', l) for l in lines) if mm}
        viol = [l for l in lines if l.startswith('VIOLATION')]
        d = os.path.join(VERIF, 'seeded', sid)
        os.makedirs(d, exist_ok=True)
        shutil.copy(os.path.join(wt, f'mutant_{k}.diff'), os.path.join(d, 'patch.diff'))
        shutil.copy(os.path.join(wt, f'demo_{k}.py'), os.path.join(d, 'demo.py'))
        meta = {
            'id': sid, 'property': prop, 'round': int(rnd), 'change': m['change'], 'needs_to_manifest': m.get('needs_to_manifest'),
            'files': m.get('files'),
            'produced_by': 'fresh sub-agent given only the property text, the list of ideas used before and its own scratch worktree',
            'confirmed': confirm,
            'what_i_ran': [
                'scratch worktree at /repo HEAD: git apply patch.diff; PYTHONPATH=<wt> /venv/bin/python -m pytest -q -p no:cacheprovider --timeout=900 '
                '(suite must pass); PYTHONPATH=<wt> /venv/bin/python demo.py (exit 1 with the change, 0 without)  [tools/seed_eval.sh]',
                f'PYVC_REPO=<wt> python3-vt check.py {prop}   (equivalently: git -C /repo apply seeded/{sid}/patch.diff; python3-vt check.py {prop}; '
                'git -C /repo checkout -- .)'],
            'check_exit_codes': codes,
            'violations_reported': [v.replace('/verif/', '') for v in viol][:6],
            'detected': codes.get(prop) == 1,
        }
        json.dump(meta, open(os.path.join(d, 'meta.json'), 'w'), indent=1)
        out.append((sid, prop, codes.get(prop), bool(viol and 'no-failing-input-found' not in viol[0])))
    for r in out:
        print(*r)
    print(len(out), 'stored;', sum(1 for r in out if r[2] == 1), 'detected')


if __name__ == '__main__':
    main()
