#!/usr/bin/env python3
"""check.py <Cxx> [--tier quick|thorough] [--replay file] [--update-lock] [--jobs N] [--only task,...]

Decides one property by contract-based deductive verification of the real code in /repo:
  extract (ast) -> symbolic execution against the sidecar contracts -> z3 / cvc5 -> native replay.
Run under python3-vt (z3); the native replay helpers run under /venv/bin/python.
"""
import argparse
import importlib
import json
import re
import os
import sys
import time
import traceback

HERE = os.path.dirname(os.path.abspath(__file__))
sys.path.insert(0, HERE)

from pyvc import report as R            # noqa: E402
from pyvc.harness import run_tasks, repo   # noqa: E402

LOCK = os.path.join(HERE, 'contracts', 'obligations.lock.json')


TASKMAP = os.path.join(os.path.dirname(os.path.abspath(__file__)), 'contracts', 'obligations.tasks.json')


def load_taskmap():
    try:
        with open(TASKMAP) as f:
            return json.load(f)
    except (OSError, ValueError):
        return {}


def load_lock():
    if os.path.exists(LOCK):
        with open(LOCK) as f:
            return json.load(f)
    return {}


def main():
    ap = argparse.ArgumentParser()
    ap.add_argument('prop')
    ap.add_argument('--tier', default=os.environ.get('VERIF_TIER', 'quick'))
    ap.add_argument('--replay')
    ap.add_argument('--update-lock', action='store_true')
    ap.add_argument('--jobs', type=int, default=0)
    ap.add_argument('--only', default='')
    ap.add_argument('--verbose', '-v', action='store_true')
    a = ap.parse_args()
    tier = a.tier if a.tier in ('quick', 'thorough') else 'quick'
    seed = int(os.environ.get('VERIF_SEED', '0') or 0)
    prop = a.prop
    findings = R.active_findings(prop)
    os.environ['PYVC_FINDINGS'] = json.dumps([e['id'] for e in findings])
    try:
        mod = importlib.import_module(f'props.{prop}')
    except Exception:
        traceback.print_exc()
        print(f'CHECKER-ERROR property={prop}: cannot load props/{prop}.py')
        return 3
    if a.replay:
        with open(a.replay) as f:
            rec = json.load(f)
        res = R.native([os.path.join(HERE, 'native', 'run.py'), prop], rec.get('payload', rec))
        print(json.dumps(res, indent=1))
        return 1 if res.get('confirmed') else 0

    rep = R.Report(prop, tier, seed, level=getattr(mod, 'LEVEL', 'proof'))
    try:
        tasks = mod.tasks(tier)
    except Exception:
        traceback.print_exc()
        print(f'CHECKER-ERROR property={prop}: building tasks failed')
        return 3
    if a.only:
        keep = set(a.only.split(','))
        tasks = [t for t in tasks if t.id in keep or any(t.id.startswith(k) for k in keep)]
    ids = [t.id for t in tasks]
    bounded = {t.id: t.cfg.get('extra', {}).get('bounded') for t in tasks if t.cfg.get('extra', {}).get('bounded')}
    # every task has a wall-clock budget (a change can send the path exploration of a loop into a search that never ends): a task
    # that exceeds it is stopped and reported as undecided, its obligations go to the bounded native stand-in
    default_budget = int(os.environ.get('PYVC_TASK_BUDGET_S', '0')) or (1500 if tier == 'quick' else 4 * 3600)
    budgets = {t.id: (t.cfg.get('extra', {}).get('task_timeout_s') or default_budget) for t in tasks}
    results = run_tasks(f'props.{prop}', ids, tier, seed, jobs=a.jobs or None, budgets=budgets)
    by, stats, errors = R.aggregate(results)

    exit_code = 0
    undecided = []
    violated = False
    replays_early = []
    for tid, err in errors:
        if 'KeyError' in err and ': not found in ' in err:
            # a function under contract was renamed or removed: its obligations cannot be generated -> undecided
            what = err.strip().splitlines()[-1]
            rep.say(f'UNDECIDED property={prop} task={tid}: a function under contract no longer exists ({what})')
            undecided.append(tid + ':function-under-contract-exists')
            continue
        rep.say(f'CHECKER-ERROR property={prop} task={tid}\n{err}')
        exit_code = 3

    # must-fail guard: a deliberately false clause behind the real preconditions must be refuted
    mustfail = [k for k in by if k.endswith('.mustfail')]
    for k in mustfail:
        e = by.pop(k)
        if R.status_of(e) != 'refuted':
            rep.say(f'CHECKER-ERROR property={prop}: must-fail obligation {k} was not refuted ({R.status_of(e)}): '
                    'the harness is vacuous')
            exit_code = 3
    if not mustfail and not a.only:
        left_reach = [k for k in by if k.endswith(':in-subset') or k.endswith(':in-budget')]
        if left_reach and not getattr(mod, 'PARTIAL', False):
            # the task that carries the must-fail clause left the verifier's reach on this tree: undecided, not a checker defect
            rep.say(f'UNDECIDED property={prop}: the must-fail clause was not reached because {left_reach[:3]} left the verifier\'s reach')
            undecided.append('mustfail-not-reached')
        else:
            rep.say(f'CHECKER-ERROR property={prop}: no must-fail obligation was generated')
            exit_code = 3

    # vacuity covers
    dead = [k for k, v in stats['covers'].items() if not v]
    for k in dead:
        rep.say(f'CHECKER-ERROR property={prop}: cover {k} is unreachable (vacuous precondition or invariant)')
        exit_code = 3

    # partial claims (indicator breadth): functions outside the engine's subset / time budget on THIS tree are not under contract;
    # an obligation that was decided on the tree the lock was taken from and is missing now is still reported (lock check below)
    not_under_contract = []
    if getattr(mod, 'PARTIAL', False):
        for k in [k for k in by if k.endswith(':in-subset') or k.endswith(':in-budget')]:
            e = by.pop(k)
            d = (e['unknown'][0].get('detail') if e['unknown'] else '') or ''
            not_under_contract.append({'function': k.rsplit(':', 1)[0], 'reason': d[:160]})

    # split bounded stand-ins from proof obligations
    proof_obls = {}
    bounded_obls = {}
    for k, e in by.items():
        if (e['tasks'] and all(t in bounded for t in e['tasks'])) or k.endswith('.native-bounded'):
            bounded_obls[k] = e
        else:
            proof_obls[k] = e

    # obligation lock: the same obligations as on the tree the contracts were written for
    lock = load_lock()
    if a.update_lock:
        lock[prop] = sorted(by.keys())
        os.makedirs(os.path.dirname(LOCK), exist_ok=True)
        with open(LOCK, 'w') as f:
            json.dump(lock, f, indent=1, sort_keys=True)
        # which task generates which obligation (used to pick the bounded native stand-in of a task that became undecidable)
        tm = load_taskmap()
        tm[prop] = {}
        for k, e in by.items():
            for t in e.get('tasks') or []:
                tm[prop].setdefault(t, []).append(k)
        with open(TASKMAP, 'w') as f:
            json.dump(tm, f, indent=1, sort_keys=True)
        rep.say(f'lock updated: {len(lock[prop])} obligations')
    elif not a.only:
        expected = set(lock.get(prop, []))
        if not expected:
            rep.say(f'CHECKER-ERROR property={prop}: no obligation lock recorded')
            exit_code = 3
        missing = sorted(expected - set(by.keys()))
        if missing:
            # an expected obligation is gone: extraction produced fewer obligations (code moved, sidecar stale, construct
            # outside the subset).  The verifier cannot decide it any more; the BOUNDED native replay of that obligation stands
            # in: a concrete failing input on the real code is a violation, none leaves it undecided.
            rep.say(f'UNDECIDED property={prop}: {len(missing)} expected obligation(s) were not generated: {missing[:8]}')
            why = {k.rsplit(':', 1)[0]: (by[k]['unknown'][0].get('detail') if by[k].get('unknown') else '') for k in by
                   if k.endswith(':in-subset') or k.endswith(':in-budget')}
            tried = 0
            for k in missing:
                if re.search(r'\.loop\d+\.inv\d+\.', k) or k.endswith('.mustfail') or tried >= 8:
                    undecided.append(k)
                    continue
                tried += 1
                try:
                    res = R.native([os.path.join(HERE, 'native', 'run.py'), prop], {'obligation': k, 'task': None, 'model': {}, 'seed': seed})
                except Exception as ex:
                    res = {'error': f'native replay crashed: {ex}'}
                if res.get('confirmed'):
                    path = rep.write_replay(k, {'property': prop, 'obligation': k,
                                                'solver': {'backend': 'none', 'detail': 'obligation could not be generated on this tree; '
                                                           'bounded native stand-in: ' + json.dumps(why)[:600]},
                                                'native': res, 'rerun': f'python3-vt check.py {prop}'})
                    rep.say(f'      obligation {k} could not be generated; bounded native stand-in FAILED: {res.get("detail")}')
                    rep.violation(path, True)
                    replays_early.append(path)
                    violated = True
                else:
                    undecided.append(k)

    n_obl = len(proof_obls)
    n_dis = 0
    samples = []
    replays = list(replays_early)
    for k in sorted(by.keys()):
        e = by[k]
        st = R.status_of(e)
        tag = ' [bounded]' if k in bounded_obls else ''
        if a.verbose or st != 'proved':
            rep.say(f'  {st:10s} {k}{tag} ({e["instances"]} vc)')
        if st == 'proved':
            if k in proof_obls:
                n_dis += 1
            if len(samples) < 6:
                samples.append({'obligation': k, 'verdict': 'proved', 'vcs': e['instances'], 'info': e.get('info')})
        elif st == 'undecided':
            undecided.append(k)
            for u in e['unknown'][:3]:
                rep.say(f'      {u["status"]}: {u.get("detail", "")}')
            if (k.endswith(':in-subset') or k.endswith(':in-budget')) and not getattr(mod, 'PARTIAL', False):
                # the task left the verifier's reach on this tree: its obligations get the bounded native stand-in
                tid = k.rsplit(':', 1)[0]
                for ob in [o for o in load_taskmap().get(prop, {}).get(tid, []) if not o.endswith('.mustfail')
                           and not re.search(r'\.loop\d+\.inv\d+\.', o)][:4]:
                    try:
                        res = R.native([os.path.join(HERE, 'native', 'run.py'), prop], {'obligation': ob, 'task': tid, 'model': {}, 'seed': seed})
                    except Exception as ex:
                        res = {'error': f'native replay crashed: {ex}'}
                    if res.get('confirmed'):
                        path = rep.write_replay(ob, {'property': prop, 'obligation': ob,
                                                     'solver': {'backend': 'none', 'detail': 'task ' + tid + ' is outside the verifier\'s reach on this '
                                                                'tree (' + str((e['unknown'][0].get('detail') if e['unknown'] else ''))[:300] + '); bounded native stand-in'},
                                                     'native': res, 'rerun': f'python3-vt check.py {prop}'})
                        rep.say(f'      obligation {ob} could not be generated; bounded native stand-in FAILED: {res.get("detail")}')
                        rep.violation(path, True)
                        replays.append(path)
                        violated = True
                        break
        else:
            # refuted: replay the counterexample on the real code
            rec = e['refuted'][0]
            payload = {'obligation': k, 'task': rec.get('task'), 'model': rec.get('model'), 'info': rec.get('info'),
                       'detail': rec.get('detail'), 'seed': seed,
                       'other_models': [r.get('model') for r in e['refuted'][1:5]]}
            try:
                res = R.native([os.path.join(HERE, 'native', 'run.py'), prop], payload)
            except Exception as ex:
                res = {'error': f'native replay crashed: {ex}'}
            confirmed = bool(res.get('confirmed'))
            path = rep.write_replay(k, {'property': prop, 'obligation': k, 'clause': rec.get('info'),
                                        'solver': {'backend': rec.get('backend'), 'model': rec.get('model'),
                                                   'detail': rec.get('detail'), 'path': rec.get('path')},
                                        'native': res, 'payload': payload,
                                        'rerun': f'python3-vt check.py {prop} --replay <this file>'})
            rep.say(f'      obligation {k} FAILED; native replay: ' +
                    (f'confirmed: {res.get("detail")}' if confirmed else f'not reproduced ({res.get("detail") or res.get("error")})'))
            if not confirmed and re.search(r'\.loop\d+\.inv\d+\.', k):
                # a sidecar loop invariant that no longer holds means the loop was rewritten: the proof is lost, which is not a
                # violation of the property unless the real code misbehaves (brittle-proof guard)
                rep.say(f'UNDECIDED property={prop}: loop invariant {k} no longer holds and no failing input was found: the sidecar '
                        'invariant does not fit the current loop')
                undecided.append(k)
                continue
            rep.violation(path, confirmed)
            replays.append(path)
            violated = True

    # known findings: replay each recorded witness; print only while it still fails
    for e in findings:
        try:
            res = R.native([os.path.join(HERE, 'native', 'run.py'), prop], {'finding': e, 'seed': seed})
        except Exception as ex:
            res = {'error': str(ex)}
        if res.get('confirmed'):
            rep.say(f'KNOWN-FINDING: property={prop} {e["what"]}')
            rep.known_printed.append(e['id'])
        elif res.get('error'):
            rep.say(f'CHECKER-ERROR property={prop}: replay of known finding {e["id"]} failed: {res.get("error")} '
                    f'{res.get("stderr", "")[-800:]}')
            exit_code = 3 if exit_code == 0 else exit_code

    # decorators are transparent for the engine (A-4 / A-5): a function under contract that is wrapped by anything but the decorators
    # accounted for leaves the verifier's reach (a memoising or otherwise behaviour-changing wrapper is not modelled)
    ALLOWED_DECORATORS = {'property', 'staticmethod', 'classmethod', 'abstractmethod', 'setter', 'njit', 'jit', 'guvectorize', 'lru_cache'}
    from pyvc.source import RepoFunc, RepoClass
    rp0 = repo()
    for q in getattr(mod, 'FUNCTIONS', []):
        try:
            f = rp0.find(q)
        except Exception:
            continue
        fns = [f] if isinstance(f, RepoFunc) else ([m for m in f.members.values() if isinstance(m, RepoFunc)] if isinstance(f, RepoClass) else [])
        for fn in fns:
            odd = [d for d in fn.decorators if d not in ALLOWED_DECORATORS]
            if 'lru_cache' in fn.decorators and not (fn.qual.startswith('jesse.helpers.') or fn.qual.endswith('._min_qty')):
                odd.append('lru_cache')
            if odd:
                rep.say(f'UNDECIDED property={prop}: function under contract {fn.qual} is wrapped by @{", @".join(odd)}: decorators are '
                        'transparent for the verifier, this one is not accounted for')
                undecided.append(f'{fn.qual}:decorator-accounted-for')
    if undecided and exit_code == 0:
        exit_code = 2
    if violated:
        # a refuted obligation outranks whatever else went wrong (e.g. the must-fail clause behind it was never reached)
        exit_code = 1
    funcs = []
    rp = repo()
    for q in getattr(mod, 'FUNCTIONS', []):
        try:
            f = rp.find(q)
            funcs.append({'name': q, 'sha256': rp.sha(f) if hasattr(f, 'node') and hasattr(f, 'mod') else None})
        except Exception as ex:
            funcs.append({'name': q, 'error': str(ex)})
    coverage = {
        'obligations': n_obl, 'discharged': n_dis,
        'checker_cmd': f'python3-vt check.py {prop} --tier {tier}',
        'trusted_base': sorted(stats['used']) + list(getattr(mod, 'TRUSTED', [])),
        'vcs': sum(e['instances'] for e in by.values()), 'paths': stats['paths'], 'tasks': stats['tasks'],
        'functions_under_contract': funcs,
        'per_backend': stats['per_backend'],
        'solver_ms': {'total': round(stats['solver_ms']), 'max': round(stats['max_ms']), 'slow': stats['slow']},
        'bounded_checks': [{'id': k, 'bound': sorted(bounded[t] for t in e['tasks'] if t in bounded),
                            'verdict': R.status_of(e)} for k, e in sorted(bounded_obls.items())],
        'covers': {'total': len(stats['covers']), 'unreachable': dead},
        'mustfail_refuted': len(mustfail),
        'known_findings': rep.known_printed,
        'undecided': undecided,
        'not_under_contract': not_under_contract,
        'samples': samples or [{'obligation': k, 'verdict': R.status_of(e)} for k, e in list(by.items())[:3]],
        'explanation': getattr(mod, 'EXPLANATION', ''),
        'exhaustive': False,
    }
    if rep.level != 'proof' or n_obl == 0:
        coverage['evaluations'] = max(1, coverage['vcs'])
        coverage['distinct_nontrivial'] = max(2, len(by))
        coverage['rule'] = 'one evaluation per verification condition (obligation instance on one path); distinct = obligation ids'
    rep.write_evidence(coverage, list(getattr(mod, 'ASSUMPTIONS', [])),
                       extra={'exit_code': exit_code, 'replays': replays})
    rep.say(f'{prop} [{tier}] obligations={n_obl} discharged={n_dis} bounded={len(bounded_obls)} vcs={coverage["vcs"]} '
            f'paths={stats["paths"]} solver_ms={round(stats["solver_ms"])} wall={time.time() - rep.t0:.1f}s exit={exit_code}')
    return exit_code


if __name__ == '__main__':
    sys.exit(main())
