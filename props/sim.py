"""Harness for the two simulator loops (backtest_mode._step_simulator, _skip_simulator/_simulate_new_candles).

The loop bodies are the real code; everything they call outside the feed logic is a recording stub
(contracted call), so that one arbitrary iteration i yields an event trace the obligations of C01, C02, C07, C09 and
C16 talk about.  The input arrays record every row index that is read.
"""
from fractions import Fraction
from pyvc import ops, stubs
from pyvc.values import Obj, Sym, Arr, Vec, Opaque
from pyvc.interp import Builtin

BM = 'jesse.modes.backtest_mode'
MINUTES = {'1m': 1, '3m': 3, '5m': 5, '15m': 15, '30m': 30, '45m': 45, '1h': 60, '2h': 120, '3h': 180, '4h': 240, '6h': 360,
           '8h': 480, '12h': 720, '1D': 1440, '3D': 4320, '1W': 10080, '1M': 43200}


class Sim:
    pass


def build(h, symbols=('BTC-USDT',), timeframes=('1m', '5m'), route_tfs=('5m',)):
    """world for one simulator run: symbolic input arrays, recording stubs; returns Sim with .events"""
    ctx = h.ctx
    S = Sim()
    S.events = []
    S.reads = []
    S.inputs = {}
    S.candles = {}
    N = h.int('N', 1)
    S.N = N
    for s in symbols:
        a = ctx.fresh_arr(f'in[{s}]', n=N, np=True, cols=6)
        base_fn = a.fn

        def fn(k, base_fn=base_fn, s=s):
            from pyvc import lib
            S.reads.append((s, k, list(lib.GUARDS)))
            return base_fn(k)
        a.fn = fn
        S.inputs[s] = a
        S.candles[f'Sandbox-{s}'] = {'exchange': 'Sandbox', 'symbol': s, 'candles': a}
    ev = S.events

    def rec(name, ret=None):
        def f(i, a, k):
            ev.append((name, tuple(a), dict(k)))
            return ret
        return f
    app = Obj(None, {'time': Fraction(0), 'starting_time': None, 'ending_time': None, 'daily_balance': []}, name='store.app')
    S.app = app

    def add_candle(i, a, k):
        ev.append(('add_candle', (a[0], a[1], a[2], a[3]), {'time': app.f['time']}))
    cstate = Obj(None, {'add_candle': Builtin('add_candle', add_candle),
                        'add_multiple_1m_candles': Builtin('add_multiple', rec('add_multiple')),
                        'get_current_candle': Builtin('get_current_candle', lambda i, a, k: Vec([Fraction(0)] * 6))})
    # read-only observers of the registry: any number of resting orders, any answer (the loops may not depend on it)
    nobs = []

    def count_active(i, a, k):
        nobs.append(1)
        return h.int(f'active_orders_{len(nobs)}', 0)
    orders = Obj(None, {'update_active_orders': Builtin('update_active_orders', rec('update_active_orders')),
                        'execute_pending_market_orders': Builtin('flush', rec('flush')),
                        'count_active_orders': Builtin('count_active_orders', count_active)})
    store = Obj(None, {'app': app, 'candles': cstate, 'orders': orders}, name='store')
    S.store = store
    routes = []
    for s in symbols:
        for tf in route_tfs:
            strat = Obj(None, {'_execute': Builtin('_execute', (lambda i, a, k, s=s, tf=tf: ev.append(('strategy', (s, tf), {'time': app.f['time']})))),
                               '_terminate': Builtin('_terminate', rec('terminate'))}, name='strategy')
            routes.append(Obj(None, {'exchange': 'Sandbox', 'symbol': s, 'timeframe': tf, 'strategy': strat, 'strategy_name': 'S'}))
            break
    formatted = [{'exchange': 'Sandbox', 'symbol': s, 'timeframe': tf} for s in symbols for tf in timeframes if tf != '1m' or '1m' in route_tfs]
    router = Obj(None, {'routes': routes, 'all_formatted_routes': formatted}, name='router')
    S.router = router
    cfgd = {'app': {'considering_candles': [('Sandbox', s) for s in symbols], 'considering_timeframes': tuple(timeframes),
                    'debug_mode': False}}
    g = ctx.cfg.globals
    g[f'{BM}.store'] = lambda i: store
    g[f'{BM}.router'] = lambda i: router
    g[f'{BM}.config'] = lambda i: cfgd
    ov = ctx.cfg.overrides
    ov.update(stubs.backtest_mode())
    # a position object exists for every symbol (code guarded by `if p:` must be executed, not skipped)
    S.positions = {s: Obj(None, {'current_price': None, 'symbol': s, 'exchange_name': 'Sandbox'}, name=f'position[{s}]') for s in symbols}
    ov['jesse.services.selectors.get_position'] = lambda i, a, k: S.positions.get(a[1])
    ov[f'{BM}._prepare_times_before_simulation'] = rec('prepare_times')
    ov[f'{BM}._prepare_routes'] = rec('prepare_routes')
    ov[f'{BM}.save_daily_portfolio_balance'] = lambda i, a, k: ev.append(('daily', tuple(a), dict(k)))
    ov['jesse.modes.utils.save_daily_portfolio_balance'] = ov[f'{BM}.save_daily_portfolio_balance']
    ov['jesse.services.progressbar.Progressbar'] = lambda i, a, k: Obj(None, {}, name='progressbar')
    ov[f'{BM}._update_progress_bar'] = lambda i, a, k: Opaque('t')
    ov[f'{BM}._finish_progress_bar'] = lambda i, a, k: None
    ov[f'{BM}._generate_outputs'] = lambda i, a, k: {}
    ov[f'{BM}._simulate_price_change_effect'] = lambda i, a, k: ev.append(('match', tuple(a), {'time': app.f['time']}))
    ov[f'{BM}._simulate_price_change_effect_multiple_candles'] = lambda i, a, k: ev.append(('match_chunk', tuple(a), {'time': app.f['time']}))

    def gen(i, a, k):
        w = a[1]
        out = Vec([ctx.fresh_real('gen') for _ in range(6)])
        ev.append(('generate', (a[0], w, a[2] if len(a) > 2 else k.get('accept_forming_candles', False), out), {}))
        return out
    ov['jesse.services.candle.generate_candle_from_one_minutes'] = gen
    return S


def force_content(h, w, what='q'):
    """evaluate one arbitrary row of a window handed to a consumer, so that every input row its *content* depends on is
    recorded as a read (data flow), not only the rows the simulator indexed itself"""
    if isinstance(w, Arr):
        q = h.int(what, 0)
        h.assume(ops.compare('<', q, w.n))
        import z3
        if h.ctx.feasible(z3.BoolVal(True)):
            w.fn(q)
    return w


def reads_goal(reads, bound_ok):
    """conjunction over the recorded reads: (guards of the lazy selection it was evaluated under) => bound_ok(row index)"""
    import z3
    from pyvc.values import z3bool
    goal = True
    for s, k, guards in reads:
        ok = bound_ok(k)
        if guards:
            g = z3.And(*guards) if len(guards) > 1 else guards[0]
            okb = z3bool(ok) if not isinstance(ok, bool) else z3.BoolVal(ok)
            from pyvc.values import mk_bool
            ok = mk_bool(z3.Implies(g, okb))
        goal = ops.land(goal, ok)
    return goal


def window_of(w):
    """(array it is a live view of, offset, length) for a slice handed to a stub"""
    base, off = w, 0
    while getattr(base, 'vbase', None) is not None:
        off = ops.arith('+', off, base.voff)
        base = base.vbase
    return base, off, w.n


def lib_time(h):
    # time.time() in the simulators: irrelevant for the verified state
    from pyvc import lib
    lib.ext_call('math.floor')
    lib._EXT['time.time'] = lambda i, a, k: Opaque('wallclock')
