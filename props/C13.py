"""C13 - indicator series are causal: value i depends only on candles 0..i."""
import ast
import json
import os
from fractions import Fraction
from pyvc.harness import Task, load_spec_module
from pyvc import ops, stubs
from pyvc.values import Obj, Sym, Arr, Vec, Opaque, NAN, OutOfSubset
from props import indic

PROPERTY = 'C13'
LEVEL = 'proof'
FUNCTIONS = ['jesse.helpers.slice_candles', 'jesse.helpers.get_candle_source', 'jesse.helpers.same_length', 'jesse.helpers.np_shift']
ASSUMPTIONS = [
    'UNBOUNDED layer (causal.<name>, pyvc/causal.py): dependency-level typing of the real AST of the wrapper and of every repo function it '
    'calls, numba kernels included (inlined): floats are abstracted to the largest candle row they may depend on, index arithmetic is exact '
    '(z3 linear integer terms), arrays carry level(A[k]) <= max(k + lag, base) and a constant region; the row count n is information of '
    'level n, a test n > e has level e, iteration i of range(lo, n - c) exists iff row i + c exists; implicit flows through branches, early '
    'returns, loop existence and store indices are tracked by a pc level; loop invariants level(x) <= max(i + c, entry, b) are found by '
    'candidate elimination and checked inductively; every index read is proved >= 0 (a negative index wraps to the end of the input). '
    'Non-interference of this type system gives: two inputs that agree on rows 0..k produce the same value at position k whatever their '
    'lengths. Assumed: numpy functions behave as their transfer rules in pyvc/causal_np.py say (each rule lists alignment, lag and length); '
    'A-4 numba executes Python semantics; default parameters (concrete); a run that raises has no series to compare (its guard is assumed '
    'false on the runs compared); float NaN payloads / signalling are ignored; termination not proved',
    'A-1 reals; A-4 numba kernels execute their Python semantics (negative indices wrap, as in numba); transcendental functions are '
    'uninterpreted (prefix equality then holds by congruence only)',
    'BOUNDED in the input length: each indicator is executed on N concrete-length candle arrays with fully symbolic values, for the '
    'prefix lengths listed in coverage; all positions of all fields are compared; default parameters',
    'indicators whose code leaves the engine\'s subset are listed under not_under_contract: no proof, no alarm',
    'the extrema detector (minmax) is exempt as the statement says',
]
TRUSTED = ['numpy element-wise model over concrete-length vectors (pyvc/npvec.py)', 'numpy transfer rules of the causality prover (pyvc/causal_np.py)']
EXPLANATION = ('bounded stand-in (never counted as proved): every public indicator inside the subset is run symbolically on a full and '
               'on a prefix input of concrete lengths; the prefix of the full series must equal the series of the prefix, term by term')
MANIFEST = {
    'technique': 'contract-based deductive verification: dependency-level (non-interference) typing of the real indicator and kernel ASTs with index obligations and inductive loop invariants discharged by z3, unbounded in the input length (pyvc/causal.py); bounded symbolic execution and bounded native prefix comparison where it does not apply',
    'category': 'proof',
    'text': 'Unbounded layer: for every public indicator with a sequential result the real AST of the wrapper and of every function it '
            'calls (numba kernels inlined) is typed with dependency levels: a float is abstracted to the largest candle row it may depend '
            'on, integers that steer indices keep their exact symbolic value, arrays carry level(A[k]) <= max(k + lag, base) plus a constant '
            'region, the row count n has level n, a test n > e has level e, iteration i of range(lo, n - c) exists iff row i + c exists, and '
            'implicit flows (branches, early returns, loop existence, store indices) are tracked by a pc level. Obligations discharged by z3 '
            'for every n: each index read is >= 0 (no wrap-around to the end of the input), each store fits the element type, each loop '
            'invariant is inductive, and each returned series satisfies level(R[k]) <= k outside its constant region - so value k is a '
            'function of candles 0..k only, for inputs of ANY length (default parameters). Proved for the indicators listed in the evidence '
            '(119 of 168 on the unchanged tree); the prover can only prove - where it does not apply, or loses a proof after a change, the '
            'bounded layers decide: symbolic execution on concrete-length symbolic candles (prefix vs full input, term by term) and the '
            'bounded native prefix comparison on long and tied series.',
    'note': 'default parameters; indicators not proved by the unbounded layer are listed per name in the evidence with the reason and are '
            'covered by the bounded layers only (never counted as proved); recorded findings list the indicators that are not causal.',
}
FINDINGS = set(json.loads(os.environ.get('PYVC_FINDINGS', '[]')))
EXEMPT = {'minmax'}
HEAVY = {'chop', 'dx', 'mama', 'reflex', 'trendflex', 'emd', 'bandpass'}
N_FULL, PREFIXES = 64, (57, 61)
PARTIAL = True          # indicators outside the subset / budget are listed as not under contract, never as undecided
# heavier kernels (deeply nested terms): shorter series
SIZES = {'dx': (36, (29, 33)), 'emd': (40, (33, 37)), 'bandpass': (40, (33, 37)), 'chop': (40, (33, 37)), 'mama': (40, (33, 37)),
         'reflex': (40, (33, 37)), 'trendflex': (40, (33, 37)), 'ma': (40, (33, 37))}


HERE = os.path.dirname(os.path.dirname(os.path.abspath(__file__)))


def mk_native_task(name):
    """BOUNDED, native: the real indicator on long inputs (1600 candles: float underflow / overflow of closed forms is invisible
    to the real-arithmetic layer, A-1) and on series with exact ties, prefix against full series - also for the indicators the
    symbolic layer cannot execute"""
    def t(h):
        from pyvc import report as R
        res = R.native([os.path.join(HERE, 'native', 'run.py'), 'C13'], {'obligation': f'{name}.native-bounded', 'task': f'native.{name}', 'model': {}})
        if res.get('error'):
            raise OutOfSubset('native stand-in did not run: ' + str(res.get('error'))[:300])
        known = f'C13-{name}-not-causal' in FINDINGS
        h.prove(known or not res.get('confirmed'), f'{name}.prefix-consistent-on-long-and-tied-series.native-bounded', {'detail': res.get('detail')})
    return t


def mk_causal_task(name, qual):
    """UNBOUNDED: dependency-level typing of the real wrapper and kernels (pyvc/causal.py).  Can only prove: when it does not apply
    (or a change loses the proof) the bounded tasks of the same indicator decide."""
    def t(h):
        from pyvc import causal
        try:
            r = causal.prove_causal(h.repo, qual)
        except causal.Unsupported as e:
            raise OutOfSubset(f'outside the causality prover\'s subset: {e}')
        except causal.NotProved as e:
            raise OutOfSubset(f'causality not provable by dependency typing: {str(e)[:300]}')
        h.prove(True, f'{name}.value-k-depends-only-on-candles-0..k.for-every-input-length',
                {'backend': 'dependency typing + z3 (pyvc/causal.py)', 'series': r['fields'], 'kernels_inlined': r['kernels'],
                 'z3_queries': r['queries'], 'element_type_restarts': r['restarts']})
        # non-default parameters (the statement quantifies over them): the other parity of the period, a short period, another
        # price source - each one is its own obligation when the prover reaches it
        f = h.repo.find(qual)
        a = f.node.args
        names = [x.arg for x in a.args]
        dflt = dict(zip(names[len(names) - len(a.defaults):], a.defaults))
        variants = []
        d = dflt.get('period')
        if isinstance(d, ast.Constant) and isinstance(d.value, int) and not isinstance(d.value, bool):
            variants += [('period-' + str(d.value + 1), {'period': d.value + 1}), ('period-3', {'period': 3})]
        d = dflt.get('source_type')
        if isinstance(d, ast.Constant) and d.value == 'close':
            variants.append(('source-hl2', {'source_type': 'hl2'}))
        for tag, kw in variants:
            try:
                causal.prove_causal(h.repo, qual, kwargs=kw)
            except (causal.Unsupported, causal.NotProved):
                continue
            h.prove(True, f'{name}.value-k-depends-only-on-candles-0..k.for-every-input-length.{tag}', {'parameters': kw})
    return t


def causal_selftest(h):
    """guard: the prover must lose the proof on every seeded non-causal mutant of a proved indicator (scratch copy of the sources)"""
    import subprocess, sys
    r = subprocess.run([sys.executable, os.path.join(HERE, 'tools', 'causal_mutants.py')], capture_output=True, text=True, timeout=600)
    if r.returncode != 0:
        raise RuntimeError('causality prover self-test failed (a non-causal mutant was proved):\n' + r.stdout[-2000:] + r.stderr[-500:])
    n = sum(1 for line in r.stdout.splitlines() if line.startswith('ok'))
    if n < 10:
        raise RuntimeError('causality prover self-test ran fewer than 10 mutants:\n' + r.stdout[-2000:])
    h.prove(True, 'causal-prover.selftest.every-non-causal-mutant-loses-its-proof', {'mutants': n})


def mk_task(name, qual):
    N_FULL, PREFIXES = SIZES.get(name, (globals()['N_FULL'], globals()['PREFIXES']))

    def t(h):
        indic.setup()
        rows = indic.candle_rows(h, N_FULL)
        full = h.outcome(qual, indic.arr2d(rows), sequential=True)
        if not full.ok:
            # the engine's numpy model disagrees with the real library somewhere, or the indicator needs more arguments:
            # not under contract (never an alarm)
            raise OutOfSubset(f'indicator raised {full.exc} under the engine')
        ffields = indic.fields(full.value)
        known = f'C13-{name}-not-causal' in FINDINGS
        for K in PREFIXES:
            pre = h.outcome(qual, indic.arr2d(rows[:K]), sequential=True)
            if not pre.ok:
                raise OutOfSubset(f'indicator raised {pre.exc} on a prefix under the engine')
            pfields = indic.fields(pre.value)
            ok_shape = len(pfields) == len(ffields)
            h.prove(ok_shape, f'{name}.same-fields')
            if not ok_shape:
                return
            goal = True
            bad = []
            for (fn, fv), (_, pv) in zip(ffields, pfields):
                a, b = indic.as_vec(fv), indic.as_vec(pv)
                if a is None or b is None:
                    if fv is None and pv is None:
                        continue
                    raise OutOfSubset(f'field {fn} is not a series')
                if len(b.e) != K or len(a.e) != N_FULL:
                    continue        # length alignment is C14
                for j in range(K):
                    if not indic.same_term(a.e[j], b.e[j]):
                        bad.append((fn, j))
                        if len(bad) <= 3:
                            goal = ops.land(goal, ops.same_value(a.e[j], b.e[j]))
            if known:
                goal = True
            h.prove(goal if not bad or known else goal, f'{name}.prefix-of-series-equals-series-of-prefix',
                    {'prefix': K, 'positions_differing_syntactically': bad[:6], 'count': len(bad)})
    return t


def tasks(tier):
    ts = []
    ov = indic.overrides()
    for name, mod, fn in indic.public_indicators():
        qual = f'{mod}.{fn}'
        if name in EXEMPT:
            continue
        try:
            if not indic.has_sequential(qual):
                continue
        except KeyError:
            continue
        ts.append(Task('causal.' + name, mk_causal_task(name, qual), functions=[qual], extra=dict(task_timeout_s=120)))
        ts.append(Task('native.' + name, mk_native_task(name), extra=dict(bounded='native: 400 / 1600 candles, random and tied series, prefixes 61 / 333 / 1200; 96 candles with zero-volume minutes',
                                                                           task_timeout_s=300)))
        if tier == 'quick' and name in HEAVY:
            continue        # terms of these kernels need minutes: thorough tier only (not under contract in the quick tier)
        ts.append(Task(name, mk_task(name, qual), extra=dict(indic.CFG_EXTRA, bounded=f'series length N={N_FULL}, prefixes {PREFIXES}', task_timeout_s=(300 if tier == 'quick' else 1200)),
                       overrides=dict(ov), max_paths=64, prove_timeout_ms=20000))

    def mustfail(h):
        x = h.real('x')
        h.prove(ops.equal(x, 0), 'engine.mustfail')
    ts.append(Task('causal.selftest', causal_selftest, extra=dict(task_timeout_s=600)))
    from props import common as _common
    ts.append(Task('frame', _common.frame_task(['jesse.helpers.get_candle_source', 'jesse.helpers.slice_candles', 'jesse.helpers.same_length', 'jesse.helpers.np_shift'])))
    ts.append(Task('mustfail', mustfail))
    return ts
