"""C13 - indicator series are causal: value i depends only on candles 0..i."""
import json
import os
from fractions import Fraction
from pyvc.harness import Task, load_spec_module
from pyvc import ops, stubs
from pyvc.values import Obj, Sym, Arr, Vec, Opaque, NAN, OutOfSubset
from props import indic

PROPERTY = 'C13'
LEVEL = 'other'
FUNCTIONS = ['jesse.helpers.slice_candles', 'jesse.helpers.get_candle_source', 'jesse.helpers.same_length', 'jesse.helpers.np_shift']
ASSUMPTIONS = [
    'A-1 reals; A-4 numba kernels execute their Python semantics (negative indices wrap, as in numba); transcendental functions are '
    'uninterpreted (prefix equality then holds by congruence only)',
    'BOUNDED in the input length: each indicator is executed on N concrete-length candle arrays with fully symbolic values, for the '
    'prefix lengths listed in coverage; all positions of all fields are compared; default parameters',
    'indicators whose code leaves the engine\'s subset are listed under not_under_contract: no proof, no alarm',
    'the extrema detector (minmax) is exempt as the statement says',
]
TRUSTED = ['numpy element-wise model over concrete-length vectors (pyvc/npvec.py)']
EXPLANATION = ('bounded stand-in (never counted as proved): every public indicator inside the subset is run symbolically on a full and '
               'on a prefix input of concrete lengths; the prefix of the full series must equal the series of the prefix, term by term')
MANIFEST = {
    'technique': 'contract-based verification, bounded stand-in only: symbolic execution of the real indicator ASTs on concrete-length symbolic candles (prefix vs full input), plus bounded native prefix comparison on long and tied series',
    'category': 'other',
    'text': 'Bounded stand-in, labelled as such: for every public indicator with a sequential result whose code stays inside the '
            'engine\'s subset (list in the evidence), the real function is executed symbolically on candle arrays of concrete lengths '
            '(N and a prefix K, all OHLCV values symbolic reals) and every field of f(c[:K]) is proved equal to f(c)[:K] position by '
            'position (syntactic identity of the real-arithmetic terms, z3 otherwise). This decides causality for all values at those '
            'lengths - wrap-around reads of the last element and global normalisers show up as a term that mentions a later candle - '
            'but not for all lengths, so it is not counted as a proof.',
    'note': 'bounded in the series length (values unbounded); default parameters; recorded findings list the indicators that are not '
            'causal on the unchanged tree; indicators outside the subset are not claimed.',
}
FINDINGS = set(json.loads(os.environ.get('PYVC_FINDINGS', '[]')))
EXEMPT = {'minmax'}
HEAVY = {'chop', 'dx', 'mama', 'reflex', 'trendflex', 'emd', 'bandpass'}
N_FULL, PREFIXES = 64, (57, 61)
PARTIAL = True          # indicators outside the subset / budget are listed as not under contract, never as undecided
# heavier kernels (deeply nested terms): shorter series
SIZES = {'dx': (36, (29, 33)), 'emd': (40, (33, 37)), 'bandpass': (40, (33, 37)), 'chop': (40, (33, 37)), 'mama': (40, (33, 37)),
         'reflex': (40, (33, 37)), 'trendflex': (40, (33, 37)), 'ma': (40, (33, 37))}


HERE = os.path.dirname(os.path.dirname(os.path.abspath(__file__)))


def mk_native_task(name):
    """BOUNDED, native: the real indicator on long inputs (1600 candles: float underflow / overflow of closed forms is invisible
    to the real-arithmetic layer, A-1) and on series with exact ties, prefix against full series - also for the indicators the
    symbolic layer cannot execute"""
    def t(h):
        from pyvc import report as R
        res = R.native([os.path.join(HERE, 'native', 'run.py'), 'C13'], {'obligation': f'{name}.native-bounded', 'task': f'native.{name}', 'model': {}})
        if res.get('error'):
            raise OutOfSubset('native stand-in did not run: ' + str(res.get('error'))[:300])
        known = f'C13-{name}-not-causal' in FINDINGS
        h.prove(known or not res.get('confirmed'), f'{name}.prefix-consistent-on-long-and-tied-series.native-bounded', {'detail': res.get('detail')})
    return t


def mk_task(name, qual):
    N_FULL, PREFIXES = SIZES.get(name, (globals()['N_FULL'], globals()['PREFIXES']))

    def t(h):
        indic.setup()
        rows = indic.candle_rows(h, N_FULL)
        full = h.outcome(qual, indic.arr2d(rows), sequential=True)
        if not full.ok:
            # the engine's numpy model disagrees with the real library somewhere, or the indicator needs more arguments:
            # not under contract (never an alarm)
            raise OutOfSubset(f'indicator raised {full.exc} under the engine')
        ffields = indic.fields(full.value)
        known = f'C13-{name}-not-causal' in FINDINGS
        for K in PREFIXES:
            pre = h.outcome(qual, indic.arr2d(rows[:K]), sequential=True)
            if not pre.ok:
                raise OutOfSubset(f'indicator raised {pre.exc} on a prefix under the engine')
            pfields = indic.fields(pre.value)
            ok_shape = len(pfields) == len(ffields)
            h.prove(ok_shape, f'{name}.same-fields')
            if not ok_shape:
                return
            goal = True
            bad = []
            for (fn, fv), (_, pv) in zip(ffields, pfields):
                a, b = indic.as_vec(fv), indic.as_vec(pv)
                if a is None or b is None:
                    if fv is None and pv is None:
                        continue
                    raise OutOfSubset(f'field {fn} is not a series')
                if len(b.e) != K or len(a.e) != N_FULL:
                    continue        # length alignment is C14
                for j in range(K):
                    if not indic.same_term(a.e[j], b.e[j]):
                        bad.append((fn, j))
                        if len(bad) <= 3:
                            goal = ops.land(goal, ops.same_value(a.e[j], b.e[j]))
            if known:
                goal = True
            h.prove(goal if not bad or known else goal, f'{name}.prefix-of-series-equals-series-of-prefix',
                    {'prefix': K, 'positions_differing_syntactically': bad[:6], 'count': len(bad)})
    return t


def tasks(tier):
    ts = []
    ov = indic.overrides()
    for name, mod, fn in indic.public_indicators():
        qual = f'{mod}.{fn}'
        if name in EXEMPT:
            continue
        try:
            if not indic.has_sequential(qual):
                continue
        except KeyError:
            continue
        ts.append(Task('native.' + name, mk_native_task(name), extra=dict(bounded='native: 400 / 1600 candles, random and tied series, prefixes 61 / 333 / 1200',
                                                                           task_timeout_s=300)))
        if tier == 'quick' and name in HEAVY:
            continue        # terms of these kernels need minutes: thorough tier only (not under contract in the quick tier)
        ts.append(Task(name, mk_task(name, qual), extra=dict(indic.CFG_EXTRA, bounded=f'series length N={N_FULL}, prefixes {PREFIXES}', task_timeout_s=(300 if tier == 'quick' else 1200)),
                       overrides=dict(ov), max_paths=64, prove_timeout_ms=20000))

    def mustfail(h):
        x = h.real('x')
        h.prove(ops.equal(x, 0), 'engine.mustfail')
    ts.append(Task('mustfail', mustfail))
    return ts
