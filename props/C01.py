"""C01 - no look-ahead: the feed frame of both simulators (one-run obligation that implies the two-run statement under A-9)."""
import ast
import builtins
import os
from fractions import Fraction
from pyvc.harness import Task, load_spec_module
from pyvc import ops, stubs
from pyvc.values import Obj, Sym, Arr, Vec, Opaque
from pyvc.interp import Builtin
from props import common, sim
import contracts.C01 as K

PROPERTY = 'C01'
LEVEL = 'proof'
HERE = os.path.dirname(os.path.abspath(__file__))
SPEC = load_spec_module(os.path.join(HERE, '..', 'contracts', 'C01.py'), 'contracts.C01')
BM = K.BM
FUNCTIONS = [f'{BM}._step_simulator', f'{BM}._skip_simulator', f'{BM}._simulate_new_candles'] + sorted(K.FREE_NAMES)
ASSUMPTIONS = [
    'A-9: strategies, hooks and indicators observe market data only through the store and the arguments of the functions under '
    'contract; equality of two whole runs is not replayed - the frame condition "everything read lies at index <= i" is the one-run '
    'obligation that implies it',
    'A-6 backtest mode; the loop bodies are executed with recording stubs for the callees (contracted calls); what the callees read '
    'is bounded by the free-name obligation (they cannot reach the input dict) and by C07 (store getters read stored rows only)',
    'fast simulator: t on a trading-candle (chunk) boundary, as the statement says',
]
TRUSTED = ['numpy views (slices are live views of the input array)']
EXPLANATION = 'frame contract of the feed: every input-array subscript of iteration i is <= i (< i+step), clock set first, step order'
MANIFEST = {
    'category': 'proof',
    'text': 'One arbitrary iteration i of the real _step_simulator loop and one arbitrary chunk [i, i+step) of _simulate_new_candles are '
            'executed symbolically over input arrays that record every row index read: all reads and all slices handed on lie at '
            'rows <= i (resp. < i+step), the in-place gap normalisation writes row i from row i-1 only, the clock is set to the end of '
            'minute i before anything else runs, and the step order is store 1m -> match -> generate higher timeframes -> strategies -> '
            'market flush. A mechanical free-name check proves that the matching functions, the partial-candle publisher and the store '
            'getters cannot reach the input candles except through their arguments and the store. Under A-9 this frame condition implies '
            'that replacing candles from t onwards leaves the prefix of the run unchanged.',
    'note': 'the two-run statement itself is not executed; user strategies and indicators are outside the contract (A-9); C13 covers '
            'indicator causality.',
}


def t_step(two_symbols):
    def t(h):
        sim.lib_time(h)
        syms = ('BTC-USDT', 'ETH-USDT') if two_symbols else ('BTC-USDT',)
        S = sim.build(h, symbols=syms, timeframes=('1m', '15m'), route_tfs=('15m',))
        key = (f'{BM}._step_simulator', 0)
        ov = h.ctx.cfg.overrides
        ov[f'{BM}._execute_market_orders'] = lambda i, a, k: S.events.append(('flush', (), {'time': S.app.f['time']}))

        def start(interp, fr, i):
            del S.events[:]
            del S.reads[:]

        def end(interp, fr, i):
            events = list(S.events)
            for e in events:
                if e[0] == 'generate':
                    sim.force_content(h, e[1][1])      # data flow into the aggregated candle
            reads = list(S.reads)
            first = S.inputs[syms[0]]
            goal = sim.reads_goal(reads, lambda k: ops.compare('<=', k, i))
            h.prove(goal, 'step.every-input-row-read-is-at-or-before-the-current-minute', {'reads': len(reads)})
            for e in events:
                if e[0] == 'generate':
                    base, off, ln = sim.window_of(e[1][1])
                    h.prove(ops.compare('<=', ops.arith('+', off, ln), ops.arith('+', i, 1)),
                            'step.windows-handed-to-the-aggregator-end-at-the-current-minute')
                if e[0] in ('add_candle', 'match') and isinstance(e[1][0], Vec) and e[1][0].base is not None:
                    arr, r = e[1][0].base
                    h.prove(ops.equal(r, i), 'step.the-candle-fed-is-row-i')
            want = ops.arith('+', first.fn(i).e[0], 60000)
            times = [e[2].get('time') for e in events if 'time' in e[2]]
            tg = True
            for tm in times:
                tg = ops.land(tg, ops.equal(tm, want))
            h.prove(tg, 'step.clock-is-end-of-minute-i-before-anything-runs', {'clause': 'store.app.time == ts(i) + 60000'})
            # order of the step per symbol: 1m stored -> matched -> higher timeframes -> strategies -> flush
            names = [(e[0], e[1][3] if e[0] == 'add_candle' else None) for e in events if e[0] in ('add_candle', 'match', 'generate', 'strategy', 'flush')]
            kinds = [n[0] if n[0] != 'add_candle' else ('add1m' if n[1] == '1m' else 'addtf') for n in names]
            rank = {'add1m': 0, 'match': 1, 'generate': 2, 'addtf': 3, 'strategy': 4, 'flush': 5}
            last_feed = max([j for j, k in enumerate(kinds) if rank[k] <= 3] or [-1])
            first_strat = min([j for j, k in enumerate(kinds) if k == 'strategy'] or [len(kinds)])
            h.prove(last_feed < first_strat and kinds[-1:] == ['flush'] and kinds.count('add1m') == len(syms)
                    and kinds.count('match') == len(syms),
                    'step.strategies-run-only-after-every-candle-of-the-minute-is-stored-and-matched', {'order': kinds})
            per_sym = [k for k in kinds if rank[k] <= 1]
            h.prove(per_sym == ['add1m', 'match'] * len(syms), 'step.each-symbol-stored-then-matched')
        h.ctx.cfg.extra['loop_hooks'] = {key: {'start': start, 'end': end}}
        h.ctx.cfg.extra['havoc'] = {key: {'last_update_time': lambda i, old: Opaque('t')}}
        h.ctx.cfg.invariants[key] = []
        h.cover('step.pre')
        out = h.outcome(f'{BM}._step_simulator', S.candles, True)
        h.prove(out.ok, 'step.no-exception', {'raised': out.exc})
        if out.ok and not two_symbols:
            h.prove(False, 'step.mustfail')
    return t


def t_fast(step):
    def t(h):
        S = sim.build(h, symbols=('BTC-USDT',), timeframes=('1m', '15m'), route_tfs=('15m',))
        arr = S.inputs['BTC-USDT']
        i = h.int('i', 0)
        h.assume(ops.equal(ops.arith('%', i, step), 0))
        h.assume(ops.compare('<=', ops.arith('+', i, step), S.N))
        del S.reads[:]
        h.cover('fast.pre')
        out = h.outcome(f'{BM}._simulate_new_candles', S.candles, i, step)
        h.prove(out.ok, 'fast.no-exception', {'raised': out.exc})
        if not out.ok:
            return
        # data flow: the content of every window handed on may depend on rows of the chunk or earlier ones only
        for e in list(S.events):
            if e[0] in ('generate', 'match_chunk'):
                sim.force_content(h, e[1][1] if e[0] == 'generate' else e[1][0])
        reads = list(S.reads)
        goal = sim.reads_goal(reads, lambda k: ops.compare('<', k, ops.arith('+', i, step)))
        h.prove(goal, 'fast.every-input-row-read-lies-inside-or-before-the-chunk', {'reads': len(reads)})
        for e in list(S.events):
            if e[0] in ('generate', 'match_chunk'):
                w = e[1][1] if e[0] == 'generate' else e[1][0]
                base, off, ln = sim.window_of(w)
                h.prove(ops.compare('<=', ops.arith('+', off, ln), ops.arith('+', i, step)),
                        'fast.windows-handed-on-end-at-the-chunk-end')
    return t


def t_chunk_clock(h, allow_new=False):
    """inside a chunk the clock is set before each fill and at the chunk end; with allow_new the fill hook submits one more order
    at an arbitrary price: it, too, fills only in a minute whose own range (extended to the previous close) reaches its price"""
    from props import C02 as P2
    W = P2.match_world(h, 1, allow_new=allow_new, hook_cancels=False)
    rows = []
    for j in range(2):
        v = h.vec(f'm{j}_', 6)
        P2.valid_candle(h, v)
        rows.append(v)
    h.assume(ops.equal(rows[1].e[0], ops.arith('+', rows[0].e[0], 60000)))
    chunk = Arr(2, (lambda k, rows=rows: ops.pick(rows, k)), np=True, cols=6)
    times = []
    real_exec = h.ctx.cfg.overrides['jesse.models.Order.Order.execute']

    def execute(i, a, k):
        parts = [e for e in W.ev if e[0] == 'partial']
        times.append(('fill', W.store.f['app'].f['time'], parts[-1][1][2] if parts else None, a[0].f['price']))
        return real_exec(i, a, k)
    h.ctx.cfg.overrides['jesse.models.Order.Order.execute'] = execute
    out = h.outcome(f'{BM}._simulate_price_change_effect_multiple_candles', chunk, 'Sandbox', 'BTC-USDT')
    h.prove(out.ok, 'chunk-clock.no-exception', {'raised': out.exc})
    if not out.ok:
        return
    end = ops.arith('+', rows[0].e[0], 120000)
    if not allow_new:
        h.prove(ops.equal(W.store.f['app'].f['time'], end), 'chunk-clock.clock-at-chunk-end-is-the-end-of-the-last-minute')
    g = True
    for _, tm, part, price in times:
        if not isinstance(part, Vec):
            g = False
            break
        # the clock at a fill is the end of the minute whose partial candle was just published, and that minute is one whose
        # (gap-extended) range reaches the order's price
        g = ops.land(g, ops.equal(tm, ops.arith('+', part.e[0], 60000)))
        reached = False
        for j, r_ in enumerate(rows):
            lo, hi = r_.e[4], r_.e[3]
            if j > 0:
                lo, hi = ops.vmin(lo, rows[j - 1].e[2]), ops.vmax(hi, rows[j - 1].e[2])
            reached = ops.lor(reached, ops.land(ops.equal(part.e[0], r_.e[0]), ops.land(ops.compare('<=', lo, price), ops.compare('<=', price, hi))))
        g = ops.land(g, reached)
    h.prove(g, 'chunk-clock.clock-at-a-fill-is-the-end-of-the-minute-being-matched' if not allow_new else
            'chunk-clock.an-order-submitted-by-a-fill-hook-fills-only-in-a-minute-whose-range-reaches-its-price')


def t_free_names(h):
    """mechanical: functions below the feed cannot reach the input candles except through arguments and the store"""
    bnames = set(dir(builtins))
    for qual, allowed in sorted(K.FREE_NAMES.items()):
        f = h.repo.find(qual)
        node = f.node
        params = {a.arg for a in node.args.args + node.args.kwonlyargs + node.args.posonlyargs}
        if node.args.vararg:
            params.add(node.args.vararg.arg)
        if node.args.kwarg:
            params.add(node.args.kwarg.arg)
        assigned = set()
        loaded = set()
        skip = set()
        for n in ast.walk(node):          # type annotations are not executed data flow
            if isinstance(n, ast.arg) and n.annotation is not None:
                skip.update(id(x) for x in ast.walk(n.annotation))
            if isinstance(n, (ast.FunctionDef, ast.AsyncFunctionDef)) and n.returns is not None:
                skip.update(id(x) for x in ast.walk(n.returns))
            if isinstance(n, ast.AnnAssign):
                skip.update(id(x) for x in ast.walk(n.annotation))
        for n in ast.walk(node):
            if id(n) in skip:
                continue
            if isinstance(n, ast.Name):
                if isinstance(n.ctx, (ast.Store, ast.Del)):
                    assigned.add(n.id)
                else:
                    loaded.add(n.id)
            elif isinstance(n, (ast.Import, ast.ImportFrom)):
                for al in n.names:
                    assigned.add((al.asname or al.name).split('.')[0])
            elif isinstance(n, ast.ExceptHandler) and n.name:
                assigned.add(n.name)
            elif isinstance(n, ast.arg):
                params.add(n.arg)
            elif isinstance(n, (ast.Global, ast.Nonlocal)):
                loaded.update(n.names)
                assigned.difference_update(n.names)
        free = loaded - params - assigned
        extra = sorted(x for x in free if x not in allowed and x not in ('True', 'False', 'None', 'f'))
        extra = [x for x in extra if not (x in bnames and x in ('str', 'float', 'abs', 'round', 'isinstance', 'Exception', 'IndexError'))]
        h.prove(extra == [], f'frame.{qual.split(".")[-1]}.reaches-data-only-through-arguments-and-the-store', {'unexpected_free_names': extra})


def tasks(tier):
    x = dict(spec_mod=SPEC)
    ov = stubs.backtest_mode()
    ts = [Task('step.1sym', t_step(False), extra=dict(x), overrides=dict(ov), invariants={}),
          Task('step.2sym', t_step(True), extra=dict(x), overrides=dict(ov), invariants={}),
          Task('chunk-clock', t_chunk_clock, extra=dict(x), overrides=dict(ov), max_paths=20000),
          Task('chunk-clock.reaction', (lambda h: t_chunk_clock(h, True)), extra=dict(x), overrides=dict(ov), max_paths=20000),
          Task('free-names', t_free_names, extra=dict(x))]
    for step in (1, 3, 5, 15):
        ts.append(Task(f'fast.step{step}', t_fast(step), extra=dict(x), overrides=dict(ov)))
    # the fast-simulator proofs above take the chunk length as a divisor of every route timeframe: that contract of
    # _calculate_minimum_candle_step is discharged here as well (shared with C07): a longer chunk stores one symbol's minutes
    # before another symbol's orders are matched
    import props.C07 as P7
    # the whole finite domain (2^17 - 1 sets of timeframes), concrete evaluation of the real function: complete
    ts.append(Task('min-step.all-subsets', P7.t_min_step('all'), overrides=dict(ov), extra=dict(x, spec_mod=P7.SPEC, task_timeout_s=3600)))
    # the prologue of the isolated backtest (shared with C11): before the simulation starts the store receives the warm-up argument
    # only, and the simulator receives the whole input - no row of the candles to be simulated is stored ahead of its minute
    import props.C11 as P11
    ts += [t for t in P11.tasks(tier) if t.id.startswith('prologue.') or t.id == 'state-classes']
    return ts
