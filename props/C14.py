"""C14 - sequential and single-value indicator results agree: unbounded term-congruence proof per wrapper + bounded symbolic check."""
import json
import os
from fractions import Fraction
from pyvc.harness import Task
from pyvc import ops, stubs
from pyvc.values import Obj, Sym, Arr, Vec, Opaque, NAN, OutOfSubset
from props import indic

PROPERTY = 'C14'
LEVEL = 'proof'
FUNCTIONS = ['jesse.helpers.slice_candles', 'jesse.helpers.same_length', 'jesse.helpers.get_candle_source']
ASSUMPTIONS = [
    'UNBOUNDED layer (congruence.<name>): A-13 every numpy/scipy function and every opaque repo function (numba kernels, helpers that '
    'leave the subset) is a deterministic function of its arguments\' values; A-14 the array a wrapper takes its last entry from is '
    'non-empty for non-empty candles (used by the rewrite last(concatenate((padding, R))) = last(R) for helpers.same_length); the trailing '
    'window is what the real slice_candles(c, False) returns; candles are a 2-D array; in-place stores into views, parameters or aliases '
    'and loops over data-dependent ranges leave the subset (the indicator is then decided by the bounded layer only)',
    'A-1 reals; A-4; transcendental functions uninterpreted (both runs apply the same operations, so congruence suffices)',
    'BOUNDED in the input length: N=44 candles with the warm-up window configured to W=32 (helpers.get_config stubbed), so one run '
    'is below/at the window (N=W) and one above it; all values symbolic; default parameters',
    'indicators outside the engine\'s subset are listed under not_under_contract; the extrema detector (minmax) is exempt as stated',
]
TRUSTED = ['numpy element-wise model over concrete-length vectors (pyvc/npvec.py)']
EXPLANATION = ('bounded stand-in: for each public indicator inside the subset, (i) every sequential field has one entry per candle, '
               '(ii) its last entry is the non-sequential result on the same input, (iii) on an input longer than the warm-up window '
               'the non-sequential result is the sequential result on the trailing window - term by term')
MANIFEST = {
    'technique': 'contract-based deductive verification: term-congruence proof over the real wrapper ASTs (unbounded, pyvc/absint.py); bounded symbolic execution (z3) and bounded native comparison where it does not apply',
    'category': 'proof',
    'text': 'Unbounded layer: the real AST of every public indicator wrapper with a `sequential` parameter is executed over an '
            'uninterpreted term algebra (pyvc/absint.py) twice - sequential=False on candles c, sequential=True on the trailing warm-up '
            'window slice_candles(c, False) - along every path of its abstract conditions; the obligation is that the single value is, '
            'term for term, the last entry of the sequential result (field by field for named tuples, None-for-NaN allowed). Equal terms '
            'are equal values for arrays of ANY length because every operation is a deterministic function of its arguments. 148 of '
            '168 wrappers are proved this way; a wrapper that is not (different formulas in the two modes, loops in the wrapper) is listed '
            'as not under contract for this layer. Second unbounded layer (length.<name>): every series returned with sequential=True has '
            'exactly one entry per input candle for EVERY input length - array lengths are exact symbolic terms in the abstract execution of the '
            'real wrapper and kernels (pyvc/causal.py, lengths only), len == n discharged by z3 (137 of 168 wrappers). Bounded native layer '
            '(boundary.<name>) for every indicator: both modes on the real code around the warm-up window and around the period, on random, '
            'trending, tied, zero-volume and halted-market series, recursive averages selected, non-default period parity / price source, '
            'after calls with other parameter values in the same process. Bounded layer (detection, witnesses), labelled as such: every public indicator with a `sequential` parameter whose code stays inside the engine\'s '
            'subset is executed symbolically (candle arrays of concrete length, all values symbolic) in sequential and non-sequential '
            'mode, at the warm-up window length and above it (window configured to 32). Proved per field: one entry per input candle; '
            'last sequential entry == non-sequential result; non-sequential result on the long input == last entry of the sequential '
            'result on the trailing window.',
    'note': 'proof = term congruence under A-13/A-14; the bounded layer is bounded in the series length and in the default parameters; '
            'recorded findings list the indicators that violate the property.',
}
HERE = os.path.dirname(os.path.dirname(os.path.abspath(__file__)))
FINDINGS = set(json.loads(os.environ.get('PYVC_FINDINGS', '[]')))
PARTIAL = True
EXEMPT = {'minmax'}
HEAVY = {'chop', 'dx', 'mama', 'reflex', 'trendflex', 'emd', 'bandpass'}
W, N = 32, 44


def last_of(x):
    v = indic.as_vec(x)
    if v is None:
        return None
    return v.e[-1] if v.e else None


def agree_single(lv, nv):
    """last sequential entry vs. the non-sequential result (several indicators return None for NaN)"""
    if indic.same_term(lv, nv):
        return True
    if nv is None:
        if lv is NAN:
            return True
        n = None if lv is None else __import__('pyvc.values', fromlist=['nan_of']).nan_of(lv)
        return False if n is None else __import__('pyvc.values', fromlist=['mk_bool']).mk_bool(n)
    if lv is None or isinstance(nv, (Vec, Arr)):
        return False
    return ops.same_value(lv, nv)


def mk_task(name, qual):
    def t(h):
        indic.setup()
        rows = indic.candle_rows(h, N)
        known = f'C14-{name}' in FINDINGS
        for label, data in (('at-window', rows[-W:]), ('above-window', rows)):
            n = len(data)
            seq = h.outcome(qual, indic.arr2d(data), sequential=True)
            single = h.outcome(qual, indic.arr2d(data), sequential=False)
            if not seq.ok or not single.ok:
                raise OutOfSubset(f'indicator raised {seq.exc or single.exc} under the engine')
            sf, nf = indic.fields(seq.value), indic.fields(single.value)
            h.prove(len(sf) == len(nf), f'{name}.same-fields-in-both-modes')
            if len(sf) != len(nf):
                return
            if label == 'at-window':
                lens = []
                agree = True
                for (fn, sv), (_, nv) in zip(sf, nf):
                    v = indic.as_vec(sv)
                    if v is None:
                        if sv is None:
                            continue
                        raise OutOfSubset(f'sequential field {fn} is not a series')
                    lens.append((fn, len(v.e)))
                    agree = ops.land(agree, agree_single(v.e[-1] if v.e else None, nv))
                bad = [x for x in lens if x[1] != n]
                h.prove(known or not bad, f'{name}.one-entry-per-candle', {'lengths': lens, 'candles': n})
                h.prove(True if known else agree, f'{name}.last-sequential-entry-equals-single-value')
            else:
                # long input: the single value is computed on the trailing warm-up window
                tail = h.outcome(qual, indic.arr2d(data[-W:]), sequential=True)
                if not tail.ok:
                    raise OutOfSubset(f'indicator raised {tail.exc} under the engine')
                tf = indic.fields(tail.value)
                agree = True
                for (fn, tv), (_, nv) in zip(tf, nf):
                    lv = last_of(tv)
                    if tv is None and nv is None:
                        continue
                    agree = ops.land(agree, agree_single(lv, nv))
                h.prove(True if known else agree, f'{name}.single-value-on-a-long-input-is-the-sequential-value-on-the-trailing-window')
    return t


def mk_congruence_task(name, qual):
    """UNBOUNDED: the wrapper's real AST over the uninterpreted term algebra (pyvc/absint.py): the value returned with
    sequential=False on candles c is - term for term - the last entry of what sequential=True returns on the trailing
    warm-up window slice_candles(c, False), for every c of any length.
    When the terms differ (or the wrapper leaves the subset) nothing is proved; the BOUNDED native comparison of the two
    modes on probed inputs (native/C14.py: lengths around the window and around the period) then stands in: a failing
    input is a violation, none leaves the indicator outside this layer."""
    def t(h):
        from pyvc import absint
        from pyvc import report as R
        index_of = None
        if name == 'minmax':
            # documented exemption: the flags are those of the entry order+1 from the end (default order read from the signature)
            f = h.repo.find(qual)
            args = f.node.args
            dflt = dict(zip([a.arg for a in args.args][len(args.args) - len(args.defaults):], args.defaults))
            order = dflt['order'].value
            index_of = lambda field: -(order + 1) if field in ('is_min', 'is_max') else -1
        why = None
        try:
            ok, paths, detail = absint.prove_single_is_last_of_sequential(h.repo, qual, index_of)
            if not ok:
                why = 'the two modes do not build the same term (not provable by congruence): ' + json.dumps(detail)[:600]
        except absint.Unsupported as e:
            ok, why = False, f'wrapper outside the congruence prover\'s subset: {e}'
        if ok:
            h.prove(True, f'{name}.single-value-is-the-last-sequential-value-on-the-trailing-window.for-every-input-length',
                    {'backend': 'term congruence (pyvc/absint.py)', 'paths': paths, 'opaque_calls': detail.get('opaque_calls'),
                     'rules': detail.get('rules')})
            return
        res = R.native([os.path.join(HERE, 'native', 'run.py'), 'C14'], {'obligation': f'{name}.native', 'task': f'congruence.{name}', 'model': {}})
        if res.get('error'):
            raise OutOfSubset(why + ' ; native stand-in did not run: ' + str(res.get('error'))[:200])
        h.prove(not res.get('confirmed'), f'{name}.both-modes-agree-on-the-probed-inputs.native-bounded',
                {'detail': res.get('detail'), 'not_proved_because': why[:300]})
        raise OutOfSubset(why)
    return t


def mk_length_task(name, qual):
    """UNBOUNDED: every series of the sequential result has exactly one entry per input candle, for every input length: array lengths
    are exact symbolic terms in the abstract execution of the real wrapper and kernels (pyvc/causal.py, lengths only) and the
    obligation len == n is discharged by z3.  Can only prove; the bounded layers decide otherwise."""
    def t(h):
        from pyvc import causal
        try:
            r = causal.prove_one_entry_per_candle(h.repo, qual)
        except causal.Unsupported as e:
            raise OutOfSubset(f'outside the length prover\'s subset: {e}')
        except (causal.NotProved, causal.Restart) as e:
            raise OutOfSubset(f'length not provable: {str(e)[:200]}')
        h.prove(True, f'{name}.one-entry-per-candle.for-every-input-length', {'backend': 'symbolic lengths + z3 (pyvc/causal.py)', 'series': r['fields']})
    return t


def mk_boundary_task(name):
    """BOUNDED, native, for EVERY indicator (also those proved by congruence, whose proof says nothing about the number of entries):
    both modes on the real code for lengths around the warm-up window and around the period, on random, trending, tied and
    zero-volume series, with the moving-average selectors also switched to a recursive average"""
    def t(h):
        from pyvc import report as R
        res = R.native([os.path.join(HERE, 'native', 'run.py'), 'C14'], {'obligation': f'{name}.native', 'task': f'boundary.{name}', 'model': {}})
        if res.get('error'):
            raise OutOfSubset('native stand-in did not run: ' + str(res.get('error'))[:300])
        known = f'C14-{name}' in FINDINGS
        h.prove(known or not res.get('confirmed'), f'{name}.both-modes-agree-and-one-entry-per-candle-on-the-probed-inputs.native-bounded',
                {'detail': res.get('detail')})
    return t


def tasks(tier):
    ts = []
    ov = indic.overrides(warmup=W)
    for name, mod, fn in indic.public_indicators():
        qual = f'{mod}.{fn}'
        try:
            if not indic.has_sequential(qual):
                continue
        except KeyError:
            continue
        ts.append(Task('congruence.' + name, mk_congruence_task(name, qual), extra=dict(task_timeout_s=180)))
        if name not in EXEMPT:
            ts.append(Task('length.' + name, mk_length_task(name, qual), functions=[qual], extra=dict(task_timeout_s=120)))
        ts.append(Task('boundary.' + name, mk_boundary_task(name), extra=dict(task_timeout_s=300,
                       bounded='native: lengths 100..500 around the window (240) and P-1..2P around the period, four kinds of series')))
        if name in EXEMPT or (tier == 'quick' and name in HEAVY):
            continue
        ts.append(Task(name, mk_task(name, qual), extra=dict(indic.CFG_EXTRA, bounded=f'series length N={N}, warm-up window W={W}',
                                                             task_timeout_s=(300 if tier == 'quick' else 1200)),
                       overrides=dict(ov), max_paths=64, prove_timeout_ms=20000))

    def mustfail(h):
        x = h.real('x')
        h.prove(ops.equal(x, 0), 'engine.mustfail')
    from props import common as _common
    ts.append(Task('frame', _common.frame_task(['jesse.helpers.get_candle_source', 'jesse.helpers.slice_candles', 'jesse.helpers.same_length', 'jesse.helpers.np_shift'])))
    ts.append(Task('mustfail', mustfail))
    return ts
