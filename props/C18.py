"""C18 - the dynamic array behaves like a growing list of rows (refinement per method, P-HIST)."""
import os
from fractions import Fraction
from pyvc.harness import Task, load_spec_module
from pyvc import ops, stubs
from pyvc.values import Obj, Sym, Arr, Vec
from pyvc.interp import SliceVal
from pyvc.lib import slice_bounds, slice_len
from pyvc.engine import RaiseSignal
import contracts.C18 as K

PROPERTY = 'C18'
LEVEL = 'proof'
HERE = os.path.dirname(os.path.abspath(__file__))
SPEC = load_spec_module(os.path.join(HERE, '..', 'contracts', 'C18.py'), 'contracts.C18')
M = K.CLASS
FUNCTIONS = [f'{M}.{m}' for m in ('__init__', '__len__', '__getitem__', '__setitem__', 'append', 'append_multiple', 'delete',
                                   'flush', 'get_last_item', 'get_past_item')] + ['jesse.helpers.np_shift']
ASSUMPTIONS = [
    'A-8 numpy behaves as the libspec axioms (zeros, concatenate, delete(axis=0), slicing, slice assignment) say',
    'rows are modelled as elements of a 1-D array (shape (B,)); numpy treats rows of an n-D array the same way along axis 0',
    'delete: every index valid on the list (-len <= index < len); axis == 0 or 1-D',
    'slices: step None; slice assignment: any missing / negative / out-of-range bounds, item of the length of the selected range (equal-length)',
    'get_past_item: past_index >= 0; append_multiple with drop_at: precondition that the retained part still holds all new items',
]
TRUSTED = ['numpy.zeros', 'numpy.concatenate', 'numpy.delete', 'numpy.empty_like', 'numpy slicing / slice assignment']
EXPLANATION = 'every public method from an arbitrary well-formed state: wf preserved, view == list model, raises iff the list raises'
MANIFEST = {
    'category': 'proof',
    'text': 'Every public method of the real DynamicNumpyArray (and helpers.np_shift) is executed symbolically from an arbitrary '
            'state satisfying the representation invariant wf (symbolic index, capacity, bucket size, drop_at, contents) and proved '
            'to preserve wf, to leave view(self) equal to the Python-list model of the operation, to return what the list returns, '
            'and to raise IndexError exactly when the list does - so by induction the refinement holds after every operation '
            'sequence, including delete/append interleavings across bucket boundaries.',
    'note': 'numpy primitives are axiomatised (A-8); rows are abstracted to elements along axis 0; the stated preconditions on '
            'delete / slice assignment / get_past_item / bulk append with drop_at narrow the operations to those valid on the list.',
}


ORIG = {}


def mk_state(h, drop='none'):
    cls = h.repo.find(M)
    B = h.int('bucket', 1)
    cap = h.int('cap', 0)        # every constraint on the capacity comes from wf (proved preserved by each operation)
    arr = h.ctx.fresh_arr('array', n=cap, np=True)
    idx = h.int('index')
    if drop == 'none':
        d = None
    else:
        d = h.int('drop_at', 2)
    a = Obj(cls, {'index': idx, 'array': arr, 'bucket_size': B, 'shape': (B,), 'drop_at': d}, name='dna')
    h.assume(h.spec('wf', a))
    ORIG[id(a)] = (a, d, (B,))
    return a


def snap(h, a):
    """old(view(self)) as an immutable value"""
    v = h.spec('view', a)
    return Arr(v.n, v.fn, np=False)


def post(h, a, want, name):
    h.prove(h.spec('wf', a), f'{name}.preserves-wf')
    orig = ORIG.get(id(a))
    if orig is not None and orig[0] is a:
        orig = orig[1:]
        # the drop-oldest limit and the row shape are part of the abstract state (the list model is truncated to that limit):
        # no operation changes them
        d0, shape0 = orig
        d1 = a.f.get('drop_at')
        same_d = (d1 is None and d0 is None) or (d0 is not None and d1 is not None and ops.equal(d1, d0) is True)
        sh = a.f.get('shape')
        same_s = isinstance(sh, tuple) and len(sh) == len(shape0) and all(ops.equal(x, y) is True for x, y in zip(sh, shape0))
        h.prove(same_d and same_s, f'{name}.keeps-the-drop-oldest-limit-and-the-row-shape')
    h.prove(ops.equal(h.spec('view', a), want), f'{name}.view-equals-list-model')


def same_outcome(h, out, spec_out, name):
    """raises IndexError iff the list operation raises; never another exception"""
    if spec_out.ok:
        h.prove(out.ok, f'{name}.no-raise-when-valid-on-the-list', {'raised': out.exc})
    else:
        h.prove((not out.ok) and out.exc == spec_out.exc, f'{name}.raises-like-the-list',
                {'got': out.exc if not out.ok else 'no exception', 'want': spec_out.exc})
    return out.ok and spec_out.ok


def t_init(h):
    B = h.int('bucket', 1)
    d = h.int('drop_at', 2) if h.branch(h.bool('has_drop')) else None
    out = h.outcome(h.repo.find(M), (B,), d)
    h.prove(out.ok, 'init.no-exception')
    if not out.ok:
        return
    a = out.value
    h.prove(h.spec('wf', a), 'init.establishes-wf')
    h.prove(ops.equal(h.interp.lib._b_len(h.interp, [a], {}), 0), 'init.len-is-zero')


def t_len(drop):
    def t(h):
        a = mk_state(h, drop)
        L = snap(h, a)
        h.prove(ops.equal(h.interp.lib._b_len(h.interp, [a], {}), L.n), 'len.equals-list-length')
    return t


def t_append(drop):
    def t(h):
        a = mk_state(h, drop)
        L = snap(h, a)
        item = h.real('item')
        h.cover('append.pre')
        want = h.spec('m_append', L, item, a.f['drop_at'])
        out = h.method_outcome(a, 'append', item)
        h.prove(out.ok, 'append.no-exception', {'raised': out.exc})
        if out.ok:
            post(h, a, want, 'append')
            h.prove(ops.equal(a.f['index'], Fraction(12345)), 'append.mustfail') if drop == 'none' else None
    return t


def t_append_multiple(drop):
    def t(h):
        a = mk_state(h, drop)
        L = snap(h, a)
        items = h.ctx.fresh_arr('items', np=True)
        if drop != 'none':
            # the retained part must still hold all new items (otherwise the drop would cut into them)
            newlen = ops.arith('+', L.n, items.n)
            h.assume(ops.lor(ops.lnot(ops.equal(ops.arith('%', newlen, a.f['drop_at']), 0)),
                             ops.compare('<=', items.n, ops.arith('-', newlen, ops.to_int(ops.arith('/', a.f['drop_at'], 2))))))
        h.cover('append_multiple.pre')
        want = h.spec('m_append_multiple', L, Arr(items.n, items.fn, np=False), a.f['drop_at'])
        out = h.method_outcome(a, 'append_multiple', items)
        h.prove(out.ok, 'append_multiple.no-exception', {'raised': out.exc})
        if out.ok:
            post(h, a, want, 'append_multiple')
    return t


def t_delete(h):
    a = mk_state(h, 'none')
    L = snap(h, a)
    i = h.int('i')
    # every index valid on the list: -len <= i < len
    h.assume(ops.land(ops.compare('>=', i, ops.neg(L.n)), ops.compare('<', i, L.n)))
    h.cover('delete.pre')
    want = h.spec('m_delete', L, i)
    out = h.method_outcome(a, 'delete', i, axis=0)
    h.prove(out.ok, 'delete.no-exception', {'raised': out.exc})
    if out.ok:
        post(h, a, want, 'delete')


def t_flush(h):
    a = mk_state(h, 'some')
    out = h.method_outcome(a, 'flush')
    h.prove(out.ok, 'flush.no-exception')
    if out.ok:
        post(h, a, [], 'flush')


def t_getitem(h):
    a = mk_state(h, 'none')
    L = snap(h, a)
    i = h.int('i')
    h.cover('getitem.pre')
    sp = h.spec_outcome('m_getitem', L, i)
    out = h.outcome(f'{M}.__getitem__', a, i)
    if same_outcome(h, out, sp, 'getitem'):
        h.prove(ops.same_value(out.value, sp.value), 'getitem.returns-list-element')
    post(h, a, L, 'getitem')


def t_getslice(has_start, has_stop):
    def t(h):
        a = mk_state(h, 'none')
        L = snap(h, a)
        start = h.int('start') if has_start else None
        stop = h.int('stop') if has_stop else None
        h.cover('getslice.pre')
        want = h.spec('m_getslice', L, start, stop)
        out = h.outcome(f'{M}.__getitem__', a, SliceVal(start, stop, None))
        h.prove(out.ok, 'getslice.no-exception', {'raised': out.exc})
        if out.ok:
            r = out.value
            ok = isinstance(r, Arr)
            h.prove(ok, 'getslice.returns-an-array')
            if ok:
                h.prove(ops.equal(Arr(r.n, r.fn, np=False), want), 'getslice.equals-list-slice',
                        {'clause': 'a[start:stop] == L[start:stop] for positive and negative bounds'})
    return t


def t_setitem(h):
    a = mk_state(h, 'none')
    L = snap(h, a)
    i = h.int('i')
    item = h.real('item')
    sp = h.spec_outcome('m_setitem', L, i, item)
    out = h.outcome(f'{M}.__setitem__', a, i, item)
    if same_outcome(h, out, sp, 'setitem'):
        post(h, a, sp.value, 'setitem')
    else:
        post(h, a, L, 'setitem.rejected')


def t_setslice(has_start, has_stop):
    """equal-length slice assignment with any bounds a list accepts: missing, negative, beyond either end"""
    def t(h):
        a = mk_state(h, 'none')
        L = snap(h, a)
        n = L.n
        start = h.int('start') if has_start else None
        stop = h.int('stop') if has_stop else None
        items = h.ctx.fresh_arr('items', np=True)
        lo, hi = slice_bounds(SliceVal(start, stop, None), n)
        # "equal-length": the items replace exactly the rows the slice selects
        h.assume(ops.equal(items.n, slice_len(lo, hi)))
        h.cover('setslice.pre')
        want = h.spec('m_setslice', L, start, stop, Arr(items.n, items.fn, np=False))
        out = h.outcome(f'{M}.__setitem__', a, SliceVal(start, stop, None), items)
        h.prove(out.ok, 'setslice.no-exception', {'raised': out.exc})
        if out.ok:
            post(h, a, want, 'setslice')
    return t


def t_last(h):
    a = mk_state(h, 'none')
    L = snap(h, a)
    sp = h.spec_outcome('m_last', L)
    out = h.method_outcome(a, 'get_last_item')
    if same_outcome(h, out, sp, 'get_last_item'):
        h.prove(ops.same_value(out.value, sp.value), 'get_last_item.returns-last-list-element')


def t_past(h):
    a = mk_state(h, 'none')
    L = snap(h, a)
    k = h.int('k', 0)
    sp = h.spec_outcome('m_past', L, k)
    # L[len-1-k] with len-1-k < 0 would wrap in Python; the list model of "k items back" raises instead
    if sp.ok and h.branch(ops.compare('<', ops.arith('-', ops.arith('-', L.n, 1), k), 0)):
        sp.kind, sp.exc = 'raise', 'IndexError'
    out = h.method_outcome(a, 'get_past_item', k)
    if same_outcome(h, out, sp, 'get_past_item'):
        h.prove(ops.same_value(out.value, sp.value), 'get_past_item.returns-kth-last-list-element')


def t_np_shift(h):
    arr = h.ctx.fresh_arr('arr', np=True)
    num = h.int('num')
    n = arr.n
    h.assume(ops.land(ops.compare('<=', ops.neg(n), num), ops.compare('<=', num, n)))
    fill = h.real('fill')
    out = h.outcome('jesse.helpers.np_shift', arr, num, fill)
    h.prove(out.ok and isinstance(out.value, Arr), 'np_shift.no-exception')
    if not out.ok:
        return
    r = out.value
    h.prove(ops.equal(r.n, n), 'np_shift.keeps-length')
    j = h.int('j', 0)
    h.assume(ops.compare('<', j, n))
    src = ops.arith('-', j, num)
    inside = ops.land(ops.compare('>=', src, 0), ops.compare('<', src, n))
    want = ops.ite(inside.t, arr.fn(src), fill) if not isinstance(inside, bool) else (arr.fn(src) if inside else fill)
    h.prove(ops.same_value(r.fn(j), want), 'np_shift.element-j-is-element-j-minus-num-or-fill')


def tasks(tier):
    x = dict(spec_mod=SPEC)
    ts = [Task('init', t_init, extra=x), Task('delete', t_delete, extra=x), Task('flush', t_flush, extra=x),
          Task('getitem', t_getitem, extra=x), Task('setitem', t_setitem, extra=x), Task('last', t_last, extra=x),
          Task('past', t_past, extra=x), Task('np_shift', t_np_shift, extra=x)]
    for d in ('none', 'some'):
        ts.append(Task(f'len.{d}', t_len(d), extra=x))
        ts.append(Task(f'append.drop-{d}', t_append(d), extra=x))
        ts.append(Task(f'append_multiple.drop-{d}', t_append_multiple(d), extra=x))
    for hs in (False, True):
        for he in (False, True):
            ts.append(Task(f'getslice.start{int(hs)}.stop{int(he)}', t_getslice(hs, he), extra=x))
    for he in (False, True):
        for hs in (True, False):
            ts.append(Task(f'setslice.start{int(hs)}.stop{int(he)}', t_setslice(hs, he), extra=x))
    return ts
