"""C19 - optimizer DNA decodes into in-range, typed, monotone hyperparameters; injection precedence."""
import ast
import os
from pyvc.harness import Task, load_spec_module
from pyvc import ops, stubs
from pyvc.values import OutOfSubset, Obj, Sym, Opaque
from pyvc.interp import TypeRef, Builtin
from pyvc.engine import RaiseSignal
import contracts.C19 as K

PROPERTY = 'C19'
LEVEL = 'proof'
HERE = os.path.dirname(os.path.abspath(__file__))
SPEC = load_spec_module(os.path.join(HERE, '..', 'contracts', 'C19.py'), 'contracts.C19')
FUNCTIONS = ['jesse.helpers.convert_number', 'jesse.helpers.dna_to_hp', 'jesse.modes.optimize_mode.Optimize.Optimizer.__init__',
             'jesse.modes.backtest_mode._prepare_routes', 'jesse.strategies.Strategy.Strategy._init_objects',
             'jesse.strategies.Strategy.Strategy.__init__']
ASSUMPTIONS = [
    'A-1 floats are mathematical reals; round() is round-half-even on the reals',
    'A-6 backtest mode; a symbolic character is represented by its code point (ord is the identity on it)',
    'fitness.get_fitness (score formula, named in the anchors but not in the statement) is not under contract',
    'multi-route sessions: the loop-carried `hyperparameters` variable of _prepare_routes makes route 2 inherit route 1\'s DNA; '
    'the statement quantifies over one route, so this is an observation, not an obligation',
]
TRUSTED = ['round (half-even)', 'int() truncation', 'zip', 'ord']
EXPLANATION = 'gene code symbolic over 40..119, bounds symbolic (lo < hi); precedence: all 8 combinations of explicit/dna()/defaults'
MANIFEST = {
    'category': 'proof',
    'text': 'dna_to_hp/convert_number are executed symbolically from their real ASTs for a symbolic gene code in 40..119 and '
            'symbolic bounds lo<hi (float and int declarations): range, exact linear map / round-half-even of it, strict resp. weak '
            'monotonicity, end letters map to the bounds, each value depends on its own gene only; the optimizer alphabet literal is '
            'extracted from Optimizer.__init__ and checked to be the 80 code points 40..119; the precedence explicit > dna() > '
            'defaults is proved by executing one _prepare_routes iteration and _init_objects for all 8 combinations.',
    'note': 'A-1 (reals); symbolic characters are code points; selectors.get_position and the Strategy subclass are stubs that '
            'return harness objects; the fitness score formula is not under contract.',
}


_EXTRA = [None]


def _decl(name, ty, lo, hi, default=None):
    # a declaration is a dict that may carry further keys ('step', a description ...): the decoder's result must not depend on them
    d = {'name': name, 'type': TypeRef(ty), 'min': lo, 'max': hi, 'default': default}
    if _EXTRA[0] is not None:
        d['step'] = _EXTRA[0].real(f'step_{name}', 0)
        d['description'] = 'free text'
    return d


def t_float(h):
    _EXTRA[0] = h
    lo, hi = h.real('lo'), h.real('hi')
    h.assume(ops.compare('<', lo, hi))
    g = h.int('g', K.FIRST, K.LAST)
    g2 = h.int('g2', K.FIRST, K.LAST)
    h.cover('float.pre')
    d = [_decl('p', 'float', lo, hi)]
    out = h.outcome('jesse.helpers.dna_to_hp', d, [g])
    h.prove(out.ok and isinstance(out.value, dict) and 'p' in out.value, 'dna_to_hp.float.returns-value')
    if not out.ok:
        return
    v = out.value['p']
    env = dict(lo=lo, hi=hi, g=g, v=v)
    for n, t in K.FLOAT_ENSURES.items():
        h.prove(h.ev(t, **env), f'dna_to_hp.float.{n}', {'clause': t})
    v2 = h.call('jesse.helpers.dna_to_hp', d, [g2])['p']
    h.prove(h.ev(K.FLOAT_MONOTONE, g=g, g2=g2, v=v, v2=v2), 'dna_to_hp.float.strictly-monotone', {'clause': K.FLOAT_MONOTONE})
    h.prove(h.ev(K.MUSTFAIL, **env), 'dna_to_hp.float.mustfail')


def t_int(h):
    _EXTRA[0] = h
    lo, hi = h.int('lo'), h.int('hi')
    h.assume(ops.compare('<', lo, hi))
    g = h.int('g', K.FIRST, K.LAST)
    g2 = h.int('g2', K.FIRST, K.LAST)
    h.cover('int.pre')
    d = [_decl('p', 'int', lo, hi)]
    out = h.outcome('jesse.helpers.dna_to_hp', d, [g])
    h.prove(out.ok and isinstance(out.value, dict) and 'p' in out.value, 'dna_to_hp.int.returns-value')
    if not out.ok:
        return
    v = out.value['p']
    h.prove(isinstance(v, int) or (isinstance(v, Sym) and v.k == 'int'), 'dna_to_hp.int.result-is-int')
    env = dict(lo=lo, hi=hi, g=g, v=v)
    for n, t in K.INT_ENSURES.items():
        h.prove(h.ev(t, **env), f'dna_to_hp.int.{n}', {'clause': t})
    v2 = h.call('jesse.helpers.dna_to_hp', d, [g2])['p']
    h.prove(h.ev(K.INT_MONOTONE, g=g, g2=g2, v=v, v2=v2), 'dna_to_hp.int.weakly-monotone', {'clause': K.INT_MONOTONE})


def t_independent(h):
    """three declarations, three genes: each value is decode(declaration_k, gene_k)"""
    _EXTRA[0] = h
    decls = []
    genes = []
    for k, ty in enumerate(['float', 'int', 'float']):
        lo, hi = (h.real(f'lo{k}'), h.real(f'hi{k}')) if ty == 'float' else (h.int(f'lo{k}'), h.int(f'hi{k}'))
        h.assume(ops.compare('<', lo, hi))
        decls.append(_decl(f'p{k}', ty, lo, hi))
        genes.append(h.int(f'g{k}', K.FIRST, K.LAST))
    # a DNA may be longer than the declaration list (a gene of a retired parameter at the end): the declared positions still decode
    if h.branch(h.bool('dna_has_a_trailing_extra_gene')):
        genes = genes + [h.int('g_extra', K.FIRST, K.LAST)]
    out = h.outcome('jesse.helpers.dna_to_hp', decls, genes)
    h.prove(out.ok and isinstance(out.value, dict) and sorted(out.value) == ['p0', 'p1', 'p2'], 'dna_to_hp.one-entry-per-declaration')
    if not out.ok:
        return
    for k in range(3):
        want = h.spec('decode', decls[k], genes[k])
        h.prove(ops.equal(out.value[f'p{k}'], want), f'dna_to_hp.value-depends-on-own-gene-only',
                {'clause': 'hp[name_k] == decode(declaration_k, dna[k])'})
    out2 = h.outcome('jesse.helpers.dna_to_hp', [_decl('s', 'str', 0, 1)], [genes[0]])
    h.prove((not out2.ok) and out2.exc == 'TypeError', 'dna_to_hp.other-types-rejected')


def t_frame(h):
    """mechanical frame condition: the decoder reads no mutable module-level state (a memo, a counter ...), so its result is a
    function of its arguments only - whatever was decoded earlier in the same process"""
    import builtins
    bnames = set(dir(builtins))
    for qual in ('jesse.helpers.dna_to_hp', 'jesse.helpers.convert_number'):
        f = h.repo.find(qual)
        node = f.node
        local = {a.arg for a in node.args.args + node.args.kwonlyargs + node.args.posonlyargs}
        for n in ast.walk(node):
            if isinstance(n, ast.Name) and isinstance(n.ctx, (ast.Store, ast.Del)):
                local.add(n.id)
        bad = []
        uses_global_stmt = any(isinstance(n, (ast.Global, ast.Nonlocal)) for n in ast.walk(node))
        for n in ast.walk(node):
            if isinstance(n, ast.Name) and isinstance(n.ctx, ast.Load) and n.id not in local and n.id not in bnames:
                ent = f.mod.top.get(n.id)
                if isinstance(ent, (ast.FunctionDef, ast.ClassDef)) or (isinstance(ent, tuple) and ent[0] in ('import', 'from')):
                    continue        # functions, classes, imported modules / names
                if isinstance(ent, (ast.Assign, ast.AnnAssign)) and isinstance(ent.value, ast.Constant):
                    continue        # immutable constants
                bad.append(n.id)
        h.prove(bad == [] and not uses_global_stmt, f'frame.{qual.split(".")[-1]}.reads-no-mutable-module-level-state',
                {'module_level_names_read': sorted(set(bad)), 'global_statement': uses_global_stmt})


def t_simulator_forwards(simulator):
    """both simulators hand the `hyperparameters` argument they received to _prepare_routes (a contracted call here; its own
    contract is precedence.*): the values the caller passed reach the strategies in the normal and in the fast mode"""
    def t(h):
        from props import sim
        BM = 'jesse.modes.backtest_mode'
        sim.lib_time(h)
        S = sim.build(h, symbols=('BTC-USDT',), timeframes=('1m', '5m'), route_tfs=('5m',))
        key = (f'{BM}.{simulator}', 0)
        h.ctx.cfg.extra['havoc'] = {key: {'last_update_time': lambda i, old: Opaque('t')}}
        h.ctx.cfg.invariants[key] = []
        ov = h.ctx.cfg.overrides
        ov[f'{BM}._execute_market_orders'] = lambda i, a, k: None
        ov[f'{BM}._calculate_minimum_candle_step'] = lambda i, a, k: 5
        ov[f'{BM}._simulate_new_candles'] = lambda i, a, k: None
        got = []
        ov[f'{BM}._prepare_routes'] = lambda i, a, k: got.append((tuple(a), dict(k)))
        H = {'a': h.real('Ha'), 'b': h.int('Hb')}
        out = h.outcome(f'{BM}.{simulator}', S.candles, True, hyperparameters=H)
        h.prove(out.ok, f'simulator.{simulator}.no-exception', {'raised': out.exc})
        ok = len(got) == 1 and ((len(got[0][0]) >= 1 and got[0][0][0] is H) or got[0][1].get('hyperparameters') is H)
        h.prove(ok, f'simulator.{simulator}.hands-the-hyperparameters-argument-to-the-routes', {'calls': len(got)})
    return t


def t_float_grid(h):
    """BOUNDED, native: assumption A-1 (floats are reals) is probed where it can hide a defect of this property - the decoded value
    of every gene must stay inside [min, max] in binary floating point as well (grid of ranges x 80 genes x both types)"""
    from pyvc import report as R
    res = R.native([os.path.join(HERE, '..', 'native', 'run.py'), 'C19'], {'obligation': 'float-grid', 'task': 'float-grid', 'model': {}, 'm': {}})
    if res.get('error'):
        raise OutOfSubset('native stand-in did not run: ' + str(res.get('error'))[:300])
    h.prove(not res.get('confirmed'), 'float-grid.decoded-value-stays-inside-the-declared-range-in-binary-floats', {'detail': res.get('detail')})


def t_alphabet(h):
    f = h.repo.find('jesse.modes.optimize_mode.Optimize.Optimizer.__init__')
    a = f.node.args
    params = [p.arg for p in a.args]
    dflt = dict(zip(params[len(params) - len(a.defaults):], a.defaults))
    node = dflt.get('charset')
    ok = isinstance(node, ast.Constant) and isinstance(node.value, str)
    h.prove(ok, 'alphabet.charset-default-is-a-literal')
    if not ok:
        return
    cs = node.value
    h.prove(len(cs) == 80 and sorted(ord(c) for c in cs) == list(range(K.FIRST, K.LAST + 1)),
            'alphabet.is-the-80-codes-40..119-once-each', {'charset': cs})
    h.prove(ord(cs[0]) == K.FIRST and ord(cs[-1]) == K.LAST, 'alphabet.first-and-last-letter')


def mk_precedence(explicit, with_dna, with_decl):
    def t(h):
        decl = []
        if with_decl:
            decl = [_decl('a', 'float', h.real('lo'), h.real('hi'), default=h.real('dflt_a')),
                    _decl('b', 'int', h.int('ilo'), h.int('ihi'), default=h.int('dflt_b'))]
            h.assume(ops.compare('<', decl[0]['min'], decl[0]['max']))
            h.assume(ops.compare('<', decl[1]['min'], decl[1]['max']))
        dna = [h.int('g0', K.FIRST, K.LAST), h.int('g1', K.FIRST, K.LAST)] if with_dna else ''
        if with_dna and not with_decl:
            dna = [h.int('g0', K.FIRST, K.LAST)]
        H = {'a': h.real('Ha'), 'b': h.int('Hb')} if explicit else None
        if explicit and with_decl and h.branch(h.bool('explicit_values_cover_only_some_names')):
            H = {'a': H['a']}
        snap = dict(H) if explicit else None
        scls = h.repo.find('jesse.strategies.Strategy.Strategy')
        pos = Obj(None, {'strategy': None}, name='position')
        route = Obj(None, {'strategy_name': None, 'exchange': 'Sandbox', 'symbol': 'BTC-USDT', 'timeframe': '1m',
                           'strategy': None}, name='route')
        route.f['strategy_name'] = Builtin('UserStrategy', lambda i, a, k: i.instantiate(scls, [], {}))
        router = Obj(None, {'routes': [route]}, name='router')
        ov = h.ctx.cfg.overrides
        attached = []

        def rec(val):
            def f(i, a, k):
                st_ = a[0] if a else None
                attached.append(None if st_ is None else (st_.f.get('symbol'), st_.f.get('timeframe'), st_.f.get('exchange')))
                return val
            return f
        ov['jesse.strategies.Strategy.Strategy.dna'] = rec(dna)
        ov['jesse.strategies.Strategy.Strategy.hyperparameters'] = rec(decl)
        ov['jesse.services.selectors.get_position'] = lambda i, a, k: pos
        h.ctx.cfg.globals['jesse.modes.backtest_mode.router'] = lambda i: router
        h.ctx.cfg.globals['jesse.services.api.api'] = lambda i: Obj(None, {'drivers': {}}, name='api')
        h.cover('precedence.pre')
        out = h.outcome('jesse.modes.backtest_mode._prepare_routes', H)
        h.prove(out.ok, 'precedence.no-exception')
        if not out.ok:
            return
        st = route.f['strategy']
        ok = isinstance(st, Obj) and pos.f['strategy'] is st
        h.prove(ok, 'precedence.strategy-attached-to-position')
        if not ok:
            return
        # a strategy may derive its DNA / declarations from its market (self.symbol, self.timeframe): the route is attached first
        h.prove(attached != [] and all(x == ('BTC-USDT', '1m', 'Sandbox') for x in attached),
                'precedence.the-route-is-attached-before-dna-and-declarations-are-read', {'seen': [str(x) for x in attached[:4]]})
        want = h.spec('expected_hp', H, dna, decl)
        got = st.f.get('hp')
        if explicit:
            exact = isinstance(got, dict) and set(got) == set(snap) and all(got[k] is snap[k] or ops.equal(got[k], snap[k]) is True for k in snap)
            h.prove(exact, 'precedence.explicit-values-win', {'clause': 'strategy.hp holds exactly the values the caller passed', 'got_keys': sorted(got) if isinstance(got, dict) else None})
            h.prove(set(H) == set(snap) and all(H[k] is snap[k] for k in snap), 'precedence.the-callers-dict-is-left-unmodified')
        elif with_dna:
            h.prove(isinstance(got, dict) and isinstance(want, dict) and ops.equal(got, want), 'precedence.dna-over-defaults',
                    {'clause': 'strategy.hp == dna_to_hp(hyperparameters(), dna())'})
        elif with_decl:
            h.prove(isinstance(got, dict) and ops.equal(got, want), 'precedence.defaults-when-nothing-else')
        else:
            h.prove(got is None, 'precedence.none-when-nothing-declared')
    return t


def tasks(tier):
    x = dict(spec_mod=SPEC)
    ov = stubs.backtest_mode()
    ts = [Task('float', t_float, extra=x), Task('int', t_int, extra=x), Task('independent', t_independent, extra=x),
          Task('alphabet', t_alphabet, extra=x), Task('frame', t_frame, extra=x),
          Task('simulator._step_simulator', t_simulator_forwards('_step_simulator'), extra=x, overrides=dict(ov), invariants={}),
          Task('simulator._skip_simulator', t_simulator_forwards('_skip_simulator'), extra=x, overrides=dict(ov), invariants={}),
          Task('float-grid', t_float_grid, extra=dict(x, bounded='grid of 9 x 14 ranges x 80 genes x 2 types, binary floats (native)'))]
    for e in (False, True):
        for d in (False, True):
            for c in (False, True):
                ts.append(Task(f'precedence.explicit{int(e)}.dna{int(d)}.decl{int(c)}', mk_precedence(e, d, c),
                               extra=x, overrides=dict(ov)))
    return ts
