"""C05 - order lifecycle: one terminal transition, idempotent execute/cancel, registry, one trade record."""
import ast
import os
from fractions import Fraction
from pyvc.harness import Task, load_spec_module
from pyvc import ops, stubs
from pyvc.values import Obj, Sym, Arr, Vec, Opaque
from pyvc.interp import Builtin
from props import common
import contracts.C05 as K

PROPERTY = 'C05'
LEVEL = 'proof'
HERE = os.path.dirname(os.path.abspath(__file__))
SPEC = load_spec_module(os.path.join(HERE, '..', 'contracts', 'C05.py'), 'contracts.C05')
OS_ = 'jesse.store.state_orders.OrdersState'
CT = 'jesse.store.state_completed_trades.ClosedTrades'
FUNCTIONS = ['jesse.models.Order.Order.cancel', 'jesse.models.Order.Order.execute', 'jesse.models.Order.Order.is_canceled',
             'jesse.models.Order.Order.is_executed', 'jesse.models.Order.Order.is_active', f'{OS_}.add_order',
             f'{OS_}.update_active_orders', f'{OS_}.count_active_orders', f'{OS_}.get_active_orders',
             f'{OS_}.execute_pending_market_orders', f'{OS_}.reset_trade_orders', f'{CT}.add_executed_order',
             f'{CT}.add_order_record_only', f'{CT}._get_current_trade', 'jesse.exchanges.sandbox.Sandbox.Sandbox.market_order',
             'jesse.exchanges.sandbox.Sandbox.Sandbox.cancel_all_orders']
ASSUMPTIONS = [
    'A-6 backtest mode; A-7 Order / ClosedTrade are records of their attributes; A-3 logging has no effect',
    'A-9 the simulator reaches orders only through Order.execute / Order.cancel (the only writers of .status reachable in backtests: '
    'mechanical AST scan, live-only writers listed)',
    'registry obligations are checked on registries of three orders with symbolic statuses (bounded stand-in; the operations are '
    'element-wise filters / appends)',
    '"reported as active" is held to count_active_orders and to the post-state of update_active_orders (get_active_orders may contain '
    'final orders between two prunings): deliberate narrowing, DESIGN.md C05',
    'A-16 peewee default objects are shared between records (modelled); resubmit / execute_partially are live-mode API without a caller in '
    'jesse/ and are under contract for final orders only',
]
TRUSTED = ['list.append', 'sum over a generator', 'filter']
EXPLANATION = 'idempotence by empty call trace; single terminal transition; registry invariant (bounded N=3); one trade record per fill'
MANIFEST = {
    'category': 'proof',
    'text': 'Order.execute / Order.cancel are executed symbolically for every initial status: a final order yields an empty call '
            'trace and an unchanged record (no effect on balances, positions, margin, trades); an active order gets exactly one status '
            'write, one exchange hook, one trade-log entry (execute) and one position update. A mechanical AST scan proves these two are '
            'the only status writers with callers in jesse/. ClosedTrades.add_executed_order appends the order to exactly one trade and '
            'one row to exactly one side table; execute_pending_market_orders executes each queued order once and empties the queue. '
            'The registry invariant (active list = submitted and not final after pruning, count_active_orders) is a bounded stand-in on '
            'three-order registries.',
    'note': 'A-6/A-7/A-9; the registry part is bounded (N=3) and reported under bounded_checks.',
}


def world(h):
    """an order whose exchange / store / position are recording stubs"""
    trace = []

    def rec(name):
        return Builtin(name, lambda i, a, k, name=name: trace.append((name, tuple(a))))
    # both account kinds (cash and margin) go through the same Order methods
    ex = Obj(None, {'on_order_execution': rec('exchange.on_order_execution'),
                    'on_order_cancellation': rec('exchange.on_order_cancellation'),
                    'type': 'futures' if h.branch(h.bool('margin_account')) else 'spot', 'name': 'Sandbox'}, name='exchange')
    pos = Obj(None, {'_on_executed_order': rec('position._on_executed_order')}, name='position')
    ct = Obj(None, {'add_executed_order': rec('completed_trades.add_executed_order')})
    store = Obj(None, {'completed_trades': ct}, name='store')
    h.ctx.cfg.globals['jesse.store.store'] = lambda i: store
    ov = h.ctx.cfg.overrides
    ov['jesse.services.selectors.get_exchange'] = lambda i, a, k: ex
    ov['jesse.services.selectors.get_position'] = lambda i, a, k: pos
    ov['jesse.helpers.now_to_timestamp'] = lambda i, a, k: Opaque('now')
    return trace


def t_lifecycle(op, status, otype='LIMIT', side='buy'):
    def t(h):
        trace = world(h)
        q = h.real('q')
        h.assume(ops.compare('>', q, 0) if side == 'buy' else ops.compare('<', q, 0))
        o = common.mk_order(h, side=side, type=otype, qty=q, price=h.real('p'), symbol='BTC-USDT', exchange='Sandbox',
                            reduce_only=h.branch(h.bool('reduce_only')), status=status)
        before = dict(o.f)
        h.cover(f'{op}.{status}.pre')
        # execute(silent=...) only silences logging / notifications: both values are enumerated
        kw = {'silent': True} if (op == 'execute' and h.branch(h.bool('silent'))) else {}
        out = h.method_outcome(o, op, **kw)
        h.prove(out.ok, f'{op}.no-exception', {'raised': out.exc})
        if not out.ok:
            return
        names = [n for n, _ in trace]
        if status in K.FINAL:
            h.prove(names == [], f'{op}.final-order.no-effect-on-balances-positions-trades', {'trace': names})
            same = all(o.f.get(k) is v or o.f.get(k) == v for k, v in before.items()) and set(o.f) == set(before)
            h.prove(same, f'{op}.final-order.record-unchanged')
        else:
            want_status = 'EXECUTED' if op == 'execute' else 'CANCELED'
            h.prove(ops.equal(o.f['status'], want_status), f'{op}.active-order.becomes-{want_status.lower()}')
            if op == 'execute':
                want = ['completed_trades.add_executed_order', 'exchange.on_order_execution', 'position._on_executed_order']
            else:
                want = ['exchange.on_order_cancellation']
            h.prove(names == want and all(a[0] is o for _, a in trace), f'{op}.active-order.each-effect-exactly-once',
                    {'trace': names})
            h.prove(ops.equal(o.f['qty'], before['qty']) and ops.equal(o.f['price'], before['price']),
                    f'{op}.active-order.price-and-qty-untouched')
            # second call: idempotent
            del trace[:]
            snap = dict(o.f)
            out2 = h.method_outcome(o, op)
            h.prove(out2.ok and trace == [] and all(o.f.get(k) is v or o.f.get(k) == v for k, v in snap.items()),
                    f'{op}.repeated-call-is-a-no-op')
            other = 'cancel' if op == 'execute' else 'execute'
            out3 = h.method_outcome(o, other)
            h.prove(out3.ok and trace == [] and ops.equal(o.f['status'], want_status) is True,
                    f'{op}.then-{other}-is-a-no-op', {'clause': 'an order never leaves its terminal status'})
        if op == 'execute' and status == 'ACTIVE' and otype == 'LIMIT' and side == 'buy':
            h.prove(ops.equal(o.f['status'], 'ACTIVE'), 'execute.mustfail')
    return t


def t_writers(h):
    """mechanical scan: every assignment to an attribute named `status` in jesse/ lies in a known function"""
    import glob
    found = {}
    callers = {}
    root = h.repo.root
    for path in sorted(glob.glob(os.path.join(root, 'jesse', '**', '*.py'), recursive=True)):
        try:
            tree = ast.parse(open(path, encoding='utf-8').read())
        except SyntaxError:
            continue
        mod = os.path.relpath(path, root)[:-3].replace(os.sep, '.')
        if mod.endswith('.__init__'):
            mod = mod[:-9]

        def visit(node, qual):
            for ch in ast.iter_child_nodes(node):
                q2 = qual
                if isinstance(ch, (ast.FunctionDef, ast.AsyncFunctionDef, ast.ClassDef)):
                    q2 = f'{qual}.{ch.name}'
                if isinstance(ch, (ast.Assign, ast.AugAssign, ast.AnnAssign)):
                    tg = ch.targets if isinstance(ch, ast.Assign) else [ch.target]
                    for t_ in tg:
                        if isinstance(t_, ast.Attribute) and t_.attr == 'status':
                            found.setdefault(qual, []).append(ch.lineno)
                if isinstance(ch, ast.Call) and isinstance(ch.func, ast.Attribute) and ch.func.attr in K.LIVE_ONLY_METHODS \
                        and not ch.args:
                    callers.setdefault(ch.func.attr, []).append(f'{qual}:{ch.lineno}')
                if isinstance(ch, ast.Call) and isinstance(ch.func, ast.Name) and ch.func.id == 'setattr' and len(ch.args) == 3 \
                        and isinstance(ch.args[1], ast.Constant) and ch.args[1].value == 'status':
                    found.setdefault(qual, []).append(ch.lineno)
                visit(ch, q2)
        visit(tree, mod)
    unknown = sorted(q for q in found if q not in K.STATUS_WRITERS)
    h.prove(unknown == [], 'status.only-known-functions-write-order-status', {'unknown_writers': unknown, 'found': sorted(found)})
    h.prove(callers == {}, 'status.live-only-writers-have-no-caller-in-jesse', {'callers': callers})


def mk_registry(h, n=3):
    cls = h.repo.find(OS_)
    orders = []
    for j in range(n):
        st = h.ctx.fresh_str(f'status{j}', among=['ACTIVE', 'EXECUTED', 'CANCELED'])
        orders.append(common.mk_order(h, side='buy', type='LIMIT', qty=Fraction(1), price=Fraction(10), symbol='BTC-USDT',
                                      exchange='Sandbox', reduce_only=False, status=st, id=f'o{j}'))
    # active list: a sub-list (same order) that contains every ACTIVE order
    active = []
    for j, o in enumerate(orders):
        inn = h.bool(f'in_active{j}')
        h.assume(ops.implies(ops.equal(o.f['status'], 'ACTIVE'), inn))
        if h.branch(inn):
            active.append(o)
    reg = Obj(cls, {'to_execute': [], 'storage': {'Sandbox-BTC-USDT': list(orders)}, 'active_storage': {'Sandbox-BTC-USDT': active}},
              name='orders')
    return reg, orders, active


def t_add_order(h):
    """OrdersState.add_order: a submitted order of any type (LIMIT, STOP, MARKET), reduce-only or not, is recorded and - being
    active - reported by the active-order selectors from the moment it is submitted"""
    reg, orders, active = mk_registry(h, 2)
    ty = h.ctx.fresh_str('type', among=['LIMIT', 'STOP', 'MARKET'])
    ro = True if h.branch(h.bool('reduce_only')) else False
    o = common.mk_order(h, side='sell', type=ty, qty=Fraction(-1), price=Fraction(10), symbol='BTC-USDT', exchange='Sandbox',
                        reduce_only=ro, status='ACTIVE', id='new')
    before = h.method(reg, 'count_active_orders', 'Sandbox', 'BTC-USDT')
    out = h.method_outcome(reg, 'add_order', o)
    h.prove(out.ok, 'registry.add-order.no-exception', {'raised': out.exc})
    if not out.ok:
        return
    got = h.method(reg, 'get_active_orders', 'Sandbox', 'BTC-USDT')
    allo = h.method(reg, 'get_orders', 'Sandbox', 'BTC-USDT')
    h.prove(sum(1 for x in got if x is o) == 1 and sum(1 for x in allo if x is o) == 1,
            'registry.add-order.the-new-order-is-listed-once-among-all-and-among-the-active-orders')
    after = h.method(reg, 'count_active_orders', 'Sandbox', 'BTC-USDT')
    h.prove(ops.equal(after, ops.arith('+', before, 1)), 'registry.add-order.the-active-count-grows-by-one')


def t_registry(h, n=3):
    reg, orders, active = mk_registry(h, n)
    h.cover('registry.pre')
    cnt = h.method(reg, 'count_active_orders', 'Sandbox', 'BTC-USDT')
    want = h.spec('active_count', [o.f['status'] for o in orders])
    h.prove(ops.equal(cnt, want), 'registry.count-active-is-the-number-of-submitted-non-final-orders')
    h.method(reg, 'update_active_orders', 'Sandbox', 'BTC-USDT')
    got = reg.f['active_storage']['Sandbox-BTC-USDT']
    h.prove(isinstance(got, list), 'registry.update-active.returns-list')
    # after pruning: exactly the submitted orders that are not final, in submission order
    want_list = []
    for o in orders:
        if h.branch(ops.equal(o.f['status'], 'ACTIVE')):
            want_list.append(o)
    h.prove(len(got) == len(want_list) and all(a is b for a, b in zip(got, want_list)),
            'registry.update-active.keeps-exactly-the-non-final-orders')
    new = common.mk_order(h, side='sell', type='STOP', qty=Fraction(-1), price=Fraction(9), symbol='BTC-USDT', exchange='Sandbox',
                          reduce_only=False, status='ACTIVE', id='new')
    h.method(reg, 'add_order', new)
    h.prove(reg.f['storage']['Sandbox-BTC-USDT'][-1] is new and reg.f['active_storage']['Sandbox-BTC-USDT'][-1] is new,
            'registry.add-order.registers-in-both-lists')
    cnt2 = h.method(reg, 'count_active_orders', 'Sandbox', 'BTC-USDT')
    h.prove(ops.equal(cnt2, ops.arith('+', want, 1)), 'registry.add-order.count-grows-by-one')


def t_pending(h):
    cls = h.repo.find(OS_)
    trace = []
    os_ = []
    for j in range(2):
        o = Obj(None, {'id': f'm{j}'}, name=f'm{j}')
        o.f['execute'] = Builtin('execute', lambda i, a, k, o=o: trace.append(o))
        os_.append(o)
    reg = Obj(cls, {'to_execute': list(os_), 'storage': {}, 'active_storage': {}})
    h.method(reg, 'execute_pending_market_orders')
    h.prove(len(trace) == 2 and trace[0] is os_[0] and trace[1] is os_[1], 'pending.every-queued-market-order-executed-once-in-order')
    h.prove(reg.f['to_execute'] == [], 'pending.queue-empty-afterwards')
    h.method(reg, 'execute_pending_market_orders')
    h.prove(len(trace) == 2, 'pending.second-flush-executes-nothing')


def t_market_order_queued(h):
    """Sandbox.market_order: creates the order, registers it and queues it for the flush of the same step"""
    trace = []
    to_exec = []
    orders = Obj(None, {'add_order': Builtin('add_order', lambda i, a, k: trace.append(('add_order', a[0]))), 'to_execute': to_exec})
    store = Obj(None, {'orders': orders})
    h.ctx.cfg.globals['jesse.exchanges.sandbox.Sandbox.store'] = lambda i: store
    made = []

    def mk(i, a, k):
        o = Obj(None, dict(a[0]), name='Order')
        made.append(o)
        return o
    h.ctx.cfg.overrides['jesse.models.Order.Order'] = mk
    sb = Obj(h.repo.find('jesse.exchanges.sandbox.Sandbox.Sandbox'), {'name': 'Sandbox'})
    q, p = h.real('q', 0), h.real('p', 0)
    out = h.method_outcome(sb, 'market_order', 'BTC-USDT', q, p, 'buy', False)
    ok = out.ok and len(made) == 1 and out.value is made[0]
    h.prove(ok, 'market-order.creates-one-order')
    if ok:
        o = made[0]
        h.prove(trace == [('add_order', o)] and to_exec == [o], 'market-order.registered-and-queued-for-the-same-step')
        h.prove(o.f['type'] == 'MARKET' and ops.equal(o.f['price'], p) is True, 'market-order.fills-at-the-current-price-passed-in')


def t_trade_record(side):
    def t(h):
        ov = h.ctx.cfg.overrides
        ov['jesse.helpers.generate_unique_id'] = lambda i, a, k: 'trade-id'
        ct = h.repo.find(CT)
        state = h.interp.instantiate(ct, [], {})
        q, p = h.real('q'), h.real('p', 0)
        h.assume(ops.lnot(ops.equal(q, 0)))
        # the order type is a finite enumeration: the row logged for the trade carries the order's own quantity and price for each
        otype = 'LIMIT' if h.branch(h.bool('is_limit')) else ('STOP' if h.branch(h.bool('is_stop')) else 'MARKET')
        ov['jesse.services.selectors.get_current_price'] = lambda i, a, k: h.real('some_other_current_price', 0)
        o = common.mk_order(h, side=side, type=otype, qty=q, price=p, symbol='BTC-USDT', exchange='Sandbox', reduce_only=False,
                            status='EXECUTED')
        other = h.interp.call(h.interp.get_attr(state, '_get_current_trade'), ['Sandbox', 'ETH-USDT'])
        out = h.method_outcome(state, 'add_executed_order', o)
        h.prove(out.ok, f'trade-record.{side}.no-exception', {'raised': out.exc})
        if not out.ok:
            return
        trades = state.f['tempt_trades']
        t = trades.get('Sandbox-BTC-USDT')
        ok = isinstance(t, Obj) and [x for x in t.f['orders']] == [o] and other.f['orders'] == []
        h.prove(ok, f'trade-record.{side}.order-recorded-in-exactly-one-trade')
        if not ok:
            return
        nb = h.interp.lib._b_len(h.interp, [t.f['buy_orders']], {})
        ns = h.interp.lib._b_len(h.interp, [t.f['sell_orders']], {})
        wantb, wants = (1, 0) if side == 'buy' else (0, 1)
        h.prove(ops.equal(nb, wantb) is True and ops.equal(ns, wants) is True, f'trade-record.{side}.one-row-on-its-own-side-only')
        tbl = t.f['buy_orders'] if side == 'buy' else t.f['sell_orders']
        row = h.interp.lib.getitem(h.interp, tbl, 0)
        h.prove(ops.land(ops.equal(row.e[0], ops.absval(q)), ops.equal(row.e[1], p)), f'trade-record.{side}.row-is-abs-qty-and-price')
        h.prove(o.f.get('trade_id') == 'trade-id', f'trade-record.{side}.order-tagged-with-the-trade-id')
    return t


def t_resubmit(status):
    """Order.resubmit (live-mode API, no caller in jesse/): only a QUEUED order may become ACTIVE again; an order that is final
    (or already active) is refused and its record stays as it is - an order never leaves its terminal status"""
    def t(h):
        trace = world(h)
        ov = h.ctx.cfg.overrides
        ov['jesse.helpers.generate_unique_id'] = lambda i, a, k: 'new-id'
        o = common.mk_order(h, side='buy', type='LIMIT', qty=h.real('q', 0), price=h.real('p', 0), symbol='BTC-USDT', exchange='Sandbox',
                            reduce_only=False, status=status)
        before = dict(o.f)
        h.cover(f'resubmit.{status}.pre')
        out = h.method_outcome(o, 'resubmit')
        same = all(o.f.get(k) is v or o.f.get(k) == v for k, v in before.items()) and set(o.f) == set(before)
        h.prove((not out.ok) and same and [n for n, _ in trace] == [],
                'resubmit.final-or-active-order.is-refused-and-stays-unchanged', {'raised': out.exc, 'status': status})
    return t


def t_trade_record_partial(side):
    """a partial fill notification followed by the final execution: the order is listed once in its trade (each call adds its row)"""
    def t(h):
        ov = h.ctx.cfg.overrides
        ov['jesse.helpers.generate_unique_id'] = lambda i, a, k: 'trade-id'
        ct = h.repo.find(CT)
        state = h.interp.instantiate(ct, [], {})
        q, p, fq = h.real('q'), h.real('p', 0), h.real('fq')
        h.assume(ops.lnot(ops.equal(q, 0)))
        o = common.mk_order(h, side=side, type='LIMIT', qty=q, price=p, symbol='BTC-USDT', exchange='Sandbox', reduce_only=False,
                            status='PARTIALLY FILLED')
        o.f['filled_qty'] = fq
        out = h.method_outcome(state, 'add_executed_order', o)
        h.prove(out.ok, f'trade-record.partial.{side}.no-exception', {'raised': out.exc})
        if not out.ok:
            return
        o.f['status'] = 'EXECUTED'
        out = h.method_outcome(state, 'add_executed_order', o)
        h.prove(out.ok, f'trade-record.partial.{side}.no-exception', {'raised': out.exc})
        if not out.ok:
            return
        t = state.f['tempt_trades'].get('Sandbox-BTC-USDT')
        ok = isinstance(t, Obj) and [x for x in t.f['orders']] == [o]
        h.prove(ok, f'trade-record.partial.{side}.order-listed-once-after-partial-fill-and-execution',
                {'orders_listed': len(t.f['orders']) if isinstance(t, Obj) else None})
    return t


def t_execute_after_partial(side):
    """an order that was partially filled before (live-mode API) and is now executed completely, through the real Order.execute and
    the real trade store: it ends EXECUTED and is listed in exactly one trade, once"""
    def t(h):
        trace = world(h)
        ov = h.ctx.cfg.overrides
        ov['jesse.helpers.generate_unique_id'] = lambda i, a, k: 'trade-id'
        ct = h.repo.find(CT)
        state = h.interp.instantiate(ct, [], {})
        store = Obj(None, {'completed_trades': state}, name='store')
        h.ctx.cfg.globals['jesse.store.store'] = lambda i: store
        q = h.real('q')
        h.assume(ops.compare('>', q, 0) if side == 'buy' else ops.compare('<', q, 0))
        o = common.mk_order(h, side=side, type='LIMIT', qty=q, price=h.real('p', 0), symbol='BTC-USDT', exchange='Sandbox', reduce_only=False,
                            status='PARTIALLY FILLED')
        o.f['filled_qty'] = h.real('fq')
        out = h.method_outcome(o, 'execute', silent=True)
        h.prove(out.ok, 'execute-after-partial.no-exception', {'raised': out.exc})
        if not out.ok:
            return
        h.prove(ops.equal(o.f['status'], 'EXECUTED') is True, 'execute-after-partial.becomes-executed')
        n = 0
        for tr in list(state.f['trades']) + list(state.f['tempt_trades'].values()):
            if isinstance(tr, Obj):
                n += sum(1 for x_ in tr.f.get('orders', []) if x_ is o)
        h.prove(n == 1, 'execute-after-partial.listed-in-exactly-one-trade-once', {'listed': n})
    return t


def tasks(tier):
    x = dict(spec_mod=SPEC)
    ov = stubs.backtest_mode()
    ts = []
    for op in ('execute', 'cancel'):
        for status in ('ACTIVE', 'EXECUTED', 'CANCELED'):
            for otype in ('LIMIT', 'STOP', 'MARKET'):
                for side in ('buy', 'sell'):
                    ts.append(Task(f'{op}.{status}.{otype}.{side}', t_lifecycle(op, status, otype, side), extra=x, overrides=dict(ov)))
    ts.append(Task('writers', t_writers, extra=x))
    xb = dict(x)
    n_reg = 3 if tier == 'quick' else 5
    xb['bounded'] = f'registry of N={n_reg} orders (statuses symbolic)'
    ts.append(Task('registry', (lambda h: t_registry(h, n_reg)), extra=xb, overrides=dict(ov), max_paths=200000))
    ts.append(Task('registry.add-order', t_add_order, extra=x, overrides=dict(ov), max_paths=20000))
    ts.append(Task('pending', t_pending, extra=x, overrides=dict(ov)))
    ts.append(Task('market-order', t_market_order_queued, extra=x, overrides=dict(ov)))
    for side in ('buy', 'sell'):
        ts.append(Task(f'trade-record.{side}', t_trade_record(side), extra=x, overrides=dict(ov)))
        ts.append(Task(f'trade-record.partial.{side}', t_trade_record_partial(side), extra=x, overrides=dict(ov)))
    # cancel-all reaches every submitted order that is not final, in production mode too (shared with C10)
    import props.C10 as P10
    ts.append(Task('cancel-all', P10.t_cancel_all, extra=dict(spec_mod=P10.SPEC), overrides=dict(ov)))
    for side in ('buy', 'sell'):
        ts.append(Task(f'execute-after-partial.{side}', t_execute_after_partial(side), extra=x, overrides=dict(ov)))
    for status in ('ACTIVE', 'EXECUTED', 'CANCELED'):
        ts.append(Task(f'resubmit.{status}', t_resubmit(status), extra=x, overrides=dict(ov)))
    # 'every executed order is recorded in exactly one trade': Order.execute records it once (execute.*, trade-record.*) and the
    # position bookkeeping it triggers records nothing itself, whatever the fill does to the position (shared with C06)
    import props.C06 as P6
    for pt in ('long', 'short'):
        ts.append(Task(f'dispatch.{pt}', P6.t_dispatch(pt, only_listing=True), extra=dict(spec_mod=P6.SPEC), overrides=dict(ov)))
    return ts
