"""C09 - isolated-margin liquidation happens exactly at the liquidation price."""
import os
from fractions import Fraction
from pyvc.harness import Task, load_spec_module
from pyvc import ops, stubs
from pyvc.values import Obj, Sym, Opaque, Vec, NAN
from pyvc.interp import Builtin
from props import common
import contracts.C09 as K

PROPERTY = 'C09'
LEVEL = 'proof'
HERE = os.path.dirname(os.path.abspath(__file__))
SPEC = load_spec_module(os.path.join(HERE, '..', 'contracts', 'C09.py'), 'contracts.C09')
FUNCTIONS = ['jesse.models.Position.Position.liquidation_price', 'jesse.models.Position.Position.bankruptcy_price',
             'jesse.models.Position.Position._initial_margin_rate', 'jesse.models.Position.Position.mode',
             'jesse.models.Position.Position.type', 'jesse.models.Position.Position.is_open',
             'jesse.models.Position.Position.leverage', 'jesse.modes.backtest_mode._check_for_liquidations',
             'jesse.helpers.estimate_PNL', 'jesse.helpers.closing_side', 'jesse.helpers.prepare_qty',
             'jesse.services.candle.candle_includes_price', 'jesse.models.Position.Position._on_executed_order',
             'jesse.modes.backtest_mode._simulate_price_change_effect', 'jesse.modes.backtest_mode._simulate_price_change_effect_multiple_candles']
ASSUMPTIONS = [
    'A-1 floats are mathematical reals (+ NaN flag)', 'A-6 backtest mode (is_livetrading() == False)',
    'A-7 Order(...) is a record of the attribute dict it is given',
    'placement of the check after order matching is the call-trace obligation C02.*.liquidation-check-last (decided under C02); '
    'cancellation of resting orders on close is decided under C10',
]
TRUSTED = ['numpy.nan', 'abs', 'str.lower']
EXPLANATION = 'formulas for symbolic leverage 1..125 and symbolic entry/qty; _check_for_liquidations against its call-trace contract'
MANIFEST = {
    'category': 'proof',
    'text': 'Position.liquidation_price / bankruptcy_price are executed symbolically (leverage a symbolic integer 1..125, entry '
            'and size symbolic): strict ordering bankr < liq < entry (long) resp. entry < liq < bankr (short), NaN for closed, cross '
            'and spot positions; closing at the bankruptcy price loses exactly |qty|*entry/L. _check_for_liquidations is proved '
            'against a call-trace contract: nothing happens unless the position is open, isolated and low <= liq <= high; otherwise '
            'exactly one reduce-only MARKET order on the closing side for the whole size at the bankruptcy price is created, '
            'registered, counted and executed, in that order.',
    'note': 'A-1, A-6, A-7; that the check runs after the resting orders of the minute/chunk were matched is proved under C02; '
            'the cancel-on-close clause under C10.',
}


def t_formulas(side, mode):
    def t(h):
        w = common.futures_world(h, mode=mode)
        p = w.positions['BTC-USDT']
        q, e, c = common.open_position(h, p, side)
        h.cover('formulas.pre')
        liq = h.attr(p, 'liquidation_price')
        bankr = h.attr(p, 'bankruptcy_price')
        env = dict(liq=liq, bankr=bankr, entry=e, qty=q, L=w.L)
        if mode == 'isolated':
            h.prove(h.ev(K.ORDERING[side], **env), f'formulas.{side}.liq-strictly-between-entry-and-bankruptcy',
                    {'clause': K.ORDERING[side]})
            if side == 'long':
                h.prove(h.ev(K.MUSTFAIL, **env), 'formulas.mustfail')
        else:
            h.prove(liq is NAN, f'formulas.{mode}.never-liquidates')
        pnl = h.call('jesse.helpers.estimate_PNL', ops.absval(q), e, bankr, h.attr(p, 'type'))
        h.prove(h.ev(K.LOSS, pnl=pnl, **env), f'formulas.{side}.loses-initial-margin-at-bankruptcy', {'clause': K.LOSS})
    return t


def t_after_fill(side):
    """liquidation / bankruptcy price follow the position through fills (averaged entries, reductions, flips): read them,
    apply an arbitrary fill through the real Position._on_executed_order, read them again - they are the formulas of the NEW
    entry price.  (Catches memoised prices that are not invalidated by some mutating operation.)"""
    def t(h):
        w = common.futures_world(h, mode='isolated')
        p = w.positions['BTC-USDT']
        Q, E, _ = common.open_position(h, p, side)
        h.attr(p, 'liquidation_price')
        h.attr(p, 'bankruptcy_price')
        q, px = h.real('q'), h.real('p')
        h.assume(ops.lnot(ops.equal(q, 0)))
        h.assume(ops.compare('>', px, 0))
        ro = h.bool('reduce_only')
        h.assume(ops.implies(ro, ops.compare('<', ops.arith('*', q, Q), 0)))
        o = common.mk_order(h, side='buy', type='LIMIT', qty=q, price=px, symbol='BTC-USDT', exchange='Sandbox', reduce_only=ro,
                            status='EXECUTED', id='o1')
        if h.branch(ops.compare('<', q, 0)):
            o.f['side'] = 'sell'
        h.cover('after-fill.pre')
        out = h.method_outcome(p, '_on_executed_order', o)
        h.prove(out.ok, 'after-fill.no-exception', {'raised': out.exc})
        if not out.ok:
            return
        q2 = p.f['qty']
        if h.branch(ops.equal(q2, 0)):
            h.prove(h.attr(p, 'liquidation_price') is NAN, 'after-fill.closed-position-has-no-liq-price')
            return
        now = 'long' if h.branch(ops.compare('>', q2, 0)) else 'short'
        liq = h.attr(p, 'liquidation_price')
        bankr = h.attr(p, 'bankruptcy_price')
        env = dict(liq=liq, bankr=bankr, entry=p.f['entry_price'], qty=q2, L=w.L)
        h.prove(h.ev(K.LIQ_FORMULA[now], **env), 'after-fill.liq-price-follows-the-current-entry-price', {'clause': K.LIQ_FORMULA[now]})
        h.prove(h.ev(K.BANKR_FORMULA[now], **env), 'after-fill.bankruptcy-price-follows-the-current-entry-price',
                {'clause': K.BANKR_FORMULA[now]})
    return t


def t_call_site(kind):
    """the simulator hands the WHOLE minute (step) resp. the aggregated chunk (fast mode) to _check_for_liquidations, after
    the resting orders were matched - not the part of the candle left over by a fill, not the last minute of the chunk"""
    def t(h):
        from props import C02 as P2
        W = P2.match_world(h, 1, allow_new=False)
        BM = 'jesse.modes.backtest_mode'
        if kind == 'step':
            c = h.vec('c', 6)
            P2.valid_candle(h, c)
            h.cover('call-site.pre')
            out = h.outcome(f'{BM}._simulate_price_change_effect', c, 'Sandbox', 'BTC-USDT')
            h.prove(out.ok, 'call-site.step.no-exception', {'raised': out.exc})
            if not out.ok:
                return
            liqs = [e for e in W.ev if e[0] == 'liquidations']
            h.prove(len(liqs) == 1 and W.ev[-1][0] == 'liquidations', 'call-site.step.checked-once-after-matching')
            if liqs:
                got = liqs[0][1][0]
                same = isinstance(got, Vec) and all(ops.equal(a, b) is True for a, b in zip(got.e, c.e))
                h.prove(got is c or same, 'call-site.step.check-receives-the-whole-minute')
        else:
            rows = []
            for j in range(3):
                v = h.vec(f'm{j}_', 6)
                P2.valid_candle(h, v)
                rows.append(v)
            from pyvc.values import Arr
            chunk = Arr(3, (lambda k, rows=rows: ops.pick(rows, k)), np=True, cols=6)
            h.cover('call-site.pre')
            out = h.outcome(f'{BM}._simulate_price_change_effect_multiple_candles', chunk, 'Sandbox', 'BTC-USDT')
            h.prove(out.ok, 'call-site.chunk.no-exception', {'raised': out.exc})
            if not out.ok:
                return
            liqs = [e for e in W.ev if e[0] == 'liquidations']
            h.prove(len(liqs) == 1 and W.ev[-1][0] == 'liquidations', 'call-site.chunk.checked-once-after-matching')
            if liqs:
                got = liqs[0][1][0]
                hi = rows[0].e[3]
                lo = rows[0].e[4]
                for r_ in rows[1:]:
                    hi = ops.vmax(hi, r_.e[3])
                    lo = ops.vmin(lo, r_.e[4])
                ok = isinstance(got, Vec) and len(got.e) == 6
                h.prove(ok and ops.land(ops.equal(got.e[3], hi), ops.equal(got.e[4], lo)),
                        'call-site.chunk.check-receives-the-range-of-the-whole-chunk')
    return t


def t_closed(h):
    w = common.futures_world(h, mode='isolated')
    p = w.positions['BTC-USDT']
    h.prove(h.attr(p, 'liquidation_price') is NAN and h.attr(p, 'bankruptcy_price') is NAN, 'formulas.closed-position-has-no-liq-price')


def t_spot(h):
    r = h.repo
    ex = Obj(r.find('jesse.models.SpotExchange.SpotExchange'), {'type': 'spot', 'fee_rate': Fraction(0), 'name': 'Sandbox'})
    p = Obj(r.find('jesse.models.Position.Position'), {'exchange': ex, 'qty': h.real('Q', 0), 'entry_price': h.real('E', 0),
                                                        'current_price': h.real('P'), 'strategy': None, 'symbol': 'BTC-USDT'})
    h.assume(ops.compare('>', p.f['qty'], 0))
    h.prove(h.attr(p, 'liquidation_price') is NAN, 'formulas.spot.never-liquidates')


def t_check(side, mode, is_open):
    def t(h):
        w = common.futures_world(h, mode=mode)
        p = w.positions['BTC-USDT']
        if is_open:
            q, e, c = common.open_position(h, p, side)
        candle = h.vec('c', 6)
        h.assume(ops.compare('<=', candle.e[4], candle.e[3]))
        trace = []
        app = Obj(None, {'total_liquidations': h.int('liqs', 0)}, name='store.app')
        liqs0 = app.f['total_liquidations']

        def mk_order(i, a, k):
            o = Obj(None, dict(a[0]), name='Order')
            o.f['__attrs__'] = dict(a[0])
            o.f['execute'] = Builtin('Order.execute', lambda i2, a2, k2, o=o: trace.append(('execute', o)))
            trace.append(('Order', o))
            return o
        orders = Obj(None, {'add_order': Builtin('add_order', lambda i, a, k: trace.append(('add_order', a[0])))}, name='store.orders')
        store = Obj(None, {'orders': orders, 'app': app}, name='store')
        h.ctx.cfg.overrides['jesse.models.Order.Order'] = mk_order
        h.ctx.cfg.globals['jesse.modes.backtest_mode.store'] = lambda i: store
        liq = h.attr(p, 'liquidation_price') if is_open else NAN
        bankr = h.attr(p, 'bankruptcy_price') if is_open else NAN
        h.cover('check.pre')
        out = h.outcome('jesse.modes.backtest_mode._check_for_liquidations', candle, 'Sandbox', 'BTC-USDT')
        h.prove(out.ok, 'check.no-exception')
        if not out.ok:
            return
        touched = False
        if is_open and mode == 'isolated':
            touched = ops.land(ops.compare('<=', candle.e[4], liq), ops.compare('<=', liq, candle.e[3]))
        if h.branch(touched):
            h.cover('check.liquidating-path')
            kinds = [k for k, _ in trace]
            ok = kinds == ['Order', 'add_order', 'execute'] and trace[1][1] is trace[0][1] and trace[2][1] is trace[0][1]
            h.prove(ok, 'check.creates-registers-executes-one-order-in-that-order', {'trace': kinds})
            h.prove(ops.equal(app.f['total_liquidations'], ops.arith('+', liqs0, 1)), 'check.counts-one-liquidation')
            if ok:
                o = trace[0][1].f['__attrs__']
                for n, text in K.ORDER_FIELDS.items():
                    h.prove(h.ev(text, o=o, qty=p.f['qty'], bankr=bankr, symbol='BTC-USDT', exchange='Sandbox'),
                            f'check.order.{n}', {'clause': text})
        else:
            h.prove(trace == [], 'check.no-force-close-unless-open-isolated-and-touched', {'trace': [k for k, _ in trace]})
            h.prove(ops.equal(app.f['total_liquidations'], liqs0), 'check.count-unchanged-otherwise')
    return t


def tasks(tier):
    x = dict(spec_mod=SPEC)
    ov = stubs.backtest_mode()
    ts = []
    for side in ('long', 'short'):
        for mode in ('isolated', 'cross'):
            ts.append(Task(f'formulas.{side}.{mode}', t_formulas(side, mode), extra=x, overrides=dict(ov)))
            ts.append(Task(f'check.{side}.{mode}', t_check(side, mode, True), extra=x, overrides=dict(ov)))
        ts.append(Task(f'after-fill.{side}', t_after_fill(side), extra=x, overrides=dict(ov)))
    import props.C02 as P2
    x2 = dict(x, spec_mod=P2.SPEC)
    ts.append(Task('call-site.step', t_call_site('step'), extra=dict(x2, bounded='one resting order'), overrides=dict(ov), max_paths=20000))
    ts.append(Task('call-site.chunk', t_call_site('chunk'), extra=dict(x2, bounded='chunk of 3 minutes, one resting order'), overrides=dict(ov),
                   max_paths=50000))
    ts.append(Task('check.closed.isolated', t_check('long', 'isolated', False), extra=x, overrides=dict(ov)))
    ts.append(Task('formulas.closed', t_closed, extra=x, overrides=dict(ov)))
    ts.append(Task('formulas.spot', t_spot, extra=x, overrides=dict(ov)))
    # the forced close is a reduce-only market fill at the bankruptcy price: what it does to wallet, size and entry is the contract of
    # Position._on_executed_order / FuturesExchange (shared with C03) - with the price of `formulas.*` the loss is the initial margin plus fees
    import props.C03 as P3
    ts += [t for t in P3.tasks(tier) if t.id.startswith('fill.') and '.ro.' in t.id]
    # the minute range the liquidation check of the fast simulator looks at includes the gap to the previous close: every later
    # chunk is handed on with its first minute normalised, whether or not orders rest (shared with C07)
    import props.C07 as P7
    ts += [t for t in P7.tasks(tier) if t.id in ('fast.5m.step5', 'fast.15m.step5', 'fast.5m.step1')]
    return ts
