"""C07 - every timeframe is the exact aggregation of the one-minute candles."""
import ast
import json
import os
from fractions import Fraction
import z3
from pyvc.harness import Task, load_spec_module
from pyvc import ops, stubs
from pyvc.values import Obj, Sym, Arr, Vec, Opaque, z3num
from pyvc.interp import Builtin
from props import common, sim
import contracts.C07 as K

PROPERTY = 'C07'
LEVEL = 'proof'
HERE = os.path.dirname(os.path.abspath(__file__))
SPEC = load_spec_module(os.path.join(HERE, '..', 'contracts', 'C07.py'), 'contracts.C07')
BM = 'jesse.modes.backtest_mode'
CS = 'jesse.store.state_candles.CandlesState'
FUNCTIONS = ['jesse.services.candle.generate_candle_from_one_minutes', 'jesse.services.candle._get_generated_candles',
             'jesse.services.candle.inject_warmup_candles_to_store', f'{CS}.get_candles', f'{CS}.get_current_candle',
             f'{CS}.forming_estimation', f'{BM}._step_simulator', f'{BM}._simulate_new_candles',
             f'{BM}._update_all_routes_a_partial_candle', f'{BM}._get_fixed_jumped_candle', f'{BM}._calculate_minimum_candle_step',
             f'{BM}._simulate_price_change_effect_multiple_candles', 'jesse.utils.timeframe_to_one_minutes']
ASSUMPTIONS = [
    'A-1; A-6 backtest mode; sessions and warm-up lengths are aligned to every route timeframe (granted by the statement)',
    'numpy max/min/sum over a window are characterised by their defining properties and congruence (trusted_base)',
    'simulator loop bodies are executed with recording stubs for everything outside the feed logic (contracted calls); the stubs\' '
    'callees are decided elsewhere (matching C02, store C20, strategies A-9)',
    'timeframes: the window arithmetic is proved per timeframe label (all 16 non-1m labels); the fast-mode chunk step ranges over the '
    'divisors {1,3,5,15} of the route timeframes used in the harness',
]
TRUSTED = ['numpy.max/min (defining property)', 'numpy.sum', 'numpy.concatenate']
EXPLANATION = 'aggregator postcondition; window index arithmetic of three slicing sites per timeframe; forming reads; store invariant'
MANIFEST = {
    'category': 'proof',
    'text': 'generate_candle_from_one_minutes is proved equal to the aggregation (first timestamp/open, last close, max high, min low, '
            'volume sum) with its raise-iff, for every timeframe. One arbitrary iteration of the real _step_simulator loop, of '
            '_simulate_new_candles (fast mode), of inject_warmup_candles_to_store and _get_generated_candles is executed with recording '
            'stubs: a higher-timeframe candle is generated exactly at window ends from exactly the aligned window [end-count+1, end], '
            'nothing else is read. _update_all_routes_a_partial_candle publishes agg of the current window so far; forming_estimation / '
            'get_current_candle / get_candles return complete rows plus agg of the stored 1m candles of the forming window; '
            '_get_fixed_jumped_candle is the documented normalisation only; the fast-mode chunk candle is agg of the chunk.',
    'note': 'two defects found by these obligations were repaired (fix: commits, KNOWN_FINDINGS.json): stale forming row after a fill, '
            'IndexError before the first higher-timeframe row. numpy reductions are axiomatised; stubs stand for contracted callees.',
}
FINDINGS = set(json.loads(os.environ.get('PYVC_FINDINGS', '[]')))
TFS = [t for t in K.MINUTES if t != '1m']


def same(h, a, b):
    return h.spec('same_candle', a, b)


def t_agg(tf, forming):
    def t(h):
        w = h.ctx.fresh_arr('w', np=True, cols=6)
        n = w.n
        cnt = K.MINUTES[tf]
        out = h.outcome('jesse.services.candle.generate_candle_from_one_minutes', tf, w, forming)
        bad = ops.lor(ops.equal(n, 0), False if forming else ops.lnot(ops.equal(n, cnt)))
        if h.branch(bad):
            h.prove((not out.ok) and out.exc == 'ValueError', 'agg.raises-iff-empty-or-wrong-length', {'got': out.exc})
            return
        h.prove(out.ok, 'agg.raises-iff-empty-or-wrong-length', {'raised': out.exc})
        if out.ok:
            h.prove(isinstance(out.value, Vec) and len(out.value.e) == 6, 'agg.returns-one-candle')
            h.prove(same(h, out.value, h.spec('agg', w)), 'agg.equals-aggregation-of-the-window')
            if tf == '5m' and forming:
                h.prove(ops.equal(out.value.e[2], w.fn(0).e[2]), 'agg.mustfail')
    return t


def window_ok(h, w, arr, lo, hi, name):
    base, off, ln = sim.window_of(w)
    h.prove(base is arr, f'{name}.window-is-a-slice-of-the-input-array')
    h.prove(ops.land(ops.equal(off, lo), ops.equal(ln, ops.arith('-', hi, lo))), f'{name}.window-is-exactly-the-aligned-window',
            {'clause': 'slice == [end - count + 1, end]'})


def t_step(tf):
    def t(h):
        sim.lib_time(h)
        cnt = K.MINUTES[tf]
        S = sim.build(h, symbols=('BTC-USDT',), timeframes=('1m', tf), route_tfs=(tf,))
        arr = S.inputs['BTC-USDT']
        key = (f'{BM}._step_simulator', 0)

        def start(interp, fr, i):
            del S.events[:]
            del S.reads[:]

        def end(interp, fr, i):
            gens = [e for e in S.events if e[0] == 'generate']
            adds = [e for e in S.events if e[0] == 'add_candle' and e[1][3] == tf]
            at_end = ops.equal(ops.arith('%', ops.arith('+', i, 1), cnt), 0)
            if h.branch(at_end):
                ok = len(gens) == 1 and len(adds) == 1
                h.prove(ok, 'step.one-candle-generated-and-stored-at-each-window-end')
                if ok:
                    window_ok(h, gens[0][1][1], arr, ops.arith('-', ops.arith('+', i, 1), cnt), ops.arith('+', i, 1), 'step')
                    h.prove(gens[0][1][0] == tf and adds[0][1][0] is gens[0][1][3], 'step.generated-candle-is-what-gets-stored')
                    # a fill inside the closing minute publishes partial candles of the window; the completed candle must be
                    # the last thing stored for it, i.e. stored after the minute has been matched
                    names = [e[0] if e[0] != 'add_candle' else ('add.' + str(e[1][3])) for e in S.events]
                    h.prove('match' in names and names.index('match') < names.index('add.' + tf),
                            'step.completed-candle-is-stored-after-the-minute-has-been-matched', {'events': names})
                    lo = ops.arith('-', ops.arith('+', i, 1), cnt)
                    h.prove(ops.land(ops.compare('>=', lo, 0), ops.equal(ops.arith('%', lo, cnt), 0)), 'step.window-start-is-aligned')
            else:
                h.prove(len(gens) == 0 and len(adds) == 0, 'step.nothing-generated-inside-a-window')
        h.ctx.cfg.extra['loop_hooks'] = {key: {'start': start, 'end': end}}
        h.ctx.cfg.extra['havoc'] = {key: {'last_update_time': lambda i, old: Opaque('t')}}
        h.ctx.cfg.invariants[key] = []
        h.cover('step.pre')
        out = h.outcome(f'{BM}._step_simulator', S.candles, True)
        h.prove(out.ok, 'step.no-exception', {'raised': out.exc})
    return t


def t_step_two_symbols(tf):
    """two symbols in the step simulator: the candle stored for a symbol at a window end is generated from THAT symbol's minutes"""
    def t(h):
        sim.lib_time(h)
        cnt = K.MINUTES[tf]
        syms = ('BTC-USDT', 'ETH-USDT')
        S = sim.build(h, symbols=syms, timeframes=('1m', tf), route_tfs=(tf,))
        key = (f'{BM}._step_simulator', 0)

        def start(interp, fr, i):
            del S.events[:]
            del S.reads[:]

        def end(interp, fr, i):
            gens = [e for e in S.events if e[0] == 'generate']
            adds = [e for e in S.events if e[0] == 'add_candle' and e[1][3] == tf]
            at_end = ops.equal(ops.arith('%', ops.arith('+', i, 1), cnt), 0)
            if h.branch(at_end):
                ok = len(gens) == 2 and sorted(a[1][2] for a in adds) == sorted(syms)
                h.prove(ok, 'step.2sym.one-candle-per-symbol-generated-and-stored-at-each-window-end')
                if ok:
                    for a in adds:
                        g = [g_ for g_ in gens if g_[1][3] is a[1][0]]
                        h.prove(len(g) == 1, 'step.2sym.generated-candle-is-what-gets-stored')
                        if len(g) == 1:
                            window_ok(h, g[0][1][1], S.inputs[a[1][2]], ops.arith('-', ops.arith('+', i, 1), cnt), ops.arith('+', i, 1), 'step.2sym')
            else:
                h.prove(len(gens) == 0 and len(adds) == 0, 'step.2sym.nothing-generated-inside-a-window')
        h.ctx.cfg.extra['loop_hooks'] = {key: {'start': start, 'end': end}}
        h.ctx.cfg.extra['havoc'] = {key: {'last_update_time': lambda i, old: Opaque('t')}}
        h.ctx.cfg.invariants[key] = []
        h.cover('step.2sym.pre')
        out = h.outcome(f'{BM}._step_simulator', S.candles, True)
        h.prove(out.ok, 'step.2sym.no-exception', {'raised': out.exc})
    return t


def t_routes(h):
    """RouterClass.all_formatted_routes - the list the simulators derive the considered timeframes from (partial-candle publication,
    fast-mode step): every trading route AND every data route is listed, also a data route on a pair that is traded as well"""
    r = h.interp.instantiate(h.repo.find('jesse.routes.RouterClass'), [], {})
    mk = lambda ex, sym, tf: Obj(None, {'exchange': ex, 'symbol': sym, 'timeframe': tf, 'strategy_name': 'S'}, name='route')
    r.f['routes'] = [mk('Sandbox', 'BTC-USDT', '15m'), mk('Sandbox', 'ETH-USDT', '1h')]
    r.f['data_candles'] = [{'exchange': 'Sandbox', 'symbol': 'BTC-USDT', 'timeframe': '5m'}, {'exchange': 'Sandbox', 'symbol': 'SOL-USDT', 'timeframe': '4h'}]
    out = h.outcome('jesse.routes.RouterClass.all_formatted_routes', r) if False else None
    got = h.attr(r, 'all_formatted_routes')
    want = [('Sandbox', 'BTC-USDT', '15m'), ('Sandbox', 'ETH-USDT', '1h'), ('Sandbox', 'BTC-USDT', '5m'), ('Sandbox', 'SOL-USDT', '4h')]
    have = [(x['exchange'], x['symbol'], x['timeframe']) for x in got] if isinstance(got, list) else None
    h.prove(have is not None and sorted(have) == sorted(want), 'routes.all-formatted-routes-lists-every-route-and-every-data-route', {'listed': have})


def t_strategy_reads(h):
    """mechanical: the engine treats decorators as transparent (A-5), so the members of Strategy through which a strategy reads
    candles, prices and its position must not be wrapped by anything but @property / @staticmethod / @abstractmethod: a memoising
    decorator (services.cache.cached, functools.lru_cache) would hand out the forming candle of an earlier read"""
    c = h.repo.find('jesse.strategies.Strategy.Strategy')
    bad = []
    for st in c.node.body:
        if isinstance(st, ast.FunctionDef):
            for d in st.decorator_list:
                name = ast.unparse(d)
                if name.split('.')[-1].split('(')[0] not in ('property', 'staticmethod', 'abstractmethod', 'classmethod', 'setter'):
                    bad.append(f'{st.name}: @{name}')
    h.prove(bad == [], 'strategy-reads.no-accessor-of-the-strategy-is-memoised', {'decorated': bad})
    f = h.repo.find('jesse.strategies.Strategy.Strategy.candles')
    src = ast.unparse(f.node)
    h.prove('store.candles.get_candles(' in src and 'self.exchange' in src and 'self.symbol' in src and 'self.timeframe' in src,
            'strategy-reads.candles-is-the-store-getter-for-the-trading-route')


def t_fast(tf, step):
    def t(h):
        cnt = K.MINUTES[tf]
        S = sim.build(h, symbols=('BTC-USDT',), timeframes=('1m', tf), route_tfs=(tf,))
        arr = S.inputs['BTC-USDT']
        i = h.int('i', 0)
        h.assume(ops.equal(ops.arith('%', i, step), 0))
        h.assume(ops.compare('<=', ops.arith('+', i, step), S.N))
        fixes = []
        h.ctx.cfg.overrides[f'{BM}._get_fixed_jumped_candle'] = lambda it, a, k: (fixes.append(tuple(a)), a[1])[1]
        h.cover('fast.pre')
        out = h.outcome(f'{BM}._simulate_new_candles', S.candles, i, step)
        h.prove(out.ok, 'fast.no-exception', {'raised': out.exc})
        if not out.ok:
            return
        # every chunk but the first starts with the minute normalised to the previous close - whatever the registry holds (the
        # liquidation check and the orders a hook submits during the chunk look at that minute, too)
        if h.branch(ops.compare('>', i, 0)):
            okf = len(fixes) == 1
            h.prove(okf, 'fast.first-minute-of-a-later-chunk-is-normalised-to-the-previous-close-whatever-orders-rest', {'calls': len(fixes)})
            if okf:
                h.prove(ops.land(same(h, fixes[0][0], arr.fn(ops.arith('-', i, 1))), same(h, fixes[0][1], arr.fn(i))),
                        'fast.the-normalisation-gets-the-previous-minute-and-the-first-minute-of-the-chunk')
        else:
            h.prove(len(fixes) == 0, 'fast.first-chunk-is-not-normalised')
        gens = [e for e in S.events if e[0] == 'generate']
        adds = [e for e in S.events if e[0] == 'add_candle' and e[1][3] == tf]
        chunks = [e for e in S.events if e[0] == 'match_chunk']
        h.prove(len(chunks) == 1, 'fast.chunk-matched-once')
        if len(chunks) == 1:
            window_ok(h, chunks[0][1][0], arr, i, ops.arith('+', i, step), 'fast.chunk')
        at_end = ops.equal(ops.arith('%', ops.arith('+', i, step), cnt), 0)
        if h.branch(at_end):
            ok = len(gens) == 1 and len(adds) == 1
            h.prove(ok, 'fast.one-candle-generated-and-stored-at-each-window-end')
            if ok:
                end = ops.arith('+', i, step)
                window_ok(h, gens[0][1][1], arr, ops.arith('-', end, cnt), end, 'fast')
                h.prove(adds[0][1][0] is gens[0][1][3], 'fast.generated-candle-is-what-gets-stored')
        else:
            h.prove(len(gens) == 0 and len(adds) == 0, 'fast.nothing-generated-inside-a-window')
    return t


def t_min_step(size):
    """_calculate_minimum_candle_step: the chunk length of the fast simulator divides the minute count of every route
    timeframe (otherwise `(i + step) % count == 0` skips window ends and whole candles are never published).
    Finite enumeration: every set of `size` distinct timeframes (size == 'all': every non-empty subset of the 17 timeframes,
    i.e. the whole domain - the thorough tier decides this contract completely)."""
    import itertools

    def t(h):
        names = list(K.MINUTES)
        bad_div, bad_pos, n = [], [], 0
        combos = itertools.combinations(names, size) if size != 'all' else \
            itertools.chain.from_iterable(itertools.combinations(names, r) for r in range(1, len(names) + 1))
        for combo in combos:
            router = Obj(None, {'all_formatted_routes': [{'exchange': 'Sandbox', 'symbol': 'BTC-USDT', 'timeframe': tf} for tf in combo]})
            h.ctx.cfg.globals[f'{BM}.router'] = lambda i, router=router: router
            h.ctx.globals.pop(f'{BM}.router', None)
            out = h.outcome(f'{BM}._calculate_minimum_candle_step')
            n += 1
            if not out.ok:
                bad_pos.append((combo, 'raised ' + str(out.exc)))
                continue
            step = out.value
            if not (isinstance(step, int) and step >= 1):
                bad_pos.append((combo, repr(step)))
                continue
            if any(K.MINUTES[tf] % step != 0 for tf in combo):
                bad_div.append((combo, step))
        h.cover('min-step.pre')
        h.prove(not bad_pos, f'min-step.size{size}.is-a-positive-integer', {'cases': n, 'failing': [list(map(str, b)) for b in bad_pos[:5]]})
        h.prove(not bad_div, f'min-step.size{size}.divides-the-minute-count-of-every-route-timeframe',
                {'cases': n, 'failing': [[list(c), s_] for c, s_ in bad_div[:5]]})
    return t


def t_loop_windows(fn, tf):
    """inject_warmup_candles_to_store / _get_generated_candles: same window arithmetic"""
    def t(h):
        cnt = K.MINUTES[tf]
        ev = []
        arr = h.ctx.fresh_arr('candles', np=True, cols=6)
        h.assume(ops.compare('>=', arr.n, 1))
        cstate = Obj(None, {'batch_add_candle': Builtin('batch', lambda i, a, k: ev.append(('batch', tuple(a)))),
                            'add_candle': Builtin('add_candle', lambda i, a, k: ev.append(('add_candle', tuple(a))))})
        store = Obj(None, {'candles': cstate})
        h.ctx.cfg.globals['jesse.store.store'] = lambda i: store
        h.ctx.cfg.globals['jesse.config.config'] = lambda i: {'app': {'considering_timeframes': ('1m', tf)}}

        def gen(i, a, k):
            out = Vec([h.ctx.fresh_real('gen') for _ in range(6)])
            ev.append(('generate', (a[0], a[1], out)))
            return out
        h.ctx.cfg.overrides['jesse.services.candle.generate_candle_from_one_minutes'] = gen
        name = fn.split('.')[-1]
        key = (fn, 0)

        def start(interp, fr, i):
            del ev[:]

        def end(interp, fr, i):
            gens = [e for e in ev if e[0] == 'generate']
            at_end = ops.equal(ops.arith('%', ops.arith('+', i, 1), cnt), 0)
            if h.branch(at_end):
                h.prove(len(gens) == 1, f'{name}.one-candle-per-complete-window')
                if len(gens) == 1:
                    window_ok(h, gens[0][1][1], arr, ops.arith('-', ops.arith('+', i, 1), cnt), ops.arith('+', i, 1), name)
            else:
                h.prove(len(gens) == 0, f'{name}.nothing-generated-inside-a-window')
        h.ctx.cfg.extra['loop_hooks'] = {key: {'start': start, 'end': end}}
        h.ctx.cfg.extra['havoc'] = {key: {'generated_candles': lambda i, old: []}}
        h.ctx.cfg.invariants[key] = []
        if name == '_get_generated_candles':
            out = h.outcome(fn, tf, arr)
        else:
            out = h.outcome(fn, arr, 'Sandbox', 'BTC-USDT')
        h.prove(out.ok, f'{name}.no-exception', {'raised': out.exc})
    return t


def t_fixed_jump(h):
    prev = h.vec('prev', 6)
    raw = h.vec('raw', 6)
    h.assume(ops.land(ops.compare('<=', raw.e[4], raw.e[1]), ops.compare('<=', raw.e[1], raw.e[3])))
    c = Vec(list(raw.e))
    out = h.outcome(f'{BM}._get_fixed_jumped_candle', prev, c)
    h.prove(out.ok and out.value is c, 'fixed-jump.returns-the-candle')
    if out.ok:
        for n, text in K.FIXED_JUMP.items():
            h.prove(h.ev(text, c=c, r=raw, pc=prev.e[2]), f'fixed-jump.{n}', {'clause': text})
        h.prove(h.ev(K.MUSTFAIL, c=c, r=raw, pc=prev.e[2]), 'fixed-jump.mustfail')


def mk_candle_store(h, tf, with_invariant=True):
    cls = h.repo.find(CS)
    t1 = common.mk_table(h, 'store[1m]', cols=6)
    tN = common.mk_table(h, f'store[{tf}]', cols=6)
    st = Obj(cls, {'storage': {'Sandbox-BTC-USDT-1m': t1, f'Sandbox-BTC-USDT-{tf}': tN}, 'are_all_initiated': False,
                   'initiated_pairs': {}}, name='candles')
    return st, t1, tN


def rows(tbl):
    return Arr(ops.arith('+', tbl.f['index'], 1), tbl.f['array'].fn, np=True, cols=6)


def window_rows(t1, n, dif):
    a = t1.f['array']
    start = ops.arith('-', n, dif)
    return Arr(dif, (lambda k, a=a, start=start: a.fn(ops.arith('+', k, start))), np=True, cols=6, vbase=a, voff=start, view=True)


def t_forming(tf):
    def t(h):
        cnt = K.MINUTES[tf]
        st, t1, tN = mk_candle_store(h, tf)
        n = ops.arith('+', t1.f['index'], 1)
        m = ops.arith('+', tN.f['index'], 1)
        dif = ops.arith('%', n, cnt)
        out = h.method_outcome(st, 'forming_estimation', 'Sandbox', 'BTC-USDT', tf)
        h.prove(out.ok and ops.equal(out.value[0], dif) is not False, 'forming.no-exception')
        if out.ok:
            h.prove(ops.equal(out.value[0], dif), 'forming.dif-is-stored-minutes-modulo-timeframe')
        cur = h.method_outcome(st, 'get_current_candle', 'Sandbox', 'BTC-USDT', tf)
        if h.branch(ops.lnot(ops.equal(dif, 0))):
            h.prove(cur.ok, 'current.no-exception-while-forming', {'raised': cur.exc})
            if cur.ok:
                h.prove(same(h, cur.value, h.spec('agg', window_rows(t1, n, dif))), 'current.forming-candle-is-agg-of-the-window-so-far')
        elif h.branch(ops.compare('>', m, 0)):
            h.prove(cur.ok and same(h, cur.value, tN.f['array'].fn(tN.f['index'])), 'current.complete-candle-is-the-last-stored-row')
    return t


def t_get_candles(tf):
    """get_candles: complete rows are the stored rows, plus agg of the forming window; one row per started window"""
    def t(h):
        cnt = K.MINUTES[tf]
        st, t1, tN = mk_candle_store(h, tf)
        n = ops.arith('+', t1.f['index'], 1)
        m = ops.arith('+', tN.f['index'], 1)
        dif = ops.arith('%', n, cnt)
        full = ops.arith('//', n, cnt)
        a1, aN = t1.f['array'], tN.f['array']
        forming = ops.lnot(ops.equal(dif, 0))
        # store invariant: one stored row per complete window; while a window is forming there may be one extra row, published for
        # that window at a fill (its timestamp is the window start)
        extra = ops.land(forming, ops.land(ops.equal(m, ops.arith('+', full, 1)),
                                           ops.equal(aN.fn(ops.arith('-', m, 1)).e[0], a1.fn(ops.arith('-', n, dif)).e[0])))
        h.assume(ops.lor(ops.equal(m, full), extra))
        # timestamps identify windows: a complete row never carries the timestamp of the forming window
        h.assume(ops.implies(ops.land(forming, ops.land(ops.equal(m, full), ops.compare('>', m, 0))),
                             ops.lnot(ops.equal(aN.fn(ops.arith('-', m, 1)).e[0], a1.fn(ops.arith('-', n, dif)).e[0]))))
        fresh_partial = same(h, aN.fn(ops.arith('-', m, 1)), h.spec('agg', window_rows(t1, n, ops.vmax(dif, 1))))
        no_rows_yet = ops.land(forming, ops.equal(m, 0))
        ex1 = 'C07-get-candles-stale-partial-row' in FINDINGS
        ex2 = 'C07-get-candles-indexerror-before-first-row' in FINDINGS
        h.cover('get_candles.pre')
        out = h.method_outcome(st, 'get_candles', 'Sandbox', 'BTC-USDT', tf)
        if not out.ok:
            h.prove(ops.land(ex2, no_rows_yet) if ex2 else False, 'get_candles.no-exception', {'raised': out.exc})
            return
        h.prove(True, 'get_candles.no-exception')
        r = out.value
        started = ops.arith('+', full, ops.ite(forming.t, 1, 0) if not isinstance(forming, bool) else (1 if forming else 0))
        h.prove(ops.equal(r.n, started), 'get_candles.one-candle-per-started-window')
        if h.branch(forming):
            last = r.fn(ops.arith('-', r.n, 1))
            goal = same(h, last, h.spec('agg', window_rows(t1, n, dif)))
            if ex1:
                goal = ops.lor(ops.land(extra, ops.lnot(fresh_partial)), goal)
            h.prove(goal, 'get_candles.forming-candle-is-agg-of-the-stored-minutes-of-its-window')
        j = h.int('j', 0)
        h.assume(ops.compare('<', j, full))
        h.prove(same(h, r.fn(j), aN.fn(j)), 'get_candles.complete-candles-are-the-stored-rows')
    return t


def t_partial(tf):
    """_update_all_routes_a_partial_candle publishes agg of the current window so far"""
    def t(h):
        cnt = K.MINUTES[tf]
        ev = []
        a1 = h.ctx.fresh_arr('m1', np=True, cols=6)
        n = a1.n
        h.assume(ops.compare('>=', n, 1))
        start0 = h.int('session_start')
        h.assume(ops.equal(ops.arith('%', start0, cnt * 60000), 0))          # aligned session (granted by the statement)
        # Euclidean-division witnesses (a definitional extension: every start0 / n has them, no input is excluded): with them the
        # solver needs linear reasoning only to relate `ts % period // 60000` of the code to `(n - 1) % cnt` of the statement;
        # without them the verdict depended on the solver's random seed (130-180 s or unknown for 45m / 4h with seed 1)
        wa, wq, wr = h.int('w_periods'), h.int('w_quot'), h.int('w_rem')
        h.assume(ops.equal(start0, ops.arith('*', cnt * 60000, wa)))
        h.assume(ops.equal(ops.arith('-', n, 1), ops.arith('+', ops.arith('*', cnt, wq), wr)))
        h.assume(ops.compare('>=', wr, 0))
        h.assume(ops.compare('<', wr, cnt))
        q = ops.fresh_qvar('ts')
        h.ctx.s.add(z3.ForAll([q], z3.Implies(z3.And(q >= 0, q < z3num(n)), a1.fn(Sym(q, 'int')).e[0].t == z3num(start0) + 60000 * q)))
        part = Vec(list(a1.fn(ops.arith('-', n, 1)).e))

        def add_candle(i, a, k):
            ev.append(('add_candle', tuple(a)))
        cstate = Obj(None, {'add_candle': Builtin('add_candle', add_candle),
                            'get_candles': Builtin('get_candles', lambda i, a, k: Arr(n, a1.fn, np=True, cols=6))})
        store = Obj(None, {'candles': cstate})
        router = Obj(None, {'all_formatted_routes': [{'exchange': 'Sandbox', 'symbol': 'BTC-USDT', 'timeframe': '1m'},
                                                     {'exchange': 'Sandbox', 'symbol': 'BTC-USDT', 'timeframe': tf},
                                                     {'exchange': 'Sandbox', 'symbol': 'ETH-USDT', 'timeframe': tf}]})
        h.ctx.cfg.globals[f'{BM}.store'] = lambda i: store
        h.ctx.cfg.globals[f'{BM}.router'] = lambda i: router
        h.cover('partial.pre')
        out = h.outcome(f'{BM}._update_all_routes_a_partial_candle', 'Sandbox', 'BTC-USDT', part)
        h.prove(out.ok, 'partial.no-exception', {'raised': out.exc})
        if not out.ok:
            return
        tf_adds = [e for e in ev if e[1][3] == tf]
        h.prove(len(ev) == 2 and ev[0][1][3] == '1m' and ev[0][1][0] is part and len(tf_adds) == 1,
                'partial.stores-the-partial-minute-then-one-candle-per-route-timeframe', {'adds': [e[1][3] for e in ev]})
        if len(tf_adds) == 1:
            needed = ops.arith('+', ops.arith('%', ops.arith('-', n, 1), cnt), 1)
            w = Arr(needed, (lambda k, a1=a1, n=n, needed=needed: a1.fn(ops.arith('+', k, ops.arith('-', n, needed)))), np=True, cols=6,
                    vbase=a1, voff=ops.arith('-', n, needed), view=True)
            h.prove(same(h, tf_adds[0][1][0], h.spec('agg', w)), 'partial.published-candle-is-agg-of-the-window-so-far')
    return t


def t_chunk_candle(h):
    chunk = h.ctx.fresh_arr('chunk', np=True, cols=6)
    h.assume(ops.compare('>=', chunk.n, 1))
    ev = []
    cstate = Obj(None, {'add_multiple_1m_candles': Builtin('add_multiple', lambda i, a, k: ev.append(('add_multiple', tuple(a))))})
    app = Obj(None, {'time': 0})
    store = Obj(None, {'candles': cstate, 'app': app})
    h.ctx.cfg.globals[f'{BM}.store'] = lambda i: store
    ov = h.ctx.cfg.overrides
    ov[f'{BM}._get_executing_orders'] = lambda i, a, k: (ev.append(('candidates', tuple(a))), [])[1]
    ov[f'{BM}._check_for_liquidations'] = lambda i, a, k: ev.append(('liquidations', tuple(a)))
    ov['jesse.services.selectors.get_position'] = lambda i, a, k: None
    out = h.outcome(f'{BM}._simulate_price_change_effect_multiple_candles', chunk, 'Sandbox', 'BTC-USDT')
    h.prove(out.ok, 'chunk.no-exception', {'raised': out.exc})
    if out.ok:
        c = [e for e in ev if e[0] == 'candidates']
        ok = len(c) == 1
        h.prove(ok, 'chunk.candidates-selected-once')
        if ok:
            h.prove(same(h, c[0][1][2], h.spec('agg', chunk)), 'chunk.candle-is-agg-of-the-chunk')


def tasks(tier):
    x = dict(spec_mod=SPEC)
    ov = stubs.backtest_mode()
    ts = []
    tfs = TFS if tier == 'thorough' else ['3m', '5m', '15m', '45m', '1h', '4h', '1D', '1W']
    for tf in TFS:
        for forming in (False, True):
            ts.append(Task(f'agg.{tf}.{"forming" if forming else "complete"}', t_agg(tf, forming), extra=dict(x), overrides=dict(ov)))
    for tf in tfs:
        ts.append(Task(f'step.{tf}', t_step(tf), extra=dict(x), overrides=dict(ov), invariants={}))
        ts.append(Task(f'warmup.{tf}', t_loop_windows('jesse.services.candle.inject_warmup_candles_to_store', tf), extra=dict(x),
                       overrides=dict(ov), invariants={}))
        ts.append(Task(f'generated.{tf}', t_loop_windows('jesse.services.candle._get_generated_candles', tf), extra=dict(x),
                       overrides=dict(ov), invariants={}))
        ts.append(Task(f'forming.{tf}', t_forming(tf), extra=dict(x), overrides=dict(ov)))
        ts.append(Task(f'get_candles.{tf}', t_get_candles(tf), extra=dict(x), overrides=dict(ov)))
        ts.append(Task(f'partial.{tf}', t_partial(tf), extra=dict(x), overrides=dict(ov)))
    for tf, step in (('5m', 1), ('5m', 5), ('15m', 5), ('15m', 3), ('15m', 15), ('1h', 15), ('45m', 15), ('1h', 5), ('4h', 1)):
        ts.append(Task(f'fast.{tf}.step{step}', t_fast(tf, step), extra=dict(x), overrides=dict(ov)))
    for size in ((1, 2) if tier == 'quick' else (1, 2, 3)):
        ts.append(Task(f'min-step.size{size}', t_min_step(size), overrides=dict(ov),
                       extra=dict(x, bounded=f'every set of {size} distinct timeframes (finite enumeration, concrete evaluation)')))
    if True:
        # the whole finite domain: 2^17 - 1 subsets, concrete evaluation of the real function (complete, not bounded)
        ts.append(Task('min-step.all-subsets', t_min_step('all'), overrides=dict(ov), extra=dict(x, task_timeout_s=3600)))
    ts.append(Task('step.2sym.5m', t_step_two_symbols('5m'), extra=dict(x), overrides=dict(ov), invariants={}))
    ts.append(Task('strategy-reads', t_strategy_reads, extra=dict(x)))
    ts.append(Task('routes', t_routes, extra=dict(x), overrides=dict(ov)))
    import props.C02 as P2
    ts.append(Task('match.chunk.n1', P2.t_match_chunk(1, 3), extra=dict(x, spec_mod=P2.SPEC, bounded='chunk of 3 minutes, 1 resting order'), overrides=dict(ov), max_paths=200000))
    # 'the stored one-minute candles equal the input candles': what the fast simulator hands to the store in one batch is stored by
    # add_multiple_1m_candles - appended, replaced, or partly both (its contract, shared with C20)
    import props.C20 as P20
    ts += [t for t in P20.tasks(tier) if t.id.startswith('multi.')]
    ts.append(Task('fixed-jump', t_fixed_jump, extra=dict(x), overrides=dict(ov)))
    # the 1m candle stored by the match loop is the whole minute (not what a fill left over): shared with C02
    import props.C02 as P2
    ts.append(Task('match.stores-the-minute', P2.t_match_step(1, None, False), extra=dict(x, spec_mod=P2.SPEC, bounded='one resting order'),
                   overrides=dict(ov), max_paths=20000))
    ts.append(Task('chunk-candle', t_chunk_candle, extra=dict(x), overrides=dict(ov)))
    return ts
