"""Shared machinery for the indicator properties (C13, C14, C15): the real indicator functions are executed by the engine on
candle arrays of CONCRETE length with SYMBOLIC values (bounded in the length only; exact real-arithmetic terms, transcendental
functions uninterpreted), with if-merging so that data-dependent branches inside loops do not fork."""
import ast
import os
from fractions import Fraction
from pyvc import ops, stubs, lib, npvec
from pyvc.values import Sym, NAN, Vec, Arr, Obj, Opaque
import pyvc.values as V
from pyvc.harness import repo

TS0 = 1609459200000


def setup():
    lib.ext_call('math.floor')
    npvec.install()
    lib.NPVEC[0] = npvec
    ops.FAST[0] = True
    V.FAST[0] = True


def public_indicators():
    """(name, module, function) for every `from .x import y` of jesse/indicators/__init__.py"""
    m = repo().module('jesse.indicators')
    out = []
    for st in m.tree.body:
        if isinstance(st, ast.ImportFrom) and st.level == 1:
            for a in st.names:
                out.append((a.asname or a.name, f'jesse.indicators.{st.module}', a.name))
    return out


def has_sequential(qual):
    f = repo().find(qual)
    return any(a.arg == 'sequential' for a in f.node.args.args + f.node.args.kwonlyargs)


def candle_rows(h, n, prefix='c'):
    rows = []
    for j in range(n):
        vals = [h.real(f'{prefix}{j}_{c}') for c in range(1, 6)]
        for x in vals:
            h.assume(ops.compare('>', x, 0))
        # a valid candle: low <= open, close <= high
        o, c, hi, lo, v = vals
        for x in (o, c):
            h.assume(ops.land(ops.compare('<=', lo, x), ops.compare('<=', x, hi)))
        rows.append(Vec([TS0 + 60000 * j] + vals))
    return rows


def arr2d(rows):
    return Arr(len(rows), (lambda kk, rows=rows: ops.pick(rows, kk)), np=True, cols=6)


def fields(v):
    """an indicator result as a list of (field name, value)"""
    if isinstance(v, lib.NTuple):
        return list(zip(v._fields, list(v)))
    if isinstance(v, tuple):
        return [(str(j), x) for j, x in enumerate(v)]
    return [('value', v)]


def as_vec(x):
    if isinstance(x, Vec):
        return x
    return npvec.vec_of(x)


def same_term(x, y):
    """syntactic identity of two result values (both runs build their terms from the same input symbols)"""
    if x is y or (x is NAN and y is NAN):
        return True
    if x is None or y is None:
        return x is None and y is None
    if isinstance(x, Sym) and isinstance(y, Sym):
        if not x.t.eq(y.t):
            return False
        if (x.nan is None) != (y.nan is None):
            return False
        return x.nan is None or x.nan.eq(y.nan)
    if isinstance(x, Sym) or isinstance(y, Sym) or x is NAN or y is NAN:
        return False
    try:
        return x == y
    except Exception:
        return False


CFG_EXTRA = {'merge_ifs': True, 'np_scalar_div': True}


def overrides(warmup=240):
    ov = stubs.backtest_mode()
    ov['jesse.helpers.get_config'] = lambda i, a, k: (warmup if a and a[0] == 'env.data.warmup_candles_num' else (a[1] if len(a) > 1 else k.get('default')))
    return ov
