"""Shared symbolic worlds for the order / position / exchange properties (C03-C06, C09, C10).

Objects are instances of the *real* repo classes (their methods are looked up in /repo's AST and
executed symbolically); only construction bypasses __init__ so that the state is an arbitrary
well-formed one (P-HIST), not a fresh one.
"""
import ast
from fractions import Fraction
from pyvc import ops, stubs
from pyvc.values import Obj, Sym, Opaque, Arr, Vec, OutOfSubset
from pyvc.interp import Builtin, Frame
from pyvc.harness import repo


_SHARED_DEFAULTS = {}


def peewee_defaults(interp, cls):
    """A-7: a peewee Model instance is a record of its declared fields; XField(default=v) -> v, else None."""
    out = {}
    for name, m in cls.members.items():
        if isinstance(m, (ast.Assign, ast.AnnAssign)) and isinstance(m.value, ast.Call):
            fn = m.value.func
            fname = fn.id if isinstance(fn, ast.Name) else getattr(fn, 'attr', '')
            if fname.endswith('Field'):
                val = None
                for kw in m.value.keywords:
                    if kw.arg == 'default':
                        # peewee keeps a non-callable default as ONE object and hands it to every instance (JSONField(default={})
                        # is the same dict for all orders): aliasing between records is part of the model
                        key = (cls.qual, name)
                        if key not in _SHARED_DEFAULTS:
                            _SHARED_DEFAULTS[key] = interp.eval(kw.value, Frame(cls.mod))
                        val = _SHARED_DEFAULTS[key]
                out[name] = val
    return out


class PeeweeModel:
    """stands for playhouse's Model: Model.__init__(self, attributes=..., **kw) installs the field defaults"""


def install_peewee(cfg_globals, modname):
    def factory(interp):
        def init(i, a, k):
            o = a[0]
            for n, v in peewee_defaults(i, o.cls).items():
                o.f.setdefault(n, v)
            return None
        return Obj(None, {'__init__': Builtin('Model.__init__', init)}, name='peewee.Model')
    cfg_globals[f'{modname}.Model'] = factory


def order_cls():
    return repo().find('jesse.models.Order.Order')


def mk_order(h, **fields):
    """an Order record in a given state, bypassing submission"""
    cls = order_cls()
    o = Obj(cls, name='order')
    o.f.update(peewee_defaults(h.interp, cls))
    o.f.update(fields)
    return o


class World:
    pass


def any_mode(h):
    """the margin mode is a finite enumeration: harnesses that do not depend on it prove their obligations for both values"""
    return 'cross' if h.branch(h.bool('is_cross')) else 'isolated'


def futures_world(h, symbols=('BTC-USDT',), leverage=None, mode='isolated', with_strategy=True, fee=None, prefix=''):
    """FuturesExchange + one Position per symbol with symbolic state."""
    r = repo()
    w = World()
    ctx = h.ctx
    L = leverage if leverage is not None else h.int(prefix + 'L', 1, 125)
    fee = fee if fee is not None else h.real(prefix + 'fee', Fraction(-1, 1000), Fraction(1, 100))      # a negative rate is a maker rebate
    ex = Obj(r.find('jesse.models.FuturesExchange.FuturesExchange'), name='exchange')
    ex.f.update(name='Sandbox', type='futures', fee_rate=fee, settlement_currency='USDT', futures_leverage=L,
                futures_leverage_mode=mode, assets={}, temp_reduced_amount={}, available_assets={}, starting_assets={},
                buy_orders={}, sell_orders={}, vars={}, starting_balance=Fraction(10000))
    ex.f['assets']['USDT'] = h.real(prefix + 'W')
    w.exchange = ex
    w.positions = {}
    w.L = L
    w.fee = fee
    w.hook_calls = []
    strat = Obj(None, {'leverage': L, 'name': 'S', 'timeframe': '1m', 'trades_count': 0,
                       '_on_updated_position': Builtin('_on_updated_position', lambda i, a, k: w.hook_calls.append(tuple(a)))},
                name='strategy') if with_strategy else None
    w.strategy = strat
    for s in symbols:
        base = s.split('-')[0]
        ex.f['assets'][base] = Fraction(0)
        ex.f['temp_reduced_amount'][base] = h.real(prefix + f'tra_{base}')
        ex.f['available_assets'][base] = h.real(prefix + f'avail_{base}')
        w.positions[s] = None
    ov = ctx.cfg.overrides
    ov['jesse.services.selectors.get_position'] = lambda i, a, k: w.positions.get(a[1])
    ov['jesse.services.selectors.get_exchange'] = lambda i, a, k: ex
    ov.setdefault('jesse.helpers.generate_unique_id', lambda i, a, k: Opaque('id'))
    for s in symbols:
        # built by the real Position.__init__, so that every field the class declares exists (also fields added later)
        try:
            p = h.interp.instantiate(r.find('jesse.models.Position.Position'), ['Sandbox', s], {})
            p.name = f'position[{s}]'
        except Exception:
            p = Obj(r.find('jesse.models.Position.Position'), name=f'position[{s}]')
        p.f.update(id=Opaque('id'), entry_price=None, exit_price=None, current_price=None, qty=0, previous_qty=0,
                   opened_at=None, closed_at=None, _mark_price=None, _funding_rate=None, _next_funding_timestamp=None,
                   _liquidation_price=None, exchange_name='Sandbox', exchange=ex, symbol=s, strategy=strat)
        w.positions[s] = p
    ov['jesse.helpers.now_to_timestamp'] = lambda i, a, k: Opaque('now')
    ov['jesse.helpers.now'] = lambda i, a, k: Opaque('now')
    return w


def open_position(h, p, side=None, name=''):
    """give position p a symbolic open state: qty != 0 (sign per side), entry > 0, current price > 0"""
    q = h.real(name + 'Q')
    if side == 'long':
        h.assume(ops.compare('>', q, 0))
    elif side == 'short':
        h.assume(ops.compare('<', q, 0))
    else:
        h.assume(ops.lnot(ops.equal(q, 0)))
    e = h.real(name + 'E')
    h.assume(ops.compare('>', e, 0))
    c = h.real(name + 'P')
    h.assume(ops.compare('>', c, 0))
    p.f.update(qty=q, entry_price=e, current_price=c)
    return q, e, c


def spot_world(h, symbol='BTC-USDT', fee=None, sums_present=True, with_strategy=False):
    """SpotExchange + Position with symbolic balances satisfying the cash-account invariant."""
    r = repo()
    w = World()
    fee = fee if fee is not None else h.real('fee', 0, Fraction(1, 100))
    base = symbol.split('-')[0]
    ex = Obj(r.find('jesse.models.SpotExchange.SpotExchange'), name='exchange')
    quote_bal = h.real('quote', 0)
    base_bal = h.real('base', 0)
    ex.f.update(name='Sandbox', type='spot', fee_rate=fee, settlement_currency='USDT', assets={'USDT': quote_bal, base: base_bal},
                temp_reduced_amount={base: Fraction(0), 'USDT': Fraction(0)}, available_assets={base: Fraction(0), 'USDT': Fraction(0)},
                starting_assets={base: Fraction(0), 'USDT': Fraction(10000)}, buy_orders={}, sell_orders={}, vars={},
                starting_balance=Fraction(10000), stop_orders_sum={}, limit_orders_sum={}, _started_balance=0)
    if sums_present:
        ex.f['stop_orders_sum'][symbol] = h.real('stop_sum', 0)
        ex.f['limit_orders_sum'][symbol] = h.real('limit_sum', 0)
    w.exchange = ex
    w.fee = fee
    w.symbol = symbol
    w.base = base
    strat = Obj(None, {'leverage': 1, 'name': 'S', 'timeframe': '1m', 'trades_count': 0}, name='strategy') if with_strategy else None
    p = Obj(r.find('jesse.models.Position.Position'), name=f'position[{symbol}]')
    p.f.update(id=Opaque('id'), entry_price=None, exit_price=None, current_price=None, qty=base_bal, previous_qty=0,
               opened_at=None, closed_at=None, _mark_price=None, _funding_rate=None, _next_funding_timestamp=None,
               _liquidation_price=None, exchange_name='Sandbox', exchange=ex, symbol=symbol, strategy=strat)
    w.position = p
    w.positions = {symbol: p}
    ov = h.ctx.cfg.overrides
    ov['jesse.services.selectors.get_position'] = lambda i, a, k: w.positions.get(a[1])
    ov['jesse.services.selectors.get_exchange'] = lambda i, a, k: ex
    ov['jesse.helpers.now_to_timestamp'] = lambda i, a, k: Opaque('now')
    return w


def trades_store(h, trace=None):
    """store stub: completed_trades / orders record calls in `trace` (call-trace ghost)"""
    trace = trace if trace is not None else []

    def rec(name):
        return Builtin(name, lambda i, a, k, name=name: trace.append((name, tuple(a))))
    ct = Obj(None, {'add_executed_order': rec('add_executed_order'), 'open_trade': rec('open_trade'),
                    'close_trade': rec('close_trade')}, name='store.completed_trades')
    app = Obj(None, {'time': Opaque('time'), 'total_liquidations': 0}, name='store.app')
    store = Obj(None, {'completed_trades': ct, 'app': app}, name='store')
    h.ctx.cfg.globals['jesse.store.store'] = lambda i: store
    return store, trace


def mk_table(h, name, cols=2):
    """a DynamicNumpyArray((10, cols)) in an arbitrary state satisfying the C18 representation invariant
    (used modularly: C18 proves every operation preserves it)"""
    cls = repo().find('jesse.libs.dynamic_numpy_array.DynamicNumpyArray')
    cap = h.int(name + '.cap', 1)
    idx = h.int(name + '.index', -1)
    h.assume(ops.compare('<=', ops.arith('+', idx, 1), cap))
    arr = h.ctx.fresh_arr(name + '.array', n=cap, np=True, cols=cols)
    return Obj(cls, {'index': idx, 'array': arr, 'bucket_size': 10, 'shape': (10, cols), 'drop_at': None}, name=name)


def frame_task(quals, tag='frame', allow=()):
    """mechanical frame condition for helper functions: the function reads no mutable module-level object and calls no memoised helper
    of its own module, so its result is a function of its arguments (and of what the functions it calls are contracted to read) -
    whatever was computed earlier in the same process"""
    import ast
    import builtins

    def t(h):
        bnames = set(dir(builtins))
        for qual in quals:
            f = h.repo.find(qual)
            node = f.node
            local = {a.arg for a in node.args.args + node.args.kwonlyargs + node.args.posonlyargs}
            for n in ast.walk(node):
                if isinstance(n, ast.Name) and isinstance(n.ctx, (ast.Store, ast.Del)):
                    local.add(n.id)
            bad = []
            if any(isinstance(n, (ast.Global, ast.Nonlocal)) for n in ast.walk(node)):
                bad.append('global statement')
            for n in ast.walk(node):
                if isinstance(n, ast.Name) and isinstance(n.ctx, ast.Load) and n.id not in local and n.id not in bnames and n.id not in allow:
                    ent = f.mod.top.get(n.id)
                    if isinstance(ent, ast.FunctionDef):
                        decs = [ast.unparse(d) for d in ent.decorator_list]
                        if any(('cache' in d or 'memo' in d) for d in decs):
                            bad.append(f'{n.id} (memoised: @{", @".join(decs)})')
                        continue
                    if isinstance(ent, ast.ClassDef) or (isinstance(ent, tuple) and ent[0] in ('import', 'from')):
                        continue
                    if isinstance(ent, (ast.Assign, ast.AnnAssign)) and isinstance(ent.value, ast.Constant):
                        continue
                    if ent is None:
                        continue
                    bad.append(n.id)
            h.prove(bad == [], f'{tag}.{qual.split(".")[-1]}.reads-no-mutable-module-level-state-and-calls-no-memoised-helper',
                    {'offending_names': sorted(set(bad))})
    return t
