"""C06 - position events and the trade log are a faithful record of the fills (function level + ledger lemma)."""
import json
import os
from fractions import Fraction
from pyvc.harness import Task, load_spec_module
from pyvc import ops, stubs
from pyvc.values import Obj, Sym, Arr, Vec, Opaque
from pyvc.interp import Builtin
from props import common
import contracts.C06 as K

PROPERTY = 'C06'
LEVEL = 'proof'
HERE = os.path.dirname(os.path.abspath(__file__))
SPEC = load_spec_module(os.path.join(HERE, '..', 'contracts', 'C06.py'), 'contracts.C06')
ST = 'jesse.strategies.Strategy.Strategy'
PO = 'jesse.models.Position.Position'
CT = 'jesse.store.state_completed_trades.ClosedTrades'
TR = 'jesse.models.ClosedTrade.ClosedTrade'
FUNCTIONS = ['jesse.models.ClosedTrade.ClosedTrade.to_dict', 'jesse.modes.backtest_mode._simulate_price_change_effect_multiple_candles', f'{ST}._on_updated_position', f'{ST}._terminate', f'{PO}._on_executed_order', f'{PO}._mutating_open',
             f'{PO}._mutating_close', f'{PO}._mutating_increase', f'{PO}._mutating_reduce', f'{CT}.open_trade', f'{CT}.close_trade',
             f'{CT}.add_executed_order', f'{CT}.add_order_record_only', f'{TR}.qty', f'{TR}.entry_price', f'{TR}.exit_price',
             f'{TR}.pnl', f'{TR}.size', 'jesse.models.Order.Order.execute', 'jesse.helpers.estimate_PNL']
ASSUMPTIONS = [
    'A-1 reals; A-2; A-6 backtest mode; A-7 records; finite-sum axioms for the trade tables',
    'the exchange-side margin tables (on_order_execution) are decided under C03 and stubbed here',
    'A-9 "every cycle produces exactly one closed trade for every strategy" as a statement about whole runs is not decided; the '
    'per-fill ledger invariant and the per-call hook dispatch are',
]
TRUSTED = ['numpy.sum finite-sum axioms', 'list.append']
EXPLANATION = 'effect classification; one hook per effect; trade formulas; inductive wallet/trade-log ledger invariant per fill kind'
MANIFEST = {
    'category': 'proof',
    'text': 'Strategy._on_updated_position is proved to classify every (before, after) size pair as open / close / increase / reduce '
            'and to call exactly the matching handler once. Position._on_executed_order is proved to dispatch one hook per elementary '
            'effect (call-trace ghost). Through Order.execute with the real ClosedTrades / ClosedTrade / Position / FuturesExchange code '
            'a ledger invariant is proved for every fill kind of a long and of a short cycle: wallet change = -fees + exit proceeds - '
            'entry cost + remaining cost basis, position size = entry qty - exit qty; at the closing fill the closed trade is appended '
            'once and its pnl (quantity-weighted entry/exit, fees) equals the wallet change of the cycle. Strategy._terminate force-closes '
            'an open position with exactly one reduce-only order for the whole size.',
    'note': 'recorded findings (proved outside these cases, witnesses replayed): a flip dispatches one hook for two effects and logs the '
            'whole fill in the closing trade; an oversize reduce-only close charges the fee and logs the exit on the order quantity.',
}
FINDINGS = set(json.loads(os.environ.get('PYVC_FINDINGS', '[]')))


def t_classify(h):
    w = common.futures_world(h, mode='cross')
    pos = w.positions['BTC-USDT']
    before, after = h.real('before'), h.real('after')
    h.assume(ops.lnot(ops.equal(before, after)))
    pos.f['previous_qty'] = before
    pos.f['qty'] = after
    pos.f['entry_price'] = h.real('E', 0)
    pos.f['current_price'] = h.real('P', 0)
    cls = h.repo.find(ST)
    s = Obj(cls, {'position': pos, 'symbol': 'BTC-USDT', 'exchange': 'Sandbox', '_is_handling_updated_order': False}, name='strategy')
    calls = []
    for m in K.HOOK.values():
        h.ctx.cfg.overrides[f'{ST}.{m}'] = (lambda i, a, k, m=m: calls.append(m))
    h.ctx.cfg.overrides[f'{ST}._handle_executed_order_for_chart'] = lambda i, a, k: None
    out = h.method_outcome(s, '_on_updated_position', Obj(None, {}, name='order'))
    h.prove(out.ok, 'classify.no-exception', {'raised': out.exc})
    if not out.ok:
        return
    want = h.spec('effect', before, after)
    h.prove(calls == [K.HOOK[want]], 'classify.exactly-the-matching-hook-once', {'called': calls, 'effect': want})
    h.prove(s.f['_is_handling_updated_order'] is False, 'classify.handling-flag-cleared')
    if want == 'open':
        h.prove(calls == ['_on_close_position'], 'classify.mustfail')


def cycle_world(h, ptype, is_open):
    """futures account + real trade log with the current (open) trade in an arbitrary state satisfying the ledger invariant"""
    w = common.futures_world(h, mode='cross')
    pos = w.positions['BTC-USDT']
    r = h.repo
    trade = Obj(r.find(TR), name='trade')
    lib = h.interp.lib
    lib._peewee_model_init(h.interp, [trade], {})
    if is_open:
        trade.f.update(id='t0', buy_orders=common.mk_table(h, 'trade.buy'), sell_orders=common.mk_table(h, 'trade.sell'), orders=[],
                       opened_at=Opaque('opened'), type=ptype, exchange='Sandbox', symbol='BTC-USDT', leverage=w.L,
                       timeframe='1m', strategy_name='S')
    else:
        dna = r.find('jesse.libs.dynamic_numpy_array.DynamicNumpyArray')
        trade.f.update(id=None, buy_orders=h.interp.instantiate(dna, [(10, 2)], {}), sell_orders=h.interp.instantiate(dna, [(10, 2)], {}),
                       orders=[])
    ct = Obj(r.find(CT), {'trades': [], 'tempt_trades': {'Sandbox-BTC-USDT': trade}}, name='completed_trades')
    app = Obj(None, {'time': Opaque('t')})
    store = Obj(None, {'completed_trades': ct, 'app': app}, name='store')
    for m in ('jesse.store.store', 'jesse.models.Position.store', 'jesse.models.Order.store'):
        h.ctx.cfg.globals[m] = lambda i: store
    h.ctx.cfg.globals['jesse.models.ClosedTrade.config'] = lambda i: {'env': {'exchanges': {'Sandbox': {'fee': w.fee}}}}
    ov = h.ctx.cfg.overrides
    ov['jesse.models.FuturesExchange.FuturesExchange.on_order_execution'] = lambda i, a, k: None     # C03
    ov['jesse.helpers.generate_unique_id'] = lambda i, a, k: 'fresh-id'
    ov['jesse.models.utils.store_completed_trade_into_db'] = lambda i, a, k: None
    return w, pos, trade, ct


def t_ledger(ptype, case):
    """case: open | fill (any fill on an open position: increase / reduce / close / oversize / flip)"""
    def t(h):
        s = K.sign(ptype)
        w, pos, trade, ct = cycle_world(h, ptype, case != 'open')
        W0 = h.real('W0')
        W = w.exchange.f['assets']['USDT']
        fee = w.fee
        q, p = h.real('q'), h.real('p')
        h.assume(ops.lnot(ops.equal(q, 0)))
        h.assume(ops.compare('>', p, 0))
        ro = False
        if case == 'open':
            h.assume(ops.equal(W, W0))
            h.assume(ops.compare('>', ops.arith('*', q, s), 0))
            Q, E = 0, None
        else:
            Q, E, _ = common.open_position(h, pos, ptype)
            ro = h.bool('reduce_only')
            # reduce-only orders are exits
            h.assume(ops.implies(ro, ops.compare('<', ops.arith('*', q, Q), 0)))
            C = h.spec('notional', h.spec('entry_table', trade))
            X = h.spec('notional', h.spec('exit_table', trade))
            eq = h.spec('col_sum', h.spec('entry_table', trade), 0)
            xq = h.spec('col_sum', h.spec('exit_table', trade), 0)
            h.assume(h.spec('ledger', W, W0, fee, C, X, Q, E, s))
            h.assume(h.spec('size_consistent', Q, eq, xq, s))
            h.assume(ops.land(ops.compare('>', eq, 0), ops.compare('>=', xq, 0)))      # quantities in the log are positive
        side = 'buy' if True else 'sell'
        o = common.mk_order(h, side='buy', type='LIMIT', qty=q, price=p, symbol='BTC-USDT', exchange='Sandbox', reduce_only=ro,
                            status='ACTIVE', id='o1')
        if h.branch(ops.compare('<', q, 0)):
            o.f['side'] = 'sell'
        excl = False
        if case != 'open':
            if 'C06-flip-logs-whole-fill-in-closing-trade' in FINDINGS:
                excl = ops.lor(excl, h.spec('flip', Q, q, ro))
            if 'C06-oversize-reduce-only-fee-and-exit-qty' in FINDINGS:
                excl = ops.lor(excl, h.spec('oversize_reduce_only', Q, q, ro))
        h.cover(f'ledger.{case}.pre')
        out = h.method_outcome(o, 'execute')
        name = f'ledger.{ptype}.{case}'
        h.prove(out.ok, f'{name}.no-exception', {'raised': out.exc})
        if not out.ok:
            return
        W2 = w.exchange.f['assets']['USDT']
        Q2, E2 = pos.f['qty'], pos.f['entry_price']
        closed_now = ops.equal(Q2, 0)
        if h.branch(closed_now):
            if case == 'open':
                h.prove(False, f'{name}.opening-fill-opens')
                return
            # the cycle ended: exactly one closed trade, whose pnl is the wallet change of the cycle
            ok = len(ct.f['trades']) == 1 and ct.f['trades'][0] is trade
            h.prove(ops.lor(excl, ok), f'{name}.closing-fill-appends-exactly-one-closed-trade')
            if ok:
                pnl = h.attr(trade, 'pnl')
                h.prove(ops.lor(excl, ops.equal(pnl, ops.arith('-', W2, W0))), f'{name}.closed-trade-pnl-equals-wallet-change',
                        {'clause': 'trade.pnl == W - W0'})
                h.prove(ops.lor(excl, ops.equal(h.attr(trade, 'qty'), h.spec('col_sum', h.spec('exit_table', trade), 0))),
                        f'{name}.closed-trade-entry-qty-equals-exit-qty')
                h.prove(w.strategy.f['trades_count'] == 1 or ops.equal(w.strategy.f['trades_count'], 1) is True,
                        f'{name}.trade-counted-once')
            h.prove(len(w.hook_calls) == 1, f'{name}.one-hook-dispatch')
            return
        # still open: the ledger invariant is preserved, on the trade that is current now
        cur = ct.f['tempt_trades']['Sandbox-BTC-USDT']
        s2 = s
        C2 = h.spec('notional', h.spec('entry_table', cur)) if cur.f.get('type') else 0
        X2 = h.spec('notional', h.spec('exit_table', cur)) if cur.f.get('type') else 0
        eq2 = h.spec('col_sum', h.spec('entry_table', cur), 0) if cur.f.get('type') else 0
        xq2 = h.spec('col_sum', h.spec('exit_table', cur), 0) if cur.f.get('type') else 0
        same_cycle = cur is trade and len(ct.f['trades']) == 0
        h.prove(ops.lor(excl, same_cycle), f'{name}.still-the-same-cycle', {'trades': len(ct.f['trades'])})
        h.prove(ops.lor(excl, h.spec('ledger', W2, W0, fee, C2, X2, Q2, E2 if E2 is not None else 0, s2)),
                f'{name}.ledger-invariant-preserved', {'clause': 'W - W0 == -fee*(C+X) + s*(X-C) + |Q|*E*s'})
        h.prove(ops.lor(excl, h.spec('size_consistent', Q2, eq2, xq2, s2)), f'{name}.size-equals-entry-minus-exit-qty')
        h.prove(ops.lor(excl, len(w.hook_calls) == 1), f'{name}.one-hook-dispatch')
    return t


def t_dispatch(ptype, only_listing=False):
    """one strategy hook per elementary position effect (call-trace ghost over the _mutating_* helpers)"""
    def t(h):
        w, pos, trade, ct = cycle_world(h, ptype, True)
        Q, E, _ = common.open_position(h, pos, ptype)
        q, p = h.real('q'), h.real('p')
        h.assume(ops.lnot(ops.equal(q, 0)))
        h.assume(ops.compare('>', p, 0))
        ro = h.bool('reduce_only')
        h.assume(ops.implies(ro, ops.compare('<', ops.arith('*', q, Q), 0)))
        o = common.mk_order(h, side='buy', type='LIMIT', qty=q, price=p, symbol='BTC-USDT', exchange='Sandbox', reduce_only=ro,
                            status='EXECUTED', id='o1')
        excl = False
        if 'C06-flip-dispatches-one-hook-for-two-effects' in FINDINGS:
            excl = h.spec('flip', Q, q, ro)
        h.ctx.cfg.extra['trace'] = {f'{PO}._mutating_open', f'{PO}._mutating_close', f'{PO}._mutating_increase', f'{PO}._mutating_reduce'}
        out = h.method_outcome(pos, '_on_executed_order', o)
        h.prove(out.ok, 'dispatch.no-exception', {'raised': out.exc})
        if not out.ok:
            return
        effects = [t_[0].split('.')[-1] for t_ in h.ctx.trace if isinstance(t_[0], str) and '_mutating_' in t_[0]]
        ok = len(w.hook_calls) == len(effects) or (len(effects) == 0 and len(w.hook_calls) == 1)
        if not only_listing:
            h.prove(ops.lor(excl, ok), 'dispatch.one-hook-per-elementary-effect', {'effects': effects, 'hooks': len(w.hook_calls)})
        # the order is recorded in its trade by Order.execute (C05: exactly once); the position bookkeeping never lists it itself
        listed = 0
        for tr in list(ct.f['trades']) + list(ct.f['tempt_trades'].values()):
            if isinstance(tr, Obj):
                listed += sum(1 for x in tr.f.get('orders', []) if x is o)
        h.prove(listed == 0, 'dispatch.the-position-never-lists-the-order-in-a-trade-itself', {'listed': listed})
    return t


def t_trade_fields(ptype):
    def t(h):
        r = h.repo
        trade = Obj(r.find(TR), name='trade')
        fee = h.real('fee', 0)
        h.ctx.cfg.globals['jesse.models.ClosedTrade.config'] = lambda i: {'env': {'exchanges': {'Sandbox': {'fee': fee}}}}
        trade.f.update(id='t0', buy_orders=common.mk_table(h, 'buy'), sell_orders=common.mk_table(h, 'sell'), orders=[],
                       opened_at=Opaque('o'), closed_at=Opaque('c'), type=ptype, exchange='Sandbox', symbol='BTC-USDT', leverage=2)
        ent, ext = h.spec('entry_table', trade), h.spec('exit_table', trade)
        eq, xq = h.spec('col_sum', ent, 0), h.spec('col_sum', ext, 0)
        h.assume(ops.compare('>', eq, 0))
        h.assume(ops.compare('>', xq, 0))
        h.assume(ops.compare('>', h.spec('notional', ent), 0))          # prices are positive
        qty = h.attr(trade, 'qty')
        h.prove(ops.equal(qty, eq), f'trade.{ptype}.qty-is-the-entry-side-quantity')
        h.prove(ops.equal(h.attr(trade, 'entry_price'), ops.arith('/', h.spec('notional', ent), eq)),
                f'trade.{ptype}.entry-price-is-quantity-weighted')
        h.prove(ops.equal(h.attr(trade, 'exit_price'), ops.arith('/', h.spec('notional', ext), xq)),
                f'trade.{ptype}.exit-price-is-quantity-weighted')
        want = h.call('jesse.helpers.estimate_PNL', qty, h.attr(trade, 'entry_price'), h.attr(trade, 'exit_price'), ptype, fee)
        h.prove(ops.equal(h.attr(trade, 'pnl'), want), f'trade.{ptype}.pnl-is-profit-minus-fees')
        # the record handed to the metrics (ClosedTrade.to_dict) carries exactly the trade's own numbers - no rounding, no
        # recomputation: sum(PNL) over the records is the wallet change (C16 takes the records as given)
        trade.f['strategy_name'] = 'S'
        t_open = h.real('opened_at', 0)
        t_close = h.real('closed_at', 0)
        h.assume(ops.compare('>=', t_close, t_open))
        trade.f['opened_at'], trade.f['closed_at'] = t_open, t_close
        h.ctx.cfg.overrides['jesse.helpers.get_class_name'] = lambda i, a, k: 'S'
        h.ctx.cfg.overrides['jesse.helpers.get_config'] = lambda i, a, k: fee
        d = h.attr(trade, 'to_dict')
        ok = isinstance(d, dict)
        h.prove(ok, f'trade.{ptype}.to_dict-is-a-dict')
        if ok:
            same = True
            for key, attr in (('PNL', 'pnl'), ('fee', 'fee'), ('size', 'size'), ('PNL_percentage', 'pnl_percentage'), ('qty', 'qty'),
                              ('entry_price', 'entry_price'), ('exit_price', 'exit_price')):
                same = ops.land(same, (key in d) and ops.equal(d[key], h.attr(trade, attr)))
            h.prove(same, f'trade.{ptype}.to_dict-reports-the-trade-numbers-unchanged')
            h.prove(ops.land(d.get('type') == ptype, ops.land(ops.equal(d.get('opened_at'), t_open), ops.land(ops.equal(d.get('closed_at'), t_close),
                    ops.equal(d.get('holding_period'), ops.arith('/', ops.arith('-', t_close, t_open), 1000))))),
                    f'trade.{ptype}.to_dict-reports-type-timestamps-and-holding-period-unchanged')
    return t


def t_terminate(kind):
    def t(h):
        w = common.futures_world(h, mode='cross') if kind == 'futures' else common.spot_world(h, with_strategy=True)
        pos = w.positions['BTC-USDT']
        if kind == 'futures':
            common.open_position(h, pos, None)
        else:
            h.assume(ops.compare('>', pos.f['qty'], 0))
            pos.f['entry_price'] = h.real('E', 0)
            pos.f['current_price'] = h.real('P', 0)
        cur = h.real('cur', 0)
        calls = []
        api = Obj(None, {})
        broker = Obj(None, {'reduce_position_at': Builtin('reduce_position_at', lambda i, a, k: calls.append(('reduce', tuple(a)))),
                            'cancel_all_orders': Builtin('cancel_all_orders', lambda i, a, k: calls.append(('cancel_all', ())))})
        s = Obj(h.repo.find(ST), {'position': pos, 'broker': broker, 'symbol': 'BTC-USDT', 'exchange': 'Sandbox', 'timeframe': '1m',
                                  '_is_executing': True, '_cached_price': cur}, name='strategy')
        app = Obj(None, {'total_open_trades': 0, 'total_open_pl': Fraction(0)})
        orders = Obj(None, {'execute_pending_market_orders': Builtin('flush', lambda i, a, k: calls.append(('flush', ())))})
        store = Obj(None, {'app': app, 'orders': orders})
        h.ctx.cfg.globals['jesse.strategies.Strategy.store'] = lambda i: store
        ov = h.ctx.cfg.overrides
        ov[f'{ST}._detect_and_handle_entry_and_exit_modifications'] = lambda i, a, k: calls.append(('modifications', ()))
        out = h.method_outcome(s, '_terminate')
        h.prove(out.ok, f'terminate.{kind}.no-exception', {'raised': out.exc})
        if not out.ok:
            return
        red = [c for c in calls if c[0] == 'reduce']
        h.prove(len(red) == 1, f'terminate.{kind}.open-position-closed-by-exactly-one-order', {'calls': [c[0] for c in calls]})
        if len(red) == 1:
            a = red[0][1]
            h.prove(ops.land(ops.equal(a[0], pos.f['qty']), ops.equal(a[1], pos.f['current_price'])),
                    f'terminate.{kind}.for-the-whole-size-at-the-current-price')
        if kind == 'spot':
            names = [c[0] for c in calls]
            h.prove('cancel_all' in names and names.index('cancel_all') < names.index('reduce'),
                    'terminate.spot.cancels-resting-orders-first')
        h.prove(app.f['total_open_trades'] == 1, f'terminate.{kind}.counted-as-open-trade')
    return t


def t_float_boundary(h):
    """BOUNDED, native: A-1 (floats as reals) is probed where a decimal sum decides the kind of a fill (native/C06.py: bounded)"""
    from pyvc import report as R
    here = os.path.dirname(os.path.dirname(os.path.abspath(__file__)))
    res = R.native([os.path.join(here, 'native', 'run.py'), 'C06'], {'bounded': 'decimal-grid'})
    if res.get('error'):
        raise RuntimeError(f'bounded native check failed to run: {res}')
    h.cover('float.pre')
    h.prove(not res.get('confirmed'), 'float.exit-for-the-decimal-total-closes-the-position', {'detail': res.get('detail'), 'cases': res.get('cases')})


def tasks(tier):
    x = dict(spec_mod=SPEC)
    ov = stubs.backtest_mode()
    ts = [Task('classify', t_classify, extra=x, overrides=dict(ov))]
    for pt in ('long', 'short'):
        # nonlinear identities: a generous per-query budget (an idle machine needs about 2 s; verdicts must not flip under load)
        # products of symbolic prices and quantities: every solver call of these tasks runs in a forked child with a hard deadline, and
        # proofs race four seeds (with VERIF_SEED=1 z3's nonlinear procedure never returned on one path and ignored its timeout)
        xl = dict(x, fork_solver=True)
        ts.append(Task(f'ledger.{pt}.open', t_ledger(pt, 'open'), extra=dict(xl), overrides=dict(ov), prove_timeout_ms=120000))
        ts.append(Task(f'ledger.{pt}.fill', t_ledger(pt, 'fill'), extra=dict(xl), overrides=dict(ov), prove_timeout_ms=120000))
        ts.append(Task(f'dispatch.{pt}', t_dispatch(pt), extra=dict(x), overrides=dict(ov)))
        ts.append(Task(f'trade.{pt}', t_trade_fields(pt), extra=dict(x), overrides=dict(ov)))
    for kind in ('futures', 'spot'):
        ts.append(Task(f'terminate.{kind}', t_terminate(kind), extra=dict(x), overrides=dict(ov)))
    # trade timestamps are the clock at the fill: in fast mode the clock must be the end of the minute that reached the price
    import props.C01 as P1
    import props.C02 as P2
    ts.append(Task('float-boundary', t_float_boundary, extra=dict(x, bounded='98 decimal histories on the grid 0.05..2.2 (native, binary floats)')))
    ts.append(Task('fill-clock.chunk', P1.t_chunk_clock, extra=dict(x, spec_mod=P2.SPEC), overrides=dict(ov)))
    # the rows of the trade log are written by ClosedTrades.add_executed_order: the order's own quantity and price, for every order
    # type (shared with C05)
    import props.C05 as P5
    ts += [t for t in P5.tasks(tier) if t.id.startswith('trade-record.')]
    # every cycle ends with its close: the order a terminating strategy submits is flushed at once in both simulators (shared with C16)
    import props.C16 as P16
    # the trade log uses the fee / leverage of THIS session: no memo or other module-level state written on the session path outside the
    # inventory (shared with C11; the engine treats decorators such as lru_cache as transparent, so they are accounted for syntactically)
    import props.C11 as P11
    ts.append(Task('module-state', P11.t_module_state, extra=dict(spec_mod=P11.SPEC)))
    for s_ in ('_step_simulator', '_skip_simulator'):
        ts.append(Task(f'sampling.{s_}', P16.t_sampling(s_), extra=dict(spec_mod=P16.SPEC), overrides=dict(ov), invariants={}))
    return ts
