"""C03 - the futures account always equals an average-cost margin account model (P-HIST, per operation)."""
import os
from fractions import Fraction
from pyvc.harness import Task, load_spec_module
from pyvc import ops, stubs
from pyvc.values import Obj, Sym, Arr, Vec
from props import common
import contracts.C03 as K

PROPERTY = 'C03'
LEVEL = 'proof'
HERE = os.path.dirname(os.path.abspath(__file__))
SPEC = load_spec_module(os.path.join(HERE, '..', 'contracts', 'C03.py'), 'contracts.C03')
EX = 'jesse.models.FuturesExchange.FuturesExchange'
PO = 'jesse.models.Position.Position'
FUNCTIONS = [f'{EX}.available_margin', f'{EX}.wallet_balance', f'{EX}.charge_fee', f'{EX}.add_realized_pnl',
             f'{EX}.on_order_submission', f'{EX}.on_order_execution', f'{EX}.on_order_cancellation',
             'jesse.models.FuturesExchange.find_order_index', f'{PO}._on_executed_order', f'{PO}._mutating_open',
             f'{PO}._mutating_close', f'{PO}._mutating_increase', f'{PO}._mutating_reduce', f'{PO}._update_qty', f'{PO}.pnl',
             f'{PO}.value', f'{PO}.total_cost', f'{PO}.type', f'{PO}.is_open', f'{PO}.is_close', f'{PO}.leverage',
             'jesse.helpers.estimate_average_price', 'jesse.helpers.estimate_PNL', 'jesse.helpers.base_asset',
             'jesse.libs.dynamic_numpy_array.DynamicNumpyArray.__getitem__', 'jesse.libs.dynamic_numpy_array.DynamicNumpyArray.append',
             'jesse.libs.dynamic_numpy_array.DynamicNumpyArray.delete']
ASSUMPTIONS = [
    'A-1 floats are reals (the statement\'s "exactly" is proved for exact arithmetic); A-2 sum_floats exact',
    'A-4 find_order_index (@njit) executes its Python semantics; A-6 backtest mode; A-7 Order is a record',
    'P-HIST: every operation is proved from an arbitrary state (symbolic wallet, positions, order tables satisfying the C18 invariant)',
    'legality: reduce-only orders only against an open position; an executed/cancelled non-reduce-only order has its row in its table; '
    'qty != 0, price > 0; the position has its strategy attached (leverage)',
    'finite sums are axiomatised (split, single element, congruence) - see trusted_base',
]
TRUSTED = ['numpy.where(mask) first-match axioms', 'numpy.sum finite-sum axioms', 'numpy.all(axis=1)', 'numpy.array']
EXPLANATION = 'per-operation refinement of (W, Q, E, resting-order sums, available margin) against the margin-account model'
MANIFEST = {
    'category': 'proof',
    'text': 'FuturesExchange.available_margin / on_order_submission / on_order_execution / on_order_cancellation and '
            'Position._on_executed_order (with charge_fee, add_realized_pnl, the _mutating_* helpers, estimate_average_price, '
            'estimate_PNL) are executed symbolically from an arbitrary account state and proved equal to the model step: fee on every '
            'fill, open / increase (average cost) / reduce / close / flip, reduce-only never increases or flips, available margin '
            'formula over one and two symbols sharing the wallet, InsufficientMargin raised iff notional/leverage exceeds the '
            'available margin, and submit-then-cancel restores the available margin exactly.',
    'note': 'A-1 (real arithmetic), finite-sum axioms for the order tables, C18 contracts for the tables; by induction over the '
            'history the refinement holds after every legal operation sequence.',
}


def sym_state(h, w, symbols):
    """(Q, E, P, Sb, Ss) per symbol read off the real objects through the abstraction function"""
    out = []
    for s in symbols:
        base = s.split('-')[0]
        p = w.positions[s]
        out.append((p.f['qty'], p.f['entry_price'], p.f['current_price'],
                    h.spec('table_sum', w.exchange.f['buy_orders'][base]), h.spec('table_sum', w.exchange.f['sell_orders'][base])))
    return out


def world(h, symbols, open_mask):
    # the margin mode is a finite enumeration: every obligation is proved for cross and for isolated margin
    mode = 'cross' if h.branch(h.bool('is_cross')) else 'isolated'
    w = common.futures_world(h, symbols=symbols, mode=mode)
    for s, is_open in zip(symbols, open_mask):
        base = s.split('-')[0]
        w.exchange.f['buy_orders'][base] = common.mk_table(h, f'buy[{base}]')
        w.exchange.f['sell_orders'][base] = common.mk_table(h, f'sell[{base}]')
        if is_open:
            common.open_position(h, w.positions[s], None, name=base + '.')
        else:
            w.positions[s].f['current_price'] = h.real(base + '.P', 0)
    return w


def t_avail(symbols, open_mask):
    def t(h):
        w = world(h, symbols, open_mask)
        st = sym_state(h, w, symbols)
        W = w.exchange.f['assets']['USDT']
        h.cover('avail.pre')
        want = h.spec('avail', W, w.L, st)
        got = h.attr(w.exchange, 'available_margin')
        h.prove(ops.equal(got, want), 'available_margin.equals-model-formula')
        if len(symbols) == 1 and open_mask[0]:
            h.prove(h.ev(K.MUSTFAIL, a=got, W=W), 'available_margin.mustfail')
    return t


def mk_order(h, side, q, p, ro, symbol='BTC-USDT', kind=None):
    if kind is None:
        # the order type is a finite enumeration: every obligation is proved for LIMIT, STOP and (pending) MARKET orders
        kind = 'LIMIT' if h.branch(h.bool('is_limit')) else ('STOP' if h.branch(h.bool('is_stop')) else 'MARKET')
    return common.mk_order(h, side=side, type=kind, qty=q, price=p, symbol=symbol, exchange='Sandbox', reduce_only=ro,
                           status='ACTIVE')


def order_vars(h, side):
    q = h.real('q')
    h.assume(ops.compare('>', q, 0) if side == 'buy' else ops.compare('<', q, 0))
    p = h.real('p')
    h.assume(ops.compare('>', p, 0))
    return q, p


def t_init(kind):
    """the account built by the real __init__: one fresh reservation table per side and asset (the refinement proofs above start from
    tables that are distinct objects - here that is a proved fact of the constructor, not an assumption), balances at the starting
    balance, nothing reserved"""
    def t(h):
        routes = [Obj(None, {'symbol': 'BTC-USDT'}), Obj(None, {'symbol': 'ETH-USDT'})]
        h.ctx.cfg.overrides['jesse.services.selectors.get_all_trading_routes'] = lambda i, a, k: routes
        h.ctx.cfg.globals['jesse.models.Exchange.exchange_info'] = lambda i: {}
        bal = h.real('balance', 0)
        if kind == 'futures':
            cls = h.repo.find('jesse.models.FuturesExchange.FuturesExchange')
            out_ex = h.interp.instantiate(cls, ['Sandbox', bal, h.real('fee', 0), 'cross', h.int('L', 1)], {})
        else:
            cls = h.repo.find('jesse.models.SpotExchange.SpotExchange')
            out_ex = h.interp.instantiate(cls, ['Sandbox', bal, h.real('fee', 0)], {})
        ex = out_ex
        tabs = [ex.f['buy_orders'].get('BTC'), ex.f['sell_orders'].get('BTC'), ex.f['buy_orders'].get('ETH'), ex.f['sell_orders'].get('ETH')]
        ok = all(isinstance(t_, Obj) for t_ in tabs) and len({id(t_) for t_ in tabs}) == 4
        ok = ok and len({id(t_.f['array']) for t_ in tabs}) == 4
        h.prove(ok, f'init.{kind}.one-fresh-reservation-table-per-side-and-asset')
        if ok:
            h.prove(all(ops.equal(t_.f['index'], -1) is True for t_ in tabs), f'init.{kind}.nothing-is-reserved-at-the-start')
        dicts = [ex.f[k] for k in ('assets', 'available_assets', 'starting_assets', 'temp_reduced_amount', 'buy_orders', 'sell_orders')]
        h.prove(len({id(d) for d in dicts}) == len(dicts), f'init.{kind}.every-balance-table-is-its-own-object')
        h.prove(ops.equal(ex.f['assets']['USDT'], bal) is True and ops.equal(ex.f['assets']['BTC'], 0) is True,
                f'init.{kind}.balances-start-at-the-starting-balance')
    return t


def t_submit(side, ro, is_open):
    def t(h):
        symbols = ['BTC-USDT', 'ETH-USDT']
        w = world(h, symbols, [is_open, False])
        q, p = order_vars(h, side)
        st = sym_state(h, w, symbols)
        W = w.exchange.f['assets']['USDT']
        a0 = h.spec('avail', W, w.L, st)
        o = mk_order(h, side, q, p, ro)
        h.cover('submit.pre')
        need = ops.arith('/', ops.absval(ops.arith('*', q, p)), w.L)
        reject = False if ro else ops.compare('>', need, a0)
        out = h.method_outcome(w.exchange, 'on_order_submission', o)
        name = f'submit.{side}.{"ro" if ro else "open"}'
        if h.branch(reject):
            h.prove((not out.ok) and out.exc == 'InsufficientMargin', f'{name}.rejected-iff-notional-over-leverage-exceeds-available-margin',
                    {'got': 'accepted' if out.ok else out.exc})
            # a rejected order reserves nothing: the account is as before the attempt (the caller may catch the error and go on)
            st2 = sym_state(h, w, symbols)
            same = ops.equal(w.exchange.f['assets']['USDT'], W)
            for k in range(len(symbols)):
                same = ops.land(same, ops.land(ops.equal(st2[k][3], st[k][3]), ops.equal(st2[k][4], st[k][4])))
            h.prove(ops.land(same, ops.equal(h.spec('avail', w.exchange.f['assets']['USDT'], w.L, st2), a0)),
                    f'{name}.a-rejected-order-leaves-the-account-unchanged')
            return
        h.prove(out.ok, f'{name}.accepted-otherwise', {'raised': out.exc})
        if not out.ok:
            return
        st2 = sym_state(h, w, symbols)
        dq = ops.arith('*', q, p)
        want_sb = st[0][3] if (ro or side != 'buy') else ops.arith('+', st[0][3], dq)
        want_ss = st[0][4] if (ro or side != 'sell') else ops.arith('+', st[0][4], dq)
        h.prove(ops.land(ops.equal(st2[0][3], want_sb), ops.equal(st2[0][4], want_ss)), f'{name}.reserves-its-notional-only')
        h.prove(ops.land(ops.equal(st2[1][3], st[1][3]), ops.equal(st2[1][4], st[1][4])), f'{name}.other-symbol-untouched')
        h.prove(ops.equal(w.exchange.f['assets']['USDT'], W), f'{name}.wallet-untouched')
    return t


def _row_in_table(h, tbl, q, p):
    j = h.int('row')
    h.assume(ops.land(ops.compare('>=', j, 0), ops.compare('<=', j, tbl.f['index'])))
    row = tbl.f['array'].fn(j)
    h.assume(ops.land(ops.equal(row.e[0], q), ops.equal(row.e[1], p)))


def t_release(kind, side, ro):
    """execution / cancellation releases exactly the order's reservation"""
    def t(h):
        symbols = ['BTC-USDT']
        w = world(h, symbols, [True])
        q, p = order_vars(h, side)
        tbl = w.exchange.f['buy_orders' if side == 'buy' else 'sell_orders']['BTC']
        if not ro:
            _row_in_table(h, tbl, q, p)
        st = sym_state(h, w, symbols)
        W = w.exchange.f['assets']['USDT']
        o = mk_order(h, side, q, p, ro)
        h.cover(f'{kind}.pre')
        out = h.method_outcome(w.exchange, 'on_order_execution' if kind == 'execute' else 'on_order_cancellation', o)
        name = f'{kind}.{side}.{"ro" if ro else "open"}'
        h.prove(out.ok, f'{name}.no-exception', {'raised': out.exc})
        if not out.ok:
            return
        st2 = sym_state(h, w, symbols)
        dq = ops.arith('*', q, p)
        want_sb = st[0][3] if (ro or side != 'buy') else ops.arith('-', st[0][3], dq)
        want_ss = st[0][4] if (ro or side != 'sell') else ops.arith('-', st[0][4], dq)
        h.prove(ops.land(ops.equal(st2[0][3], want_sb), ops.equal(st2[0][4], want_ss)), f'{name}.releases-its-notional-only')
        h.prove(ops.equal(w.exchange.f['assets']['USDT'], W), f'{name}.wallet-untouched')
    return t


def t_cancel_after_submit(side):
    def t(h):
        symbols = ['BTC-USDT']
        w = world(h, symbols, [True])
        common.trades_store(h)
        q, p = order_vars(h, side)
        a0 = h.attr(w.exchange, 'available_margin')
        cls = common.order_cls()
        common.install_peewee(h.ctx.cfg.globals, 'jesse.models.Order')
        h.cover('cancel-after-submit.pre')
        out = h.outcome(cls, {'id': 'x', 'symbol': 'BTC-USDT', 'exchange': 'Sandbox', 'side': side, 'type': 'LIMIT',
                              'reduce_only': False, 'qty': q, 'price': p, 'created_at': 0})
        if not out.ok:
            h.prove(out.exc == 'InsufficientMargin', 'cancel-after-submit.only-margin-rejections', {'raised': out.exc})
            return
        o = out.value
        a1 = h.attr(w.exchange, 'available_margin')
        out2 = h.method_outcome(o, 'cancel')
        h.prove(out2.ok, 'cancel-after-submit.no-exception', {'raised': out2.exc})
        if out2.ok:
            a2 = h.attr(w.exchange, 'available_margin')
            h.prove(ops.equal(a2, a0), 'cancel-after-submit.restores-available-margin-exactly')
    return t


def _match(row, target):
    return ops.land(ops.equal(row.e[0], target.e[0]), ops.equal(row.e[1], target.e[1]))


def find_contract(interp, args, kwargs):
    """contract of find_order_index (proved for the real body by task `find_order_index`): the first row equal to the
    target, or -1 when there is none"""
    import z3
    from pyvc.values import z3num, z3bool
    orders, target = args
    ctx = interp.ctx
    r = ctx.fresh_int('found')
    q = ops.fresh_qvar('f')
    mq = z3bool(_match(orders.fn(Sym(q, 'int')), target))
    n = z3num(orders.n)
    none = z3.And(r.t == -1, z3.ForAll([q], z3.Implies(z3.And(q >= 0, q < n), z3.Not(mq))))
    some = z3.And(r.t >= 0, r.t < n, z3bool(_match(orders.fn(r), target)),
                  z3.ForAll([q], z3.Implies(z3.And(q >= 0, q < r.t), z3.Not(mq))))
    ctx.s.add(z3.Or(none, some))
    return r


def t_find(h):
    orders = h.ctx.fresh_arr('orders', np=True, cols=2)
    target = h.vec('t', 2)
    out = h.outcome('jesse.models.FuturesExchange.find_order_index', orders, target)
    h.prove(out.ok, 'find_order_index.no-exception', {'raised': out.exc})
    if not out.ok:
        return
    r = out.value
    n = orders.n
    j = h.int('j', 0)
    h.assume(ops.compare('<', j, n))
    if h.branch(ops.equal(r, -1)):
        h.prove(ops.lnot(_match(orders.fn(j), target)), 'find_order_index.minus-one-only-when-no-row-matches')
    else:
        h.prove(ops.land(ops.land(ops.compare('>=', r, 0), ops.compare('<', r, n)), _match(orders.fn(r), target)),
                'find_order_index.returns-a-matching-row')
        h.prove(ops.implies(ops.compare('<', j, r), ops.lnot(_match(orders.fn(j), target))),
                'find_order_index.returns-the-first-match')


def t_fill(side, ro, is_open):
    """Position._on_executed_order against m_execute"""
    def t(h):
        symbols = ['BTC-USDT']
        w = world(h, symbols, [is_open])
        store, trace = common.trades_store(h)
        pos = w.positions['BTC-USDT']
        q, p = order_vars(h, side)
        W = w.exchange.f['assets']['USDT']
        Q, E = pos.f['qty'], pos.f['entry_price']
        o = mk_order(h, side, q, p, ro, kind='MARKET')
        h.cover('fill.pre')
        want = h.spec('m_execute', W, Q, E, q, p, ro, w.fee)
        out = h.method_outcome(pos, '_on_executed_order', o)
        name = f'fill.{side}.{"ro" if ro else "plain"}'
        h.prove(out.ok, f'{name}.no-exception', {'raised': out.exc})
        if not out.ok:
            return
        h.prove(ops.equal(w.exchange.f['assets']['USDT'], want[0]), f'{name}.wallet-equals-model', {'clause': 'fee on the fill + realised PnL'})
        h.prove(ops.equal(pos.f['qty'], want[1]), f'{name}.size-equals-model')
        closed = ops.equal(want[1], 0)
        if h.branch(closed):
            h.prove(pos.f['entry_price'] is None or ops.equal(pos.f['qty'], 0) is True, f'{name}.closed-has-no-entry')
        else:
            h.prove(pos.f['entry_price'] is not None and want[2] is not None and ops.equal(pos.f['entry_price'], want[2]),
                    f'{name}.average-entry-equals-model')
    return t


def tasks(tier):
    x = dict(spec_mod=SPEC)
    ov = stubs.backtest_mode()
    ts = []
    for syms, mask in ((['BTC-USDT'], [True]), (['BTC-USDT'], [False]), (['BTC-USDT', 'ETH-USDT'], [True, True]),
                       (['BTC-USDT', 'ETH-USDT'], [True, False])):
        ts.append(Task(f'avail.{len(syms)}sym.{"".join("o" if m else "c" for m in mask)}', t_avail(syms, mask), extra=x,
                       overrides=dict(ov)))
    for side in ('buy', 'sell'):
        for ro in (False, True):
            for is_open in ((True, False) if not ro else (True,)):
                ts.append(Task(f'submit.{side}.{"ro" if ro else "open"}.{"pos" if is_open else "flat"}', t_submit(side, ro, is_open),
                               extra=x, overrides=dict(ov)))
            for kind in ('execute', 'cancel'):
                ts.append(Task(f'{kind}.{side}.{"ro" if ro else "open"}', t_release(kind, side, ro), extra=x, overrides=dict(ov),
                               invariants=INV, numba=set()))
            for is_open in ((True, False) if not ro else (True,)):
                ts.append(Task(f'fill.{side}.{"ro" if ro else "plain"}.{"pos" if is_open else "flat"}', t_fill(side, ro, is_open),
                               extra=x, overrides=dict(ov)))
        ov2 = dict(ov)
        ov2['jesse.models.FuturesExchange.find_order_index'] = find_contract
        ts.append(Task(f'cancel-after-submit.{side}', t_cancel_after_submit(side), extra=x, overrides=ov2))
    ts.append(Task('find_order_index', t_find, extra=x, overrides=dict(ov), invariants=INV))
    for kind in ('futures', 'spot'):
        ts.append(Task(f'init.{kind}', t_init(kind), extra=dict(x), overrides=dict(ov)))
    # A-1 (floats as reals) is probed where a decimal sum decides whether the position is flat: entries a, b and an exit for the decimal
    # total must leave size 0 (shared with C06, bounded native)
    import props.C06 as P6
    ts.append(Task('float-boundary', P6.t_float_boundary, extra=dict(x, bounded='98 decimal histories on the grid 0.05..2.2 (native, binary floats)')))
    # "at every point": the position hooks a strategy runs inside a fill see the account after the exchange has released the
    # order's reservation, i.e. Order.execute tells the exchange before the position (shared with C05)
    import props.C05 as P5
    ts += [t for t in P5.tasks(tier) if t.id.startswith('execute.ACTIVE.')]
    return ts


# loop invariant of find_order_index: no earlier row equals the target
INV = {('jesse.models.FuturesExchange.find_order_index', 0): [
    "forall(lambda j: not (orders[j][0] == order_array[0] and orders[j][1] == order_array[1]), 0, i)",
]}
