"""C17 - sizing and numeric helpers never overspend, over-risk or round up (proof over the reals)."""
import os
from fractions import Fraction
import z3
from pyvc.harness import Task, load_spec_module
from pyvc import ops
from pyvc.values import Sym, str_code
import contracts.C17 as K

PROPERTY = 'C17'
LEVEL = 'proof'
HERE = os.path.dirname(os.path.abspath(__file__))
SPEC = load_spec_module(os.path.join(HERE, '..', 'contracts', 'C17.py'), 'contracts.C17')
FUNCTIONS = sorted(K.CONTRACTS) + ['jesse.utils.timeframe_to_one_minutes', 'jesse.utils.anchor_timeframe',
                                   'jesse.helpers.max_timeframe', 'jesse.helpers.timeframe_to_one_minutes']
ASSUMPTIONS = [
    'A-1 float arithmetic is treated as mathematical real arithmetic (floor = ToInt); a one-ulp overshoot at particular floats is not excluded',
    'A-2 Decimal(str(x)) is the decimal x prints as, decimal +/- is exact, float(d) is correctly rounded: on the real model sum_floats(a,b)=a+b; the call trace Decimal(str),Decimal(str),float is proved',
    'acceptance by a fresh account uses the submission contracts of C03/C04 (q*price/L <= capital, q*price <= capital)',
]
TRUSTED = ['math.floor / numpy.floor = floor', 'math.isnan']
EXPLANATION = 'per-function postconditions for every precision 0..8 / decimals -4..8 and every timeframe label; max_timeframe over all 2^17 subsets in one query'

PREC = list(range(0, 9))

MANIFEST = {
    'category': 'proof',
    'text': 'Each helper is executed symbolically from its real AST and its postconditions (never above capital incl. fees, '
            'never above the requested risk, at most one precision step below the quotient, never rounds up, never widens the '
            'risk, tables = label lengths, max_timeframe over all 2^17 subsets) are discharged by z3 for every precision 0..8 '
            'and all real-valued inputs.',
    'note': 'A-1: floats are mathematical reals (floor = ToInt), so a one-ulp overshoot at particular floats is not excluded; '
            'A-2: Decimal(str(x)) arithmetic is exact (the Decimal(str),Decimal(str),float call trace is proved).',
}


def mk_fn_task(qual, enum):
    c = K.CONTRACTS[qual]

    def t(h):
        env = {}
        for a in c['args']:
            if a in enum:
                env[a] = enum[a]
            else:
                env[a] = h.real(a)
        for r in c['requires']:
            h.assume(h.ev(r, **env))
        h.cover(f'{qual}.pre')
        out = h.outcome(qual, *[env[a] for a in c['args']])
        short = qual.split('.')[-1]
        h.prove(out.ok, f'{short}.no-exception')
        if not out.ok:
            return
        r = out.value
        env['r'] = r
        for name, text in c['ensures'].items():
            h.prove(h.ev(text, **env), f'{short}.{name}', {'clause': text})
        if short in ('sum_floats', 'subtract_floats'):
            h.prove(list(h.ctx.trace) == K.DECIMAL_TRACE, f'{short}.goes-through-decimal-of-repr',
                    {'clause': 'calls == [Decimal(str(a)), Decimal(str(b)), float(.)]'})
        if qual == K.MUSTFAIL[0] and enum.get('precision') == 2:
            h.prove(h.ev(K.MUSTFAIL[1], **env), f'{short}.mustfail')
    return t


def t_tables(h):
    """both timeframe tables agree with the label lengths; anchor is strictly longer"""
    bt = h.interp.resolve_global(h.repo.module('jesse.modes.backtest_mode'), 'timeframe_to_one_minutes')
    enum_cls = h.repo.find('jesse.enums.timeframes')
    labels = [h.interp.get_attr(enum_cls, n) for n, m in enum_cls.members.items()]
    h.prove(sorted(labels) == sorted(K.TIMEFRAMES), 'tables.enum-is-the-17-labels')
    for lb in labels:
        want = h.spec('label_minutes', lb)
        got = h.outcome('jesse.utils.timeframe_to_one_minutes', lb)
        h.prove(got.ok and got.value == want, f'tables.utils[{lb}]')
        got2 = h.outcome('jesse.helpers.timeframe_to_one_minutes', lb)
        h.prove(got2.ok and got2.value == want, f'tables.helpers[{lb}]')
        h.prove(isinstance(bt, dict) and bt.get(lb) == want, f'tables.backtest_mode[{lb}]')
    for lb in ['1m', '3m', '5m', '15m', '30m', '45m', '1h', '2h', '3h', '4h', '6h', '8h', '12h']:
        out = h.outcome('jesse.utils.anchor_timeframe', lb)
        ok = out.ok and isinstance(out.value, str) and out.value in K.TIMEFRAMES and \
            h.spec('label_minutes', out.value) > h.spec('label_minutes', lb)
        h.prove(ok, f'tables.anchor[{lb}]-is-longer')


def t_max_timeframe(h):
    """all 2^17 subsets at once: member k present iff Boolean b_k"""
    bs = {}
    lst = []
    for lb in K.TIMEFRAMES:
        b = h.bool('in_' + lb)
        bs[lb] = b
        lst.append(Sym(z3.If(b.t, z3.IntVal(str_code(lb)), z3.IntVal(str_code('<absent>'))), 'str'))
    nonempty = False
    for b in bs.values():
        nonempty = ops.lor(nonempty, b)
    h.assume(nonempty)
    h.cover('max_timeframe.pre')
    out = h.outcome('jesse.helpers.max_timeframe', lst)
    h.prove(out.ok, 'max_timeframe.no-exception')
    if not out.ok:
        return
    r = out.value
    # r is a member, and no member is longer
    member = False
    longest = True
    for lb in K.TIMEFRAMES:
        is_r = ops.equal(r, lb)
        member = ops.lor(member, ops.land(is_r, bs[lb]))
        for lb2 in K.TIMEFRAMES:
            if K.label_minutes(lb2) > K.label_minutes(lb):
                longest = ops.land(longest, ops.lnot(ops.land(is_r, bs[lb2])))
    h.prove(member, 'max_timeframe.result-is-a-member')
    h.prove(longest, 'max_timeframe.no-member-is-longer')


def tasks(tier):
    ts = []
    x = dict(spec_mod=SPEC)
    for p in PREC:
        ts.append(Task(f'floor_with_precision.p{p}', mk_fn_task('jesse.helpers.floor_with_precision', {'precision': p}), extra=x))
        ts.append(Task(f'size_to_qty.p{p}', mk_fn_task('jesse.utils.size_to_qty', {'precision': p}), extra=x))
        ts.append(Task(f'risk_to_qty.p{p}', mk_fn_task('jesse.utils.risk_to_qty', {'precision': p}), extra=x))
        ts.append(Task(f'round_qty_for_live_mode.p{p}', mk_fn_task('jesse.helpers.round_qty_for_live_mode', {'precision': p}), extra=x))
    for d in range(-4, 9):
        ts.append(Task(f'round_decimals_down.d{d}', mk_fn_task('jesse.helpers.round_decimals_down', {'decimals': d}), extra=x))
    for tt in ('long', 'short'):
        ts.append(Task(f'limit_stop_loss.{tt}', mk_fn_task('jesse.utils.limit_stop_loss', {'trade_type': tt}), extra=x))
    for q in ('jesse.utils.risk_to_size', 'jesse.utils.estimate_risk', 'jesse.utils.qty_to_size', 'jesse.utils.sum_floats',
              'jesse.utils.subtract_floats'):
        ts.append(Task(q.split('.')[-1], mk_fn_task(q, {}), extra=x))
    ts.append(Task('tables', t_tables, extra=x))
    ts.append(Task('max_timeframe', t_max_timeframe, extra=x))
    # "... so an order for it at that price is accepted by a fresh account holding the capital": the acceptance rule of the accounts is
    # the contract of their submission handlers (shared with C04 / C03): a buy is rejected only when it costs MORE than what is free
    from pyvc import stubs
    import props.C04 as P4
    import props.C03 as P3
    ts += [t for t in P4.tasks(tier) if t.id.startswith('submit.buy.')]
    ts += [t for t in P3.tasks(tier) if t.id.startswith('submit.buy.open')]
    return ts
