"""C02 - resting orders fill exactly when and where the price reaches them (function level; match loops bounded)."""
import json
import os
from fractions import Fraction
from pyvc.harness import Task, load_spec_module
from pyvc import ops, stubs
from pyvc.values import Obj, Sym, Arr, Vec, Opaque
from pyvc.interp import Builtin
from props import common, sim
import contracts.C02 as K

PROPERTY = 'C02'
LEVEL = 'proof'
HERE = os.path.dirname(os.path.abspath(__file__))
SPEC = load_spec_module(os.path.join(HERE, '..', 'contracts', 'C02.py'), 'contracts.C02')
BM = 'jesse.modes.backtest_mode'
FUNCTIONS = ['jesse.store.state_orders.OrdersState.execute_pending_market_orders', f'{BM}._execute_market_orders', 'jesse.services.candle.candle_includes_price', f'{BM}._get_executing_orders', f'{BM}._simulate_price_change_effect',
             f'{BM}._simulate_price_change_effect_multiple_candles', f'{BM}._sort_execution_orders', f'{BM}._step_simulator',
             f'{BM}._skip_simulator', f'{BM}._execute_market_orders', 'jesse.services.candle.split_candle',
             'jesse.models.Order.Order.is_active']
ASSUMPTIONS = [
    'A-1 (exact here: matching only compares and selects); A-6 backtest mode; A-9 whole runs of arbitrary strategies are not decided',
    'Order.execute is a havocking stub in the match-loop harness: the executed order becomes final, the strategy hook may cancel any '
    'subset of the other resting orders and submit one new order at an arbitrary price (idempotence and accounting of the real '
    'execute: C05/C03/C04)',
    'match loops are bounded stand-ins: step simulator with <= 2 (quick) / 3 (thorough) resting orders, fast-mode chunk of 3 minutes '
    'with <= 2 resting orders; all prices and candles symbolic reals',
    'gap normalisation (matched range contains the previous close) is C07.fixed-jump.*; market-order queue semantics C05.pending.* / '
    'C05.market-order.*',
]
TRUSTED = ['sorted (stable)', 'enumerate', 'numpy.copy']
EXPLANATION = 'fill guards and step order as call-trace obligations (unbounded); match-loop completeness bounded in the order count'
MANIFEST = {
    'category': 'proof',
    'text': 'candle_includes_price is proved to be low <= p <= high and _get_executing_orders the filter of the active orders by it. '
            'One arbitrary iteration of the real _step_simulator / _skip_simulator loops (recording stubs) proves that every step ends '
            'with the market-order flush after the strategies ran, on every path. The real match functions are executed with a havocking '
            'Order.execute: every fill is guarded by is_active and price-in-remaining-candle, matching continues on the later part of the '
            'split, the minute is stored and the liquidation check runs last on the whole candle; completeness (no active resting order '
            'left whose price lies in the minute / chunk) is a bounded stand-in in the number of resting orders.',
    'note': 'bounded parts are reported under bounded_checks; recorded finding: in fast mode an order priced only in a close->open gap '
            'inside a chunk is not filled (sorted against the raw minutes, matched against the gap-extended ones).',
}
FINDINGS = set(json.loads(os.environ.get('PYVC_FINDINGS', '[]')))


def t_includes(h):
    c = h.vec('c', 6)
    p = h.real('p', nan=False)
    r = h.call('jesse.services.candle.candle_includes_price', c, p)
    h.prove(ops.equal(ops.truthy(r), h.spec('includes', c, p)), 'includes.iff-low-le-price-le-high')
    h.prove(h.ev(K.MUSTFAIL, r=ops.truthy(r), c=c, p=p), 'includes.mustfail')


def mk_orders(h, n, prefix='r'):
    out = []
    for j in range(n):
        p = h.real(f'{prefix}{j}')
        h.assume(ops.compare('>', p, 0))
        out.append(common.mk_order(h, side='buy', type='LIMIT', qty=Fraction(1), price=p, symbol='BTC-USDT', exchange='Sandbox',
                                   reduce_only=False, status='ACTIVE', id=f'{prefix}{j}'))
    return out


def t_candidates(h):
    orders = mk_orders(h, 3)
    for j, o in enumerate(orders):
        o.f['status'] = h.ctx.fresh_str(f'st{j}', among=['ACTIVE', 'EXECUTED', 'CANCELED'])
        # the order type is a finite enumeration: a MARKET order submitted by a fill hook is a candidate like any other (it is
        # priced at the current price and fills at the point of the path where it was submitted)
        o.f['type'] = h.ctx.fresh_str(f'ty{j}', among=['LIMIT', 'STOP', 'MARKET'])
    reg = Obj(None, {'get_active_orders': Builtin('get_active_orders', lambda i, a, k: list(orders))})
    store = Obj(None, {'orders': reg})
    h.ctx.cfg.globals[f'{BM}.store'] = lambda i: store
    c = h.vec('c', 6)
    out = h.outcome(f'{BM}._get_executing_orders', 'Sandbox', 'BTC-USDT', c)
    h.prove(out.ok and isinstance(out.value, list), 'candidates.no-exception')
    if out.ok:
        got = out.value
        goal = True
        for o in orders:
            want = ops.land(ops.equal(o.f['status'], 'ACTIVE'), h.spec('includes', c, o.f['price']))
            goal = ops.land(goal, ops.equal(any(x is o for x in got), want))
        h.prove(goal, 'candidates.exactly-the-active-orders-whose-price-is-in-range')
        idx = [orders.index(x) for x in got]
        h.prove(idx == sorted(idx) and len(set(idx)) == len(idx), 'candidates.in-registry-order-without-duplicates')


class MatchWorld:
    pass


def match_world(h, n_rest, allow_new=True, hook_cancels=True):
    """orders + store for the match functions; Order.execute is the havocking stub described in ASSUMPTIONS"""
    W = MatchWorld()
    W.ev = []
    W.rest = mk_orders(h, n_rest)
    W.active = list(W.rest)
    W.new = []
    W.fills = []
    pos = Obj(None, {'current_price': None}, name='position')
    W.pos = pos
    app = Obj(None, {'time': Fraction(0)})
    # the registry hands out its current list at each call and may swap it for a fresh one (reset_trade_orders does): callers
    # must not rely on an earlier result staying aliased with the registry
    reg = Obj(None, {'get_active_orders': Builtin('get_active_orders', lambda i, a, k: list(W.active))})
    cstate = Obj(None, {'add_candle': Builtin('add_candle', lambda i, a, k: W.ev.append(('add_candle', tuple(a)))),
                        'add_multiple_1m_candles': Builtin('add_multiple', lambda i, a, k: W.ev.append(('add_multiple', tuple(a))))})
    store = Obj(None, {'orders': reg, 'candles': cstate, 'app': app})
    W.store = store
    h.ctx.cfg.globals[f'{BM}.store'] = lambda i: store
    ov = h.ctx.cfg.overrides
    ov['jesse.services.selectors.get_position'] = lambda i, a, k: pos
    ov[f'{BM}._update_all_routes_a_partial_candle'] = lambda i, a, k: W.ev.append(('partial', tuple(a)))
    ov[f'{BM}._check_for_liquidations'] = lambda i, a, k: W.ev.append(('liquidations', tuple(a)))

    def execute(i, a, k):
        o = a[0]
        if not (o.f['status'] == 'ACTIVE'):
            W.ev.append(('execute-final', (o,)))
            return None
        o.f['status'] = 'EXECUTED'
        W.ev.append(('execute', (o,)))
        W.fills.append(o)
        # strategy hook: may cancel any subset of the other resting orders ...
        for other in (list(W.active) if hook_cancels else []):
            if other is not o and other.f['status'] == 'ACTIVE':
                if h.branch(h.bool('hook_cancels')):
                    other.f['status'] = 'CANCELED'
        # ... and submit one new order at an arbitrary price
        if allow_new and not W.new and h.branch(h.bool('hook_submits')):
            nw = mk_orders(h, 1, prefix='new')[0]
            W.new.append(nw)
            W.active.append(nw)
        return None
    ov['jesse.models.Order.Order.execute'] = execute
    return W


def valid_candle(h, c):
    h.assume(ops.land(ops.compare('<=', c.e[4], c.e[1]), ops.compare('<=', c.e[1], c.e[3])))
    h.assume(ops.land(ops.compare('<=', c.e[4], c.e[2]), ops.compare('<=', c.e[2], c.e[3])))
    h.assume(ops.compare('>', c.e[4], 0))


def t_match_step(n, red=None, allow_new=True):
    def t(h):
        W = match_world(h, n, allow_new=allow_new)
        c = h.vec('c', 6)
        valid_candle(h, c)
        if red is not None:
            h.assume(ops.compare('>', c.e[1], c.e[2]) if red else ops.compare('<=', c.e[1], c.e[2]))
        h.cover('match.pre')
        out = h.outcome(f'{BM}._simulate_price_change_effect', c, 'Sandbox', 'BTC-USDT')
        h.prove(out.ok, 'match.no-exception', {'raised': out.exc})
        if not out.ok:
            return
        # fills only when touched: every execute is preceded by the publication of the earlier part ending at the order's price
        evs = W.ev
        ok = True
        goal = True
        cur = c
        for j, e in enumerate(evs):
            if e[0] == 'execute':
                o = e[1][0]
                prev = evs[j - 1] if j > 0 else None
                ok = ok and prev is not None and prev[0] == 'partial'
                goal = ops.land(goal, h.spec('includes', c, o.f['price']))
        h.prove(ok, 'match.every-fill-is-preceded-by-the-partial-candle-publication')
        h.prove(goal, 'match.fills-only-at-prices-inside-the-minute')
        h.prove(not any(e[0] == 'execute-final' for e in evs), 'match.final-orders-are-skipped-not-executed-again')
        # completeness: no resting order left active whose price lies in the minute
        left = True
        for o in W.rest:
            left = ops.land(left, ops.implies(ops.equal(o.f['status'], 'ACTIVE'), ops.lnot(h.spec('includes', c, o.f['price']))))
        h.prove(left, 'match.no-active-resting-order-left-inside-the-minute',
                {'clause': 'for every order resting at the start: ACTIVE at the end => price outside [low, high]'})
        # the minute is stored and the liquidation check comes last, on the whole candle
        tail = [e[0] for e in evs[-2:]]
        h.prove(tail == ['add_candle', 'liquidations'] and evs[-1][1][0] is c and evs[-2][1][0] is c and evs[-2][1][3] == '1m',
                'match.stores-the-minute-then-checks-liquidation-on-the-whole-candle-last', {'tail': tail})
        h.prove(ops.equal(W.pos.f['current_price'], c.e[2]), 'match.position-price-ends-at-the-close')
    return t


def t_continuation(h):
    """after a fill the matching continues on the later part of the split (data-flow obligation of C08)"""
    W = match_world(h, 1, allow_new=True)
    c = h.vec('c', 6)
    valid_candle(h, c)
    o = W.rest[0]
    h.assume(h.spec('includes', c, o.f['price']))
    calls = []
    real = h.repo.find(f'{BM}._get_executing_orders')

    def spy(i, a, k):
        calls.append(a[2])
        h.ctx.cfg.overrides.pop(f'{BM}._get_executing_orders')
        try:
            return i.call(real, list(a), k)
        finally:
            h.ctx.cfg.overrides[f'{BM}._get_executing_orders'] = spy
    h.ctx.cfg.overrides[f'{BM}._get_executing_orders'] = spy
    out = h.outcome(f'{BM}._simulate_price_change_effect', c, 'Sandbox', 'BTC-USDT')
    h.prove(out.ok and len(calls) >= 2, 'continuation.candidates-recomputed-after-the-fill')
    if out.ok and len(calls) >= 2:
        later = h.call('jesse.services.candle.split_candle', Vec(list(c.e)), o.f['price'])[1]
        h.prove(h.interp.lib._np_array_equal(h.interp, [calls[1], later], {}), 'continuation.match-uses-later-part-of-the-split')
        nw = W.new[0] if W.new else None
        if nw is not None:
            filled = any(e[0] == 'execute' and e[1][0] is nw for e in W.ev)
            h.prove(ops.implies(filled, h.spec('includes', later, nw.f['price'])),
                    'continuation.reaction-order-fills-only-on-the-path-after-the-fill')
            # ... and it is not left behind: "from its submission onward" the rest of this minute's path counts
            h.prove(ops.implies(ops.equal(nw.f['status'], 'ACTIVE'), ops.lnot(h.spec('includes', later, nw.f['price']))),
                    'continuation.reaction-order-inside-the-remaining-path-is-filled-in-the-same-minute')


def gap_extended(chunk, j):
    c = chunk.fn(j)
    if j == 0:
        return c.e[4], c.e[3]
    pc = chunk.fn(j - 1).e[2]
    return ops.vmin(c.e[4], pc), ops.vmax(c.e[3], pc)


def t_match_chunk(n, minutes=3, hook_cancels=True, reds=None):
    def t(h):
        W = match_world(h, n, allow_new=False, hook_cancels=hook_cancels)
        rows = []
        for j in range(minutes):
            v = h.vec(f'm{j}_', 6)
            valid_candle(h, v)
            if reds is not None and j < len(reds):
                h.assume(ops.compare('>', v.e[1], v.e[2]) if reds[j] else ops.compare('<=', v.e[1], v.e[2]))
            rows.append(v)
        chunk = Arr(minutes, (lambda k, rows=rows: ops.pick(rows, k)), np=True, cols=6)
        snapshot = [list(r_.e) for r_ in rows]
        h.cover('chunk.pre')
        out = h.outcome(f'{BM}._simulate_price_change_effect_multiple_candles', chunk, 'Sandbox', 'BTC-USDT')
        h.prove(out.ok, 'chunk.no-exception', {'raised': out.exc})
        if not out.ok:
            return
        left = True
        gap_only = False
        for o in W.rest:
            p = o.f['price']
            touched = False
            raw = False
            for j in range(minutes):
                lo, hi = gap_extended(chunk, j)
                touched = ops.lor(touched, ops.land(ops.compare('<=', lo, p), ops.compare('<=', p, hi)))
                raw = ops.lor(raw, h.spec('includes', rows[j], p))
            left = ops.land(left, ops.implies(ops.equal(o.f['status'], 'ACTIVE'), ops.lnot(touched)))
            gap_only = ops.lor(gap_only, ops.land(touched, ops.lnot(raw)))
        if 'C02-fast-mode-misses-order-priced-in-a-gap' in FINDINGS:
            left = ops.lor(gap_only, left)
        h.prove(left, 'chunk.no-active-resting-order-left-inside-the-chunk',
                {'clause': 'ACTIVE at chunk end => price outside every gap-extended minute range of the chunk'})
        tail = [e[0] for e in W.ev[-2:]]
        h.prove(tail == ['add_multiple', 'liquidations'], 'chunk.stores-the-chunk-then-checks-liquidation-last', {'tail': tail})
        # what is stored are the input minutes: the widening of a minute to the previous close is for matching only
        stored = [e for e in W.ev if e[0] == 'add_multiple']
        same = len(stored) == 1 and isinstance(stored[0][1][0], Arr)
        if same:
            given = stored[0][1][0]
            same = ops.equal(given.n, minutes)
            for j, snap in enumerate(snapshot):
                row = given.fn(j)           # read through the array that reached the store (in-place edits of its rows show here)
                for x_, y_ in zip(row.e, snap):
                    same = ops.land(same, True if x_ is y_ else ops.equal(x_, y_))
        h.prove(same, 'chunk.the-minutes-handed-to-the-store-are-the-unmodified-input-minutes')
    return t


def t_flush(simulator):
    """every step of the simulator loop ends with the market-order flush, after the strategies (no path skips it)"""
    def t(h):
        sim.lib_time(h)
        S = sim.build(h, symbols=('BTC-USDT',), timeframes=('1m', '5m'), route_tfs=('5m',))
        key = (f'{BM}.{simulator}', 0)

        def start(interp, fr, i):
            del S.events[:]

        def end(interp, fr, i):
            names = [e[0] for e in S.events]
            h.prove(names.count('flush') == 1, f'{simulator}.market-orders-flushed-once-per-step', {'events': names})
            if 'flush' in names:
                after = [n for n in names[names.index('flush') + 1:] if n != 'daily']
                strat_after = any(n == 'strategy' for n in names[names.index('flush'):])
                h.prove(after == [] and not strat_after, f'{simulator}.flush-is-the-last-action-of-the-step-after-the-strategies')
        h.ctx.cfg.extra['loop_hooks'] = {key: {'start': start, 'end': end}}
        h.ctx.cfg.extra['havoc'] = {key: {'last_update_time': lambda i, old: Opaque('t')}}
        h.ctx.cfg.invariants[key] = []
        ov = h.ctx.cfg.overrides
        ov[f'{BM}._execute_market_orders'] = lambda i, a, k: S.events.append(('flush', (), {}))
        ov[f'{BM}._calculate_minimum_candle_step'] = lambda i, a, k: 5
        ov[f'{BM}._simulate_new_candles'] = lambda i, a, k: S.events.append(('feed', tuple(a), {}))
        out = h.outcome(f'{BM}.{simulator}', S.candles, True)
        h.prove(out.ok, f'{simulator}.no-exception', {'raised': out.exc})
    return t


def t_flush_drains(h):
    """OrdersState.execute_pending_market_orders: a MARKET order queued by a hook while the flush runs (reaction to a
    fill of the flush) is executed by the same flush - not one candle later - and the queue is empty afterwards"""
    cls = h.repo.find('jesse.store.state_orders.OrdersState')
    trace = []
    reg = Obj(cls, {'to_execute': [], 'storage': {}, 'active_storage': {}})
    ms = [Obj(None, {'id': f'm{j}'}, name=f'm{j}') for j in range(3)]

    def mk(j):
        def ex(i, a, k):
            trace.append(ms[j])
            if j + 1 < len(ms) and j < 2:
                # hook reaction (e.g. on_open_position -> liquidate): Sandbox.market_order appends to the live queue
                reg.f['to_execute'].append(ms[j + 1])
        return ex
    for j, o in enumerate(ms):
        o.f['execute'] = Builtin('execute', mk(j))
    reg.f['to_execute'].append(ms[0])
    h.cover('flush.drains.pre')
    # through the simulator's own entry point (a contracted call in the loop harnesses)
    store = Obj(None, {'orders': reg}, name='store')
    h.ctx.cfg.globals[f'{BM}.store'] = lambda i: store
    out = h.outcome(f'{BM}._execute_market_orders')
    h.prove(out.ok, 'flush.drains.no-exception', {'raised': out.exc})
    h.prove(len(trace) == 3 and all(trace[j] is ms[j] for j in range(len(trace))),
            'flush.market-order-queued-during-the-flush-is-executed-by-the-same-flush', {'executed': [o.name for o in trace]})
    h.prove(reg.f['to_execute'] == [], 'flush.queue-empty-afterwards')
    n = len(trace)
    h.method(reg, 'execute_pending_market_orders')
    h.prove(len(trace) == n, 'flush.nothing-executed-twice')


def tasks(tier):
    x = dict(spec_mod=SPEC)
    ov = stubs.backtest_mode()
    ts = [Task('includes', t_includes, extra=dict(x), overrides=dict(ov)),
          Task('candidates', t_candidates, extra=dict(x, bounded='registry of N=3 orders'), overrides=dict(ov)),
          Task('continuation', t_continuation, extra=dict(x), overrides=dict(ov), max_paths=20000)]
    nmax = 2 if tier == 'quick' else 3
    for n in range(0, nmax + 1):
        for red in (False, True):
            for new in (False, True):
                if tier == 'quick' and new and n >= 2:
                    continue        # two resting orders plus a reaction order: thorough tier
                ts.append(Task(f'match.step.n{n}.{"falling" if red else "rising"}.{"reaction" if new else "noreaction"}',
                               t_match_step(n, red, new), extra=dict(x, bounded=f'N<={nmax} resting orders, one reaction order'),
                               overrides=dict(ov), max_paths=200000))
    mins = 2 if tier == 'quick' else 3
    ts.append(Task('match.chunk.n1', t_match_chunk(1, 3), extra=dict(x, bounded='chunk of 3 minutes, 1 resting order'),
                   overrides=dict(ov), max_paths=100000))
    for r0 in (False, True):
        for r1 in (False, True):
            ts.append(Task(f'match.chunk.n2.{"f" if r0 else "r"}{"f" if r1 else "r"}', t_match_chunk(2, mins, hook_cancels=False, reds=(r0, r1)),
                           extra=dict(x, bounded=f'chunk of {mins} minutes, 2 resting orders, fills without hook effects'),
                           overrides=dict(ov), max_paths=200000))
    ts.append(Task('flush.drains', t_flush_drains, extra=dict(x), overrides=dict(ov)))
    # shared with C08 / C07: the match loop keeps the candidates in path order over the part of the minute that is left, and
    # the minute handed to it is normalised to the previous close (an order priced in a close->open gap is reachable)
    import props.C08 as P8
    import props.C07 as P7
    for n in (1, 2):
        ts.append(Task(f'protocol.n{n}', P8.t_protocol(n), extra=dict(x, bounded=f'{n} resting orders + one reaction order'), overrides=dict(ov),
                       max_paths=200000))
    ts.append(Task('fixed-jump', P7.t_fixed_jump, extra=dict(x, spec_mod=P7.SPEC), overrides=dict(ov)))
    # "at exactly its own price and quantity": what a fill of (qty, price) does to the position is the contract of
    # Position._on_executed_order (shared with C03, every fill kind incl. the flip); the price a hook sees while the order executes is
    # the one published by _update_all_routes_a_partial_candle (shared with C07)
    import props.C03 as P3
    ts += [t for t in P3.tasks(tier) if t.id.startswith('fill.')]
    ts += [t for t in P7.tasks(tier) if t.id in ('partial.5m', 'partial.1h')]
    import props.C01 as P1
    ts.append(Task('chunk-clock.reaction', (lambda h: P1.t_chunk_clock(h, True)), extra=dict(x), overrides=dict(ov), max_paths=20000))
    ts.append(Task('protocol.chunk', P8.t_protocol_chunk(2), extra=dict(x, bounded='chunk of 2 minutes, one resting order then two candidates after each fill'),
                   overrides=dict(ov), max_paths=400000))
    for s_ in ('_step_simulator', '_skip_simulator'):
        ts.append(Task(f'flush.{s_}', t_flush(s_), extra=dict(x), overrides=dict(ov), invariants={}))
    # "a cancelled order is never filled later", whoever calls Order.execute (the flush of queued market orders reaches orders
    # that were cancelled after they were queued): the contract of Order.execute / Order.cancel itself (shared with C05)
    import props.C05 as P5
    ts += [t for t in P5.tasks(tier) if t.id.startswith(('execute.', 'cancel.')) and t.id.count('.') == 3]
    return ts
